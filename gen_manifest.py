#!/usr/bin/env python3
"""Regenerates MANIFEST.json from verifconf.json (single source of truth for the per-property registration)."""
import json, os
ROOT = os.path.dirname(os.path.abspath(__file__))
conf = json.load(open(os.path.join(ROOT, "verifconf.json")))
import glob
conf["properties"] = {os.path.basename(p)[:-5]: json.load(open(p)) for p in sorted(glob.glob(os.path.join(ROOT, "conf", "C*.json")))}
props = [json.loads(l) for l in open(os.path.join(ROOT, "properties.jsonl")) if l.strip()]
checks, na = [], []
engines = {}
for p in props:
    pid = p["id"]
    c = conf["properties"].get(pid)
    if not c or c.get("disabled") or pid not in conf.get("enabled", []):
        na.append({"property_id": pid, "reason": (c or {}).get("disabled") or conf.get("not_applicable", {}).get(pid, "check not built yet in this round; the technique applies (see DESIGN.md §5)")})
        continue
    checks.append({
        "property_id": pid,
        "quick_cmd": "./check %s quick" % pid,
        "thorough_cmd": "./check %s thorough" % pid,
        "replay_cmd_template": "./check %s --replay {path}" % pid,
        "evidence_file": "evidence/%s.json" % pid,
        "engine": c["engine"],
        "technique": c["technique"],
        "level_claimed": {"category": c["level"], "design_ref": "DESIGN.md §5 " + pid, "text": c.get("level_text", "held on every generated case explored by this run; the counts are in the evidence file")},
        "level_note": c.get("level_note", "; ".join(c.get("assumptions", [])) or "the harness (generators, oracles, reference models) and the Go toolchain are trusted"),
    })
    engines.setdefault(c["engine"], []).append(pid)
man = {
    "version": 1,
    "setup_cmd": "./setup.sh",
    "hooks": conf["hooks"],
    "engines": [{"name": k, "path": conf["engines"][k]["path"], "serves_properties": v, "kind_free_text": conf["engines"][k]["kind"]} for k, v in engines.items()],
    "checks": checks,
    "not_applicable": na,
    "notes": conf.get("notes", ""),
}
json.dump(man, open(os.path.join(ROOT, "MANIFEST.json"), "w"), indent=1)
print("wrote MANIFEST.json: %d checks, %d not_applicable" % (len(checks), len(na)))
