package lab

import (
	stdctx "context"
	"fmt"
	"sync"
	"time"

	coercion "github.com/element-of-surprise/coercion"
	"github.com/element-of-surprise/coercion/workflow"
	"github.com/element-of-surprise/coercion/workflow/context"
	"github.com/element-of-surprise/coercion/workflow/storage/sqlite"
	"github.com/google/uuid"

	"verifharness/vprop"
)

// API lab (C12): histories of public API calls, including racing Starts, on known and unknown ids.

type APIOpKind int

const (
	OpSubmit        APIOpKind = iota // submit plan Plan (once per plan index)
	OpSubmitInvalid                  // submit an ill-formed plan of kind Arg
	OpStart                          // Start(plan)
	OpStartRace                      // N concurrent Starts of plan, the 2nd.. issued after DelayUs
	OpWait                           // Wait(plan) with a deadline of Arg ms (0: wait to the end)
	OpStatus                         // Status(plan), consume Arg results
	OpPlan                           // Plan(plan)
	OpSleep                          // sleep Arg µs
)

func (k APIOpKind) String() string {
	return [...]string{"submit", "submit-invalid", "start", "start-race", "wait", "status", "plan", "sleep"}[k]
}

// APIOp is one call. Plan indexes APIHistory.Plans; a plan that was not submitted yet (or Plan < 0) stands for an
// unknown id.
type APIOp struct {
	Kind    APIOpKind
	Plan    int
	Arg     int
	N       int
	DelayUs int
	// CancelUs > 0 (Start and Submit ops): the context handed to the call is cancelled that many µs after it was issued.
	CancelUs int `json:",omitempty"`
}

type APIHistory struct {
	Plans []PlanSpec
	Ops   []APIOp
	// MaxSubmitMs > 0 sets WithMaxSubmit; StaleSleepMs is slept before the first Start when MaxSubmitMs > 0 and
	// Stale is set (so the plan is older than the maximum by a wide margin).
	MaxSubmitMs int
	Stale       bool
	// NoRecovery constructs the Workstream with WithNoRecovery (nothing to recover on a fresh store: every clause of
	// C12 applies unchanged).
	NoRecovery bool `json:",omitempty"`
	// SlowReadNth > 0: the SlowReadNth-th storage Read issued by the engine returns SlowReadUs µs late.
	SlowReadNth int `json:",omitempty"`
	SlowReadUs  int `json:",omitempty"`
}

type startCall struct {
	plan     int
	issuedAt int // log position when issued
	doneAt   int // log position when returned
	err      error
	racing   bool
	known    bool // the plan had been submitted when Start was issued
	// ctxCancelled: the context handed to this Start was cancelled while (or before) it ran: it may legitimately fail
	ctxCancelled bool
}

// InvalidPlan builds the ill-formed plan of the given kind (nil for kind 0).
func InvalidPlan(kind int) *workflow.Plan {
	okAct := func() *workflow.Action {
		return &workflow.Action{Name: "a", Descr: "a", Plugin: PlugAct, Req: ReqV{Tag: "p0/b0/s0/a0"}}
	}
	okSeq := func() *workflow.Sequence {
		return &workflow.Sequence{Name: "s", Descr: "s", Actions: []*workflow.Action{okAct()}}
	}
	okBlock := func() *workflow.Block {
		return &workflow.Block{Name: "b", Descr: "b", Sequences: []*workflow.Sequence{okSeq()}}
	}
	p := &workflow.Plan{Name: "invalid", Descr: "invalid", Blocks: []*workflow.Block{okBlock()}}
	switch kind % 9 {
	case 0:
		return nil
	case 1:
		p.Name = " "
	case 2:
		p.Blocks = nil
	case 3:
		p.Blocks = []*workflow.Block{nil}
	case 4:
		p.Blocks[0].Sequences = []*workflow.Sequence{nil}
	case 5:
		p.Blocks[0].Sequences[0].Actions = []*workflow.Action{nil}
	case 6:
		p.Blocks[0].Sequences[0].Actions[0].Plugin = "no such plugin"
	case 7:
		p.ID = workflow.NewV7()
	case 8:
		p.PreChecks = &workflow.Checks{Actions: []*workflow.Action{nil}}
	}
	return p
}

// RunAPI executes the history against a fresh Workstream and judges C12.
func RunAPI(h *APIHistory, res *vprop.Result) {
	sc := &Scenario{Plans: h.Plans}
	l := newLab(sc)
	ctx := context.Background()
	reg := l.newRegistry(false)
	inner, err := sqlite.New(ctx, "", reg, sqlite.WithInMemory())
	if err != nil {
		res.Skip = true
		return
	}
	rec := &RecVault{Vault: inner, lab: l}
	l.slowReadNth, l.slowReadUs = h.SlowReadNth, h.SlowReadUs
	// the in-memory store is released when the history ended with nothing executing any more (a vault that is closed
	// under a running plan would make the engine exit); a stalled history keeps its store
	quiescentEnd := false
	defer func() {
		if quiescentEnd {
			_ = inner.Close(ctx)
		}
	}()
	var opts []coercion.Option
	if h.MaxSubmitMs > 0 {
		opts = append(opts, coercion.WithMaxSubmit(time.Duration(h.MaxSubmitMs)*time.Millisecond))
	}
	if h.NoRecovery {
		opts = append(opts, coercion.WithNoRecovery())
	}
	stopCtl := make(chan struct{})
	go l.controller(stopCtl)
	defer close(stopCtl)
	ws, err := coercion.New(ctx, reg, rec, opts...)
	if err != nil {
		res.Skip = true
		return
	}

	ids := make([]uuid.UUID, len(h.Plans))
	submitted := make([]bool, len(h.Plans))
	submitAt := make([]time.Time, len(h.Plans))
	var mu sync.Mutex
	var starts []*startCall
	var wg sync.WaitGroup // background Wait calls
	failed := false

	// guard runs one API call, turning a panic in the calling goroutine into a verdict:
	// "None of Submit, Start, Wait, Status or Plan, in any order or with unknown ids, makes the process panic or exit"
	guard := func(what string, f func()) {
		defer func() {
			if r := recover(); r != nil {
				mu.Lock()
				if !failed {
					failed = true
					res.Fail("C12/panic:"+what, "%s panicked: %v", what, r)
				}
				mu.Unlock()
			}
		}()
		f()
	}
	idOf := func(pi int) (uuid.UUID, bool) {
		if pi >= 0 && pi < len(ids) && submitted[pi] {
			return ids[pi], true
		}
		return uuid.MustParse("01890000-0000-7000-8000-00000000dead"), false
	}
	doStart := func(pi int, racing bool, cancelUs int) {
		id, known := idOf(pi)
		sc := &startCall{plan: pi, racing: racing, known: known, ctxCancelled: cancelUs > 0}
		l.mu.Lock()
		sc.issuedAt = len(l.events)
		l.mu.Unlock()
		// cancelUs > 0: the context handed to Start ends that many µs after the call was issued — possibly in the middle
		// of Start (e.g. while its storage read returns late). Whatever Start then reports must be true: an error means
		// the plan does not execute, nil means it executes exactly once ("Cancelling the Context will not Stop execution").
		sctx, cancelStart := stdctx.WithCancel(ctx)
		defer cancelStart() // after Start has returned: "Cancelling the Context will not Stop execution"
		if cancelUs > 0 {
			tm := time.AfterFunc(time.Duration(cancelUs)*time.Microsecond, cancelStart)
			defer tm.Stop()
		}
		guard("Start", func() { sc.err = ws.Start(sctx, id) })
		l.api(EvStartRet, pi, sc.err)
		l.mu.Lock()
		sc.doneAt = len(l.events) - 1
		l.mu.Unlock()
		mu.Lock()
		starts = append(starts, sc)
		mu.Unlock()
	}

	for _, op := range h.Ops {
		switch op.Kind {
		case OpSubmit:
			if op.Plan < 0 || op.Plan >= len(h.Plans) || submitted[op.Plan] {
				continue
			}
			plan := l.BuildPlan(op.Plan)
			guard("Submit", func() {
				// CancelUs > 0: the context handed to Submit ends that many µs after the call was issued — possibly while
				// the plan is being written. Submit may then legitimately fail (the plan stays unknown); it must not panic.
				sctx := stdctx.Context(ctx)
				if op.CancelUs > 0 {
					c, cancelSubmit := stdctx.WithCancel(ctx)
					defer cancelSubmit()
					tm := time.AfterFunc(time.Duration(op.CancelUs)*time.Microsecond, cancelSubmit)
					defer tm.Stop()
					sctx = c
					res.Label("submit-ctx-cancelled")
				}
				id, err := ws.Submit(sctx, plan)
				l.api(EvSubmitRet, op.Plan, err)
				if err != nil && op.CancelUs > 0 {
					res.Label("submit-ctx-cancelled:refused")
					return
				}
				if err != nil {
					mu.Lock()
					if !failed {
						failed = true
						res.Fail("C12/valid-plan-refused", "Submit of a valid plan failed: %v", err)
					}
					mu.Unlock()
					return
				}
				ids[op.Plan], submitted[op.Plan], submitAt[op.Plan] = id, true, time.Now()
				if stored, rerr := inner.Read(ctx, id); rerr == nil && stored != nil {
					plan = stored // ids from the stored plan, not from the caller's object
				}
				l.registerIDs(op.Plan, plan)
			})
		case OpSubmitInvalid:
			guard("Submit", func() {
				_, err := ws.Submit(ctx, InvalidPlan(op.Arg))
				if err == nil {
					res.Label("invalid-plan-accepted") // judged by C16, not here
				}
			})
		case OpStart, OpStartRace:
			if h.Stale && h.MaxSubmitMs > 0 && op.Plan >= 0 && op.Plan < len(submitted) && submitted[op.Plan] {
				// make the submission older than the maximum by a wide margin (30 ms)
				if age, want := time.Since(submitAt[op.Plan]), time.Duration(h.MaxSubmitMs+30)*time.Millisecond; age < want {
					time.Sleep(want - age)
				}
			}
			if op.Kind == OpStart {
				doStart(op.Plan, false, op.CancelUs)
				continue
			}
			n := op.N
			if n < 2 {
				n = 2
			}
			var rg sync.WaitGroup
			for i := 0; i < n; i++ {
				rg.Add(1)
				go func(i int) {
					defer rg.Done()
					if i > 0 && op.DelayUs > 0 {
						time.Sleep(time.Duration(op.DelayUs) * time.Microsecond)
					}
					doStart(op.Plan, true, op.CancelUs)
				}(i)
			}
			rg.Wait()
		case OpWait:
			id, _ := idOf(op.Plan)
			if op.Arg > 0 {
				guard("Wait", func() {
					wctx, cancel := stdctx.WithTimeout(ctx, time.Duration(op.Arg)*time.Millisecond)
					defer cancel()
					_, _ = ws.Wait(wctx, id)
				})
			} else {
				wg.Add(1)
				go func() {
					defer wg.Done()
					guard("Wait", func() {
						wctx, cancel := stdctx.WithTimeout(ctx, 60*time.Second)
						defer cancel()
						_, _ = ws.Wait(wctx, id)
					})
				}()
			}
		case OpStatus:
			id, _ := idOf(op.Plan)
			guard("Status", func() {
				sctx, cancel := stdctx.WithTimeout(ctx, 50*time.Millisecond)
				defer cancel()
				k := 0
				for range ws.Status(sctx, id, 200*time.Microsecond) {
					k++
					if k >= op.Arg {
						break
					}
				}
			})
		case OpPlan:
			id, known := idOf(op.Plan)
			guard("Plan", func() {
				p, err := ws.Plan(ctx, id)
				if !known && err == nil && p != nil && p.ID == uuid.Nil {
					res.Label("unknown-id-read-as-empty-plan") // judged by C13
				}
			})
		case OpSleep:
			time.Sleep(time.Duration(op.Arg) * time.Microsecond)
		}
		if failed {
			break
		}
	}

	// let every execution finish (bounded by the stall rule) so the verdict is read off a quiet log
	stallWindow := envDur("VERIF_STALL_MS", 10*time.Second)
	terminal := func() bool {
		for pi := range h.Plans {
			if !submitted[pi] {
				continue
			}
			started := false
			mu.Lock()
			for _, s := range starts {
				if s.plan == pi && s.err == nil {
					started = true
				}
			}
			mu.Unlock()
			if !started {
				continue
			}
			p, err := inner.Read(ctx, ids[pi])
			if err != nil || p.State == nil || (p.State.Status != workflow.Completed && p.State.Status != workflow.Failed) {
				return false
			}
		}
		return true
	}
	stalled := false
	for !terminal() {
		time.Sleep(time.Millisecond)
		if since, busy := l.quiet(); !busy && since > stallWindow {
			stalled = true
			break
		}
	}
	done := make(chan struct{})
	go func() { wg.Wait(); close(done) }()
	select {
	case <-done:
	case <-time.After(stallWindow + 5*time.Second):
		stalled = true
	}
	// epilogue: "starting a plan that is already running or has finished is rejected without side effects" — every plan
	// that reached a terminal state is started once more (after its submission has become older than the configured
	// maximum, when there is one) and the stored plan is compared before and after that Start
	type epilogue struct {
		plan int
		err  error
		diff string
	}
	var epis []epilogue
	if !stalled && !failed {
		for pi := range h.Plans {
			if !submitted[pi] {
				continue
			}
			before, err := inner.Read(ctx, ids[pi])
			if err != nil || before == nil || before.State == nil || !finished(before.State.Status) {
				continue
			}
			if h.MaxSubmitMs > 0 {
				if age, want := time.Since(submitAt[pi]), time.Duration(h.MaxSubmitMs+30)*time.Millisecond; age < want {
					time.Sleep(want - age)
				}
			}
			var serr error
			guard("Start", func() { serr = ws.Start(ctx, ids[pi]) })
			l.api(EvStartRet, pi, serr)
			if serr == nil {
				// wrongly accepted: let the second execution show in the log (bounded)
				for i := 0; i < 400; i++ {
					time.Sleep(500 * time.Microsecond)
					if since, busy := l.quiet(); !busy && since > 5*time.Millisecond {
						break
					}
				}
			} else {
				time.Sleep(time.Millisecond)
			}
			after, err := inner.Read(ctx, ids[pi])
			e := epilogue{plan: pi, err: serr}
			if err != nil {
				e.diff = "plan unreadable after the Start: " + err.Error()
			} else {
				e.diff = samePlanState(before, after)
			}
			epis = append(epis, e)
		}
	}
	time.Sleep(3 * time.Millisecond)
	evs := l.snapshotEvents()
	if failed {
		return
	}
	if stalled {
		res.Label("stalled")
		// liveness of an EXECUTING plan is C04's clause, not C12's; but a Start that returned nil for a plan of which
		// nothing was ever invoked although the harness waited for the whole stall window is C12's: "concurrent Start
		// calls for the same plan result in exactly one execution" — not in none
		ixs := BuildIndex(&RunResult{Sc: sc, Events: evs})
		for pi := range h.Plans {
			accepted, invoked := 0, false
			mu.Lock()
			for _, s := range starts {
				if s.plan == pi && s.known && s.err == nil {
					accepted++
				}
			}
			mu.Unlock()
			for _, inv := range ixs.All {
				if inv.Ref.Plan == pi {
					invoked = true
				}
			}
			if accepted > 0 && !invoked && !(h.Stale && h.MaxSubmitMs > 0) {
				res.Fail("C12/started-but-not-executed", "plan p%d: %d Start call(s) returned nil but nothing was ever invoked (no progress for the stall window, nothing pending)\n%s", pi, accepted, FormatEvents(evs, 40))
				return
			}
		}
		res.Skip = true
		return
	}

	quiescentEnd = l.openTotal() == 0

	// ---- oracle
	ix := BuildIndex(&RunResult{Sc: sc, Events: evs})
	// "A submitted plan is executed at most once": all scripts succeed at the first invocation with Retries 0, so a
	// second execution shows as a second invocation of some non-continuous action.
	for tag, invs := range ix.ByTag {
		if len(invs) > 1 && !invs[0].Ref.IsCont() {
			res.Fail("C12/executed-twice", "%s was invoked %d times: the plan executed more than once\n%s", tag, len(invs), FormatEvents(evs, 60))
			return
		}
	}
	for _, e := range epis {
		if e.err == nil {
			res.Fail("C12/finished-plan-started-again", "plan p%d had finished; another Start returned nil\n%s", e.plan, FormatEvents(evs, 40))
			return
		}
		if e.diff != "" {
			res.Fail("C12/rejected-start-modified-plan", "plan p%d had finished; a further Start was rejected (%v) but the stored plan changed: %s", e.plan, e.err, e.diff)
			return
		}
		res.Label("finished-plan-restart-rejected-without-side-effects")
	}
	for pi := range h.Plans {
		var mine []*startCall
		for _, s := range starts {
			if s.plan == pi && s.known {
				mine = append(mine, s)
			}
		}
		okCount := 0
		for _, s := range mine {
			if s.err == nil {
				okCount++
			}
		}
		stale := h.Stale && h.MaxSubmitMs > 0
		invoked := false
		for _, inv := range ix.All {
			if inv.Ref.Plan == pi {
				invoked = true
			}
		}
		if stale {
			// "a plan whose submission is older than the configured maximum cannot be started"
			if okCount > 0 || invoked {
				res.Fail("C12/stale-plan-started", "plan p%d was submitted more than MaxSubmit (%dms) before Start but %d Starts succeeded (invoked=%v)", pi, h.MaxSubmitMs, okCount, invoked)
				return
			}
			continue
		}
		// "starting a plan that is already running or has finished is rejected ..., concurrent Start calls for the same
		// plan result in exactly one execution"
		if okCount > 1 {
			res.Fail("C12/start-accepted-twice", "plan p%d: %d Start calls returned nil\n%s", pi, okCount, FormatEvents(evs, 40))
			return
		}
		var plain []*startCall // Starts whose context stayed alive: one of them must be accepted
		for _, s := range mine {
			if !s.ctxCancelled {
				plain = append(plain, s)
			}
		}
		if len(plain) > 0 && okCount == 0 && h.MaxSubmitMs == 0 {
			res.Fail("C12/no-start-accepted", "plan p%d: %d Start calls (with a live context) on a fresh, valid plan and none was accepted (first error: %v)", pi, len(plain), plain[0].err)
			return
		}
		if okCount == 1 && !invoked {
			res.Fail("C12/started-but-not-executed", "plan p%d: Start returned nil but nothing was ever invoked", pi)
			return
		}
		if okCount == 0 && invoked {
			res.Fail("C12/executed-without-start", "plan p%d: no Start succeeded but its plugins were invoked", pi)
			return
		}
	}
}

// Summary for evidence samples.
func (h *APIHistory) Summary() any {
	var ops []string
	for _, o := range h.Ops {
		s := fmt.Sprintf("%s(p%d", o.Kind, o.Plan)
		switch o.Kind {
		case OpStartRace:
			s += fmt.Sprintf(",n=%d,delay=%dus", o.N, o.DelayUs)
		case OpWait, OpStatus, OpSleep, OpSubmitInvalid:
			s += fmt.Sprintf(",%d", o.Arg)
		}
		ops = append(ops, s+")")
	}
	return map[string]any{"plans": len(h.Plans), "maxSubmitMs": h.MaxSubmitMs, "stale": h.Stale, "ops": ops}
}
