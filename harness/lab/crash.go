package lab

import (
	"fmt"
	"strings"
	"time"

	"github.com/element-of-surprise/coercion/plugins/registry"
	"github.com/element-of-surprise/coercion/workflow"
	"github.com/element-of-surprise/coercion/workflow/context"
	"github.com/element-of-surprise/coercion/workflow/storage"
	"github.com/element-of-surprise/coercion/workflow/storage/sqlite"
	"github.com/google/uuid"

	"verifharness/vprop"
)

// Crash lab: a crash is "the durable store contains exactly the first k writes". Writes are serialised by the vault,
// so the order of the write-end events is the commit order and every prefix is a reachable durable state; conversely
// every storage write is a crash point (DESIGN §4.3).

// DurableWrites extracts the committed writes of a run in commit order.
func DurableWrites(rr *RunResult) []*WriteRec {
	var out []*WriteRec
	for _, e := range rr.Events {
		if e.Kind == EvWriteEnd && e.W != nil && e.W.Err == nil {
			out = append(out, e.W)
		}
	}
	return out
}

// NewRegistry returns a registry holding the scripted plugins; Run re-points them at its own lab.
func NewRegistry(sc *Scenario) *registry.Register {
	return (&Lab{}).newRegistry(sc != nil && sc.SwapTypes)
}

// RebuildVault replays writes (in order) onto a fresh in-memory sqlite vault using only the Vault API, and returns
// the pristine plans that were created, in creation order.
func RebuildVault(reg *registry.Register, writes []*WriteRec) (storage.Vault, []*workflow.Plan, error) {
	ctx := context.Background()
	v, err := sqlite.New(ctx, "", reg, sqlite.WithInMemory())
	if err != nil {
		return nil, nil, err
	}
	var created []*workflow.Plan
	for i, w := range writes {
		st := w.State
		var err error
		switch {
		case w.Create:
			err = v.Create(ctx, CopyPlan(w.Plan))
			created = append(created, CopyPlan(w.Plan))
		case w.Obj == workflow.OTPlan:
			o := &workflow.Plan{ID: w.ID}
			if f, ok := w.Full.(*workflow.Plan); ok {
				c := *f
				c.Meta = append([]byte(nil), f.Meta...)
				o = &c
			}
			o.State, o.Reason = &st, w.Reason
			err = v.UpdatePlan(ctx, o)
		case w.Obj == workflow.OTBlock:
			o := &workflow.Block{ID: w.ID}
			if f, ok := w.Full.(*workflow.Block); ok {
				c := *f
				o = &c
			}
			o.State = &st
			err = v.UpdateBlock(ctx, o)
		case w.Obj == workflow.OTCheck:
			o := &workflow.Checks{ID: w.ID}
			if f, ok := w.Full.(*workflow.Checks); ok {
				c := *f
				o = &c
			}
			o.State = &st
			err = v.UpdateChecks(ctx, o)
		case w.Obj == workflow.OTSequence:
			o := &workflow.Sequence{ID: w.ID}
			if f, ok := w.Full.(*workflow.Sequence); ok {
				c := *f
				o = &c
			}
			o.State = &st
			err = v.UpdateSequence(ctx, o)
		case w.Obj == workflow.OTAction:
			o := &workflow.Action{ID: w.ID}
			if f, ok := w.Full.(*workflow.Action); ok {
				o = copyAction(f)
			}
			o.State, o.Attempts = &st, CopyAttempts(w.Attempts)
			err = v.UpdateAction(ctx, o)
		}
		if err != nil {
			v.Close(ctx)
			return nil, nil, fmt.Errorf("replaying write %d (%s): %w", i, w.Tag, err)
		}
	}
	return v, created, nil
}

// DurObj is the durable state of one object at a crash point.
type DurObj struct {
	Status   workflow.Status
	Attempts []*workflow.Attempt
}

// Durable is the durable snapshot at a crash point, by object tag ("p0", "p0/b1", "p0/b1/s0", "p0/b1/s0/a1", ...).
type Durable map[string]*DurObj

// SnapshotAt computes the durable state after the given writes.
func SnapshotAt(writes []*WriteRec) Durable {
	d := Durable{}
	for _, w := range writes {
		if w.Create {
			// every object of the created plan is durably NotStarted; register the tags lazily (absent = NotStarted)
			continue
		}
		d[w.Tag] = &DurObj{Status: w.State.Status, Attempts: w.Attempts}
	}
	return d
}

func (d Durable) status(tag string) workflow.Status {
	if o, ok := d[tag]; ok {
		return o.Status
	}
	return workflow.NotStarted
}

// hasResult: the action had durably finished or had a durable completed attempt.
func (d Durable) hasResult(tag string) bool {
	o, ok := d[tag]
	if !ok {
		return false
	}
	if finished(o.Status) {
		return true
	}
	for _, a := range o.Attempts {
		if a != nil && !a.End.IsZero() {
			return true
		}
	}
	return false
}

func (d Durable) attempts(tag string) int {
	if o, ok := d[tag]; ok {
		return len(o.Attempts)
	}
	return 0
}

// anyPlanRunning: some plan is durably Running in the snapshot.
func (d Durable) anyPlanRunning(nPlans int) bool {
	for pi := 0; pi < nPlans; pi++ {
		if d.status(fmt.Sprintf("p%d", pi)) == workflow.Running {
			return true
		}
	}
	return false
}

func finished(s workflow.Status) bool { return s == workflow.Completed || s == workflow.Failed }

// successDurable: "a sequence action whose success was already durable".
func (d Durable) successDurable(tag string) bool {
	o, ok := d[tag]
	if !ok {
		return false
	}
	if o.Status == workflow.Completed {
		return true
	}
	n := len(o.Attempts)
	return n > 0 && o.Attempts[n-1] != nil && o.Attempts[n-1].Err == nil && !o.Attempts[n-1].End.IsZero()
}

// CheckC09 judges the recovery run rr (started on the durable snapshot d) against C09.
func CheckC09(sc *Scenario, d Durable, rr *RunResult, where string, res *vprop.Result) (nontrivial bool) {
	ix := BuildIndex(rr)
	// Within the restarted process itself: an action is never invoked while another invocation of the same action is
	// still executing, and a sequence action is never invoked again once its success has been stored by this process
	// ("never invokes the plugin again for a sequence action whose success was already durable") — a plan that start-up
	// hands to two state machines shows here.
	if !sc.HasOverrun() { // a timed-out invocation may legitimately still be executing when its retry begins
		open := map[string]int{}
		stored := map[string]int{}
		for i, e := range rr.Events {
			switch e.Kind {
			case EvEnter:
				if !e.Ref.IsCont() && open[e.Tag] > 0 {
					res.Fail("C09/action-invoked-while-executing", "%s: %s#%d was invoked (log %d) while an earlier invocation of the same action was still executing: the plan is being executed twice\n%s", where, e.Tag, e.N, i, FormatEvents(rr.Events[:i+1], 40))
					return
				}
				open[e.Tag]++
				if at, ok := stored[e.Tag]; ok && e.Ref.IsSeq() {
					res.Fail("C09/successful-action-reinvoked:within-the-restarted-process", "%s: the success of %s was stored at log %d of the restarted process, yet it was invoked again at log %d\n%s", where, e.Tag, at, i, FormatEvents(rr.Events[:i+1], 40))
					return
				}
			case EvExit:
				open[e.Tag]--
			case EvWriteEnd:
				if e.W != nil && e.W.Err == nil && e.W.Obj == workflow.OTAction && e.W.State.Status == workflow.Completed {
					if _, ok := stored[e.W.Tag]; !ok {
						stored[e.W.Tag] = i
					}
				}
			}
		}
	}
	for pi := range sc.Plans {
		ptag := fmt.Sprintf("p%d", pi)
		planDone := finished(d.status(ptag))
		if d.status(ptag) == workflow.Running {
			for bi := range sc.Plans[pi].Blocks {
				for si := range sc.Plans[pi].Blocks[bi].Seqs {
					for _, r := range sc.SeqRefs(pi, bi, si) {
						if d.successDurable(r.Tag()) {
							nontrivial = true
						}
					}
				}
			}
		}
		for _, inv := range ix.All {
			if inv.Ref.Plan != pi {
				continue
			}
			r := inv.Ref
			// "never re-runs a sequence, block or plan that was durably Completed or Failed"
			if planDone {
				res.Fail("C09/finished-plan-rerun", "%s: plan %s was durably %v at the crash but %s#%d was invoked after restart", where, ptag, d.status(ptag), inv.Tag, inv.N)
				return
			}
			if r.Block >= 0 {
				btag := fmt.Sprintf("%s/b%d", ptag, r.Block)
				if finished(d.status(btag)) {
					// Re-running a finished block = executing again something of it that had already been executed: any of
					// its sequence actions, or a check action that had durably finished. Its deferred checks may have been
					// cut short by the crash (the block's Failed status is durable before they run); an action that was
					// "in flight, durably Running without a durable result" or had never been invoked is not executed
					// *again* (and C10 demands that those deferred checks do run).
					// A check group that was itself in the middle of a run is re-run as a whole by the engine (that is how
					// checks are resumed everywhere); only a group that had durably finished counts as executed again.
					gtag := inv.Tag[:strings.LastIndex(inv.Tag, "/")]
					if r.IsSeq() || finished(d.status(gtag)) {
						res.Fail("C09/finished-block-rerun", "%s: block %s was durably %v at the crash but %s#%d (durably %v, %d attempts) was invoked after restart\n%s", where, btag, d.status(btag), inv.Tag, inv.N, d.status(inv.Tag), d.attempts(inv.Tag), FormatEvents(rr.Events, 40))
						return
					}
				}
			}
			// "Only actions that were in flight, durably Running without a durable result, may be invoked again": a check
			// action of a (non-continuous) group that had durably finished — e.g. a block's BypassChecks that durably
			// Failed before the block ran on — has a durable result, whatever the state of the scope around it.
			if !r.IsSeq() && !r.IsCont() {
				gtag := inv.Tag[:strings.LastIndex(inv.Tag, "/")]
				if finished(d.status(gtag)) {
					res.Fail("C09/finished-group-rerun:"+kindOfTag(gtag), "%s: check group %s was durably %v at the crash but %s#%d was invoked after restart\n%s", where, gtag, d.status(gtag), inv.Tag, inv.N, FormatEvents(rr.Events, 40))
					return
				}
			}
			if r.IsSeq() {
				stag := fmt.Sprintf("%s/b%d/s%d", ptag, r.Block, r.Seq)
				if finished(d.status(stag)) {
					res.Fail("C09/finished-sequence-rerun", "%s: sequence %s was durably %v at the crash but %s#%d was invoked after restart\n%s", where, stag, d.status(stag), inv.Tag, inv.N, FormatEvents(rr.Events, 40))
					return
				}
				// "the engine never invokes the plugin again for a sequence action whose success was already durable"
				if d.successDurable(inv.Tag) {
					res.Fail("C09/successful-action-reinvoked", "%s: the success of %s was durable at the crash (status %v, %d attempts) but it was invoked again after restart\n%s", where, inv.Tag, d.status(inv.Tag), len(d[inv.Tag].Attempts), FormatEvents(rr.Events, 40))
					return
				}
				// "Only actions that were in flight, durably Running without a durable result, may be invoked again": an
				// action durably Failed must not be invoked either.
				// ... and so must an action whose last durable attempt ended with a permanent error: its result is durable
				// (a permanent error is never retried), it was not "in flight without a durable result".
				if o := d[inv.Tag]; o != nil && len(o.Attempts) > 0 {
					if last := o.Attempts[len(o.Attempts)-1]; last != nil && !last.End.IsZero() && last.Err != nil && last.Err.Permanent {
						res.Fail("C09/permanently-failed-action-reinvoked", "%s: the last durable attempt of %s had ended with a permanent error at the crash (status %v, %d attempts) but it was invoked again after restart\n%s", where, inv.Tag, d.status(inv.Tag), len(o.Attempts), FormatEvents(rr.Events, 40))
						return
					}
				}
				if d.status(inv.Tag) == workflow.Failed {
					res.Fail("C09/failed-action-reinvoked", "%s: %s was durably Failed at the crash but was invoked again after restart", where, inv.Tag)
					return
				}
			}
		}
	}
	return nontrivial
}

// CheckC10 judges the outcome of a recovery run against C10. ref is the final plan of the uninterrupted run.
func CheckC10(sc *Scenario, d Durable, rr *RunResult, ref []*workflow.Plan, where string, res *vprop.Result) (nontrivial bool) {
	for pi, pr := range rr.Plans {
		ptag := fmt.Sprintf("p%d", pi)
		if d.status(ptag) != workflow.Running {
			continue // only plans durably Running are resumed (C11 judges the others)
		}
		nontrivial = true
		// "resumes every plan that was Running and drives it to a terminal state without hanging"
		if pr.Stalled || rr.Stalled {
			if rr.hardLimitOnly() {
				res.Skip = true
				return
			}
			res.Fail("C10/recovery-hangs", "%s: plan %s was durably Running at the crash; after restart no progress for the stall window and the plan is not terminal\n%s", where, ptag, FormatEvents(rr.Events, 50))
			return
		}
		fp := pr.Final
		if fp == nil {
			res.Fail("C10/recovery-wait-error", "%s: Wait on recovered plan %s returned %v", where, ptag, pr.WaitErr)
			return
		}
		// "That state obeys the same consistency rules as an uninterrupted run (nothing left Running, ...)"
		if !ConsistencyC04("C10", fp, res) {
			v := &res.Violations[len(res.Violations)-1]
			v.Msg = where + ": " + v.Msg + "\n" + FormatEvents(rr.Events, 40)
			return
		}
		// "(..., deferred checks of entered scopes have run)"
		ps := &sc.Plans[pi]
		planBypassed := ps.Bypass != nil && checksStatus(fp.BypassChecks) == workflow.Completed
		if ps.Deferred != nil && !planBypassed && !finished(checksStatus(fp.DeferredChecks)) {
			res.Fail("C10/plan-deferred-not-run", "%s: plan %s ended %v but its deferred checks are %v: %s\n%s", where, ptag, status(fp.State), checksStatus(fp.DeferredChecks), Describe(fp), FormatEvents(rr.Events, 40))
			return
		}
		for bi, fb := range fp.Blocks {
			bs := &ps.Blocks[bi]
			if bs.Deferred == nil || status(fb.State) == workflow.NotStarted {
				continue
			}
			if bs.Bypass != nil && checksStatus(fb.BypassChecks) == workflow.Completed {
				continue
			}
			if !finished(checksStatus(fb.DeferredChecks)) {
				res.Fail("C10/block-deferred-not-run", "%s: block %s/b%d was entered (ended %v) but its deferred checks are %v: %s\n%s", where, ptag, bi, status(fb.State), checksStatus(fb.DeferredChecks), Describe(fp), FormatEvents(rr.Events, 40))
				return
			}
		}
		// "when plugin outcomes are a function of the action alone the plan outcome equals the uninterrupted one"
		if pi < len(ref) && ref[pi] != nil && status(ref[pi].State) != status(fp.State) {
			res.Fail("C10/outcome-differs", "%s: plan %s ended %v after recovery, the uninterrupted run ended %v\nrecovered:     %s\nuninterrupted: %s\n%s", where, ptag, status(fp.State), status(ref[pi].State), Describe(fp), Describe(ref[pi]), FormatEvents(rr.Events, 40))
			return
		}
	}
	return nontrivial
}

// RecoverAtPrefix rebuilds the store from the first permille of the committed writes of rr0 and lets a new Workstream
// recover on it; ok is false when the prefix cannot be used (not every plan created yet, rebuild failed).
func RecoverAtPrefix(sc *Scenario, rr0 *RunResult, permille int) (rr *RunResult, ok bool) {
	writes := DurableWrites(rr0)
	if len(writes) == 0 {
		return nil, false
	}
	k := 1 + permille*(len(writes)-1)/1000
	if k < 1 || k > len(writes) {
		return nil, false
	}
	reg := NewRegistry(sc)
	v, created, err := RebuildVault(reg, writes[:k])
	if err != nil {
		return nil, false
	}
	if len(created) != len(sc.Plans) {
		v.Close(context.Background())
		return nil, false
	}
	ids := make([]uuid.UUID, len(created))
	for i, p := range created {
		ids[i] = p.ID
	}
	rr = Run(sc, RunOpts{Vault: v, Reg: reg, Recover: true, Pristine: created, RecoverIDs: ids})
	return rr, rr.NewErr == nil
}

// CrashCase is the unit of generation of C09/C10.
type CrashCase struct {
	Sc Scenario
	// Points are crash points in permille of the write log (mapped to a prefix length); All enumerates every prefix.
	Points []int
	All    bool
	// Second are second-crash points in permille of the recovery run's write log, tried at every 3rd first point.
	Second []int
	// Third are third-crash points in permille of the second recovery's write log, tried at the first usable second
	// point of each first point that has second points (a chain of three crashes).
	Third []int `json:",omitempty"`
	// AnyOutcome: plugin outcomes are NOT a function of the action alone (scripts depend on the invocation / run
	// number), so the "outcome equals the uninterrupted one" clause does not apply; every other clause does.
	AnyOutcome bool
	// Kill are real-kill cross-validation points (permille of the write log): a child process on a file-backed store
	// is SIGKILLed after that write.
	Kill []int
	// Upgrade (C09 only): the restarted process runs a newer release of the plugins whose response type no longer
	// decodes the responses the crashed process stored. Whatever the engine makes of such a plan (refusing to start,
	// leaving it alone, resuming it), a durable success must not be executed again. Only the C09 rules are applied.
	Upgrade bool `json:",omitempty"`
	// SearchFault > 0 (C09 only): at the first usable crash point one more restart is made in which the stream of
	// recovery's Search for Running plans breaks after SearchFault-1 results (a storage hiccup during start-up). Whatever
	// the engine makes of it (give up, retry), nothing may be executed twice; only the C09 rules are applied, liveness
	// is not judged (short stall window).
	SearchFault int `json:",omitempty"`
}

// RunCrashCase executes the uninterrupted run, then crashes and recovers at the chosen points.
// which: "C09" or "C10".
func RunCrashCase(c *CrashCase, which string, res *vprop.Result) {
	sc := &c.Sc
	rr0 := Run(sc, RunOpts{})
	if rr0.NewErr != nil || rr0.Stalled {
		res.Skip = true
		res.Label("uninterrupted-run-unusable")
		return
	}
	var ref []*workflow.Plan
	for _, pr := range rr0.Plans {
		if pr.Final == nil {
			res.Skip = true
			return
		}
		ref = append(ref, pr.Final)
	}
	writes := DurableWrites(rr0)
	n := len(writes)
	var ks []int
	if c.All {
		for k := 1; k <= n; k++ {
			ks = append(ks, k)
		}
		vprop.Count("scenarios_with_every_prefix", 1)
	} else {
		seen := map[int]bool{}
		for _, p := range c.Points {
			k := 1 + p*(n-1)/1000
			if k >= 1 && k <= n && !seen[k] {
				seen[k] = true
				ks = append(ks, k)
			}
		}
	}
	judge := func(d Durable, rr *RunResult, where string) bool {
		nt := false
		if which == "C09" {
			nt = CheckC09(sc, d, rr, where, res)
		} else if c.AnyOutcome {
			nt = CheckC10(sc, d, rr, nil, where, res)
		} else {
			nt = CheckC10(sc, d, rr, ref, where, res)
		}
		if nt {
			res.NonTrivial = true
			vprop.Count("nontrivial_crash_points", 1)
		}
		// evidence that the restarted process really could read and resume its plans (a floor in the conf turns a run
		// in which no recovered plan ever reached a terminal state into INCONCLUSIVE instead of vacuously green)
		for pi, pr := range rr.Plans {
			if d.status(fmt.Sprintf("p%d", pi)) == workflow.Running && pr.Final != nil && finished(status(pr.Final.State)) {
				vprop.Count("recovered_running_plans_terminal", 1)
			}
		}
		return len(res.Violations) == 0 && !res.Skip
	}
	recoverOn := func(ws []*WriteRec) (*RunResult, []*workflow.Plan, bool) {
		reg := NewRegistry(sc)
		if c.Upgrade && which == "C09" {
			reg = NewUpgradedRegistry(sc)
		}
		v, created, err := RebuildVault(reg, ws)
		if err != nil {
			res.Label("rebuild-failed")
			return nil, nil, false
		}
		if len(created) != len(sc.Plans) {
			v.Close(context.Background())
			return nil, nil, false // a plan was not created yet: nothing to say about it
		}
		ids := make([]uuid.UUID, len(created))
		for i, p := range created {
			ids[i] = p.ID
		}
		rr := Run(sc, RunOpts{Vault: v, Reg: reg, Recover: true, Pristine: created, RecoverIDs: ids, HardLimit: 0})
		if !rr.Quiescent {
			// leave the vault open: something may still be running (the verdict will say so)
		}
		return rr, created, rr.NewErr == nil
	}
	for _, p := range c.Kill {
		k := 1 + p*(n-1)/1000
		kref := ref
		if c.AnyOutcome {
			kref = nil
		}
		RealKill(sc, k, kref, which, res)
		if len(res.Violations) > 0 {
			return
		}
	}
	searchFaultDone := false
	for i, k := range ks {
		prefix := writes[:k]
		d := SnapshotAt(prefix)
		rr1, _, ok := recoverOn(prefix)
		if !ok {
			continue
		}
		vprop.Count("crash_points", 1)
		where := fmt.Sprintf("crash after write %d of %d (%s %v)", k, n, prefix[k-1].Tag, prefix[k-1].State.Status)
		if !judge(d, rr1, where) {
			return
		}
		if c.SearchFault > 0 && which == "C09" && !searchFaultDone && d.anyPlanRunning(len(sc.Plans)) {
			searchFaultDone = true
			reg := NewRegistry(sc)
			if v, created, err := RebuildVault(reg, prefix); err == nil && len(created) == len(sc.Plans) {
				ids := make([]uuid.UUID, len(created))
				for i, p := range created {
					ids[i] = p.ID
				}
				rrf := Run(sc, RunOpts{Vault: v, Reg: reg, Recover: true, Pristine: created, RecoverIDs: ids,
					SearchFault: c.SearchFault, StallWindow: 400 * time.Millisecond, HardLimit: 30 * time.Second})
				if rrf.NewErr == nil {
					vprop.Count("restarts_with_broken_search_stream", 1)
					CheckC09(sc, d, rrf, where+", restart with a search stream that breaks after "+fmt.Sprint(c.SearchFault-1)+" result(s)", res)
					if len(res.Violations) > 0 {
						return
					}
					if rrf.Stalled && rrf.Lab.openTotal() == 0 {
						_ = v.Close(context.Background()) // nothing was resumed and nothing executes: the run left the vault open
					}
				}
			}
		}
		if i%3 != 0 || len(c.Second) == 0 {
			continue
		}
		w1 := DurableWrites(rr1)
		seen := map[int]bool{}
		for _, p := range c.Second {
			if len(w1) == 0 {
				break
			}
			j := 1 + p*(len(w1)-1)/1000
			if j < 1 || j > len(w1) || seen[j] {
				continue
			}
			seen[j] = true
			both := append(append([]*WriteRec{}, prefix...), w1[:j]...)
			d2 := SnapshotAt(both)
			rr2, _, ok := recoverOn(both)
			if !ok {
				continue
			}
			vprop.Count("second_crash_points", 1)
			where2 := fmt.Sprintf("%s, then second crash after write %d of %d of the recovery (%s %v)", where, j, len(w1), w1[j-1].Tag, w1[j-1].State.Status)
			if !judge(d2, rr2, where2) {
				if getenvInt("VERIF_EVENTS") > 0 && len(res.Violations) > 0 {
					res.Violations[len(res.Violations)-1].Msg += "\n--- log of the first recovery (crashed after its write " + fmt.Sprint(j) + "):\n" + FormatEvents(rr1.Events, 40)
				}
				return
			}
			if len(seen) != 1 || len(c.Third) == 0 {
				continue
			}
			w2 := DurableWrites(rr2)
			seen3 := map[int]bool{}
			for _, p3 := range c.Third {
				if len(w2) == 0 {
					break
				}
				m := 1 + p3*(len(w2)-1)/1000
				if m < 1 || m > len(w2) || seen3[m] {
					continue
				}
				seen3[m] = true
				all3 := append(append([]*WriteRec{}, both...), w2[:m]...)
				d3 := SnapshotAt(all3)
				rr3, _, ok := recoverOn(all3)
				if !ok {
					continue
				}
				vprop.Count("third_crash_points", 1)
				where3 := fmt.Sprintf("%s, then third crash after write %d of %d of the second recovery (%s %v)", where2, m, len(w2), w2[m-1].Tag, w2[m-1].State.Status)
				if !judge(d3, rr3, where3) {
					return
				}
			}
		}
	}
}
