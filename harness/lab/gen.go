package lab

import (
	"os"
	"strconv"

	"pgregory.net/rapid"
)

func getenvInt(name string) int {
	if s := os.Getenv(name); s != "" {
		if n, err := strconv.Atoi(s); err == nil {
			return n
		}
	}
	return 0
}

// Profile re-weights the one scenario grammar for a property (DESIGN §4.2).
type Profile struct {
	Name string
	// MaxPlans, MaxBlocks, MaxSeqs, MaxActs, MaxCheckActs bound sizes.
	MaxPlans, MaxBlocks, MaxSeqs, MaxActs, MaxCheckActs int
	// PGroup is the probability (percent) that a check group is present (per slot).
	PGroup int
	// PBypass overrides PGroup for bypass groups when > 0.
	PBypass int
	// PFailSeqAct: percent of sequence actions whose script ends in failure.
	PFailSeqAct int
	// PFailCheckAct: percent of (non-cont) check actions that fail.
	PFailCheckAct int
	// PBypassOK: percent of bypass actions that succeed (bypass groups that succeed skip the scope).
	PBypassOK int
	// PContFail: percent of continuous-check actions that fail at some run; MaxContFailRun bounds the run number.
	PContFail      int
	MaxContFailRun int
	// PlanContMayFail allows plan-level continuous checks to fail.
	PlanContMayFail bool
	// PGate: percent of first-invocation steps of sequence actions that are gated.
	PGate int
	// GateFirstOnly gates only the first action of a sequence.
	GateFirstOnly bool
	// MaxRetries bounds Retries.
	MaxRetries int
	// PRetry: percent of actions that get a retry budget > 0 with transient failures in front.
	PRetry int
	// Outcomes enables the rich outcome set (wrong type, ok-nil, wrapped chains) for failing steps.
	RichOutcomes bool
	// Overrun enables overrun outcomes (needs the 5s timeout).
	POverrun int
	// ContDelays are the allowed delay classes for continuous checks.
	ContDelays []int
	// PPoll percent of scenarios with a poller.
	PPoll int
	// PWriteLat percent of scenarios with write latency.
	PWriteLat int
	// PDelay percent of blocks with entrance/exit delays.
	PDelay int
	// BigBlocks biases toward blocks with many sequences (> concurrency).
	BigBlocks bool
	// DeferredRetries0 forces Retries 0 on deferred-check actions.
	DeferredRetries0 bool
	// PLongHold: percent of scenarios in which one sequence action of a scope with continuous checks is held for
	// LongHold (250 ms).
	PLongHold int
}

var ProfileDefault = Profile{
	Name: "default", MaxPlans: 3, MaxBlocks: 3, MaxSeqs: 5, MaxActs: 3, MaxCheckActs: 2,
	PGroup: 35, PBypass: 15, PFailSeqAct: 12, PFailCheckAct: 8, PBypassOK: 40, PContFail: 15, MaxContFailRun: 4,
	PlanContMayFail: true, PGate: 30, MaxRetries: 2, PRetry: 25, RichOutcomes: true,
	ContDelays: []int{0, 1, 2, 4}, PPoll: 30, PWriteLat: 20, PDelay: 15,
}

// pct is true with probability p percent. rapid's integer generators are deliberately biased toward small values, so
// the probability is built from unbiased coin flips (rapid.Bool); all-false bits (what shrinking converges to) mean
// "absent", so cases shrink toward fewer features.
func pct(t *rapid.T, p int, label string) bool {
	if p <= 0 {
		return false
	}
	if p >= 100 {
		return true
	}
	v := 0
	for i := 0; i < 7; i++ {
		v <<= 1
		if rapid.Bool().Draw(t, label) {
			v |= 1
		}
	}
	return 127-v < (p*128+50)/100
}

// uniform draws an index in [0,n) without rapid's small-value bias.
func uniform(t *rapid.T, n int, label string) int {
	if n <= 1 {
		return 0
	}
	bits := 0
	for 1<<bits < n {
		bits++
	}
	bits += 4 // modulo bias < 1/16
	v := 0
	for i := 0; i < bits; i++ {
		v <<= 1
		if rapid.Bool().Draw(t, label) {
			v |= 1
		}
	}
	return v % n
}

// sized draws a size in [1,max] with linearly decreasing weights (many small cases, some large ones).
func sized(t *rapid.T, max int, label string) int {
	if max <= 1 {
		return 1
	}
	total := max * (max + 1) / 2
	v := uniform(t, total, label)
	for k := 1; k <= max; k++ {
		w := max - k + 1
		if v < w {
			return k
		}
		v -= w
	}
	return 1
}

// pick draws uniformly from xs.
func pick[T any](t *rapid.T, xs []T, label string) T { return xs[uniform(t, len(xs), label)] }

// rng draws uniformly from [lo,hi].
func rng(t *rapid.T, lo, hi int, label string) int { return lo + uniform(t, hi-lo+1, label) }

func (pf *Profile) genStepFail(t *rapid.T) Step {
	st := Step{Out: Transient}
	if pf.RichOutcomes {
		st.Out = pick(t, []Outcome{Transient, Transient, Permanent, Permanent, WrongType, WrongTypeErr, RespAndErr, RespAndPermErr}, "failOut")
		st.Wrap = rng(t, 0, 3, "wrap")
	} else {
		st.Out = pick(t, []Outcome{Transient, Permanent, RespAndErr, RespAndPermErr}, "failOut")
	}
	return st
}

func (pf *Profile) genOK(t *rapid.T) Step {
	st := Step{Out: OK}
	if pf.RichOutcomes && pct(t, 15, "okNil") {
		st.Out = OKNil
	}
	return st
}

// genAction draws an action whose engine-level result is `fail` or success.
func (pf *Profile) genAction(t *rapid.T, fail bool, gateable bool, isCheck bool) ActionSpec {
	a := ActionSpec{Ptr: pct(t, 30, "ptr")}
	var script []Step
	if pct(t, pf.PRetry, "retry") && pf.MaxRetries > 0 {
		a.Retries = rng(t, 1, pf.MaxRetries, "retries")
		// transient failures in front
		nTrans := rng(t, 0, a.Retries, "nTrans")
		for i := 0; i < nTrans; i++ {
			st := Step{Out: pick(t, []Outcome{Transient, Transient, RespAndErr}, "transOut")}
			if pf.RichOutcomes {
				st.Wrap = rng(t, 0, 2, "wrapT")
			}
			if pf.POverrun > 0 && pct(t, pf.POverrun, "overrunT") {
				st.Out = Overrun
				st.Wrap = uniform(t, 4, "lateness")
				if pct(t, 50, "stubbornT") {
					st.Wrap += 4
				}
			}
			script = append(script, st)
		}
		if fail {
			if nTrans == a.Retries && pct(t, 50, "exhaust") {
				// exhausts the budget with a last transient failure
				script = append(script, Step{Out: Transient})
			} else {
				st := pf.genStepFail(t)
				if st.Out == Transient {
					st.Out = Permanent
				}
				script = append(script, st)
			}
		} else {
			script = append(script, pf.genOK(t))
		}
	} else {
		if pct(t, 10, "negRetries") {
			a.Retries = -1
		}
		if fail {
			st := pf.genStepFail(t)
			if pf.POverrun > 0 && pct(t, pf.POverrun, "overrunF") {
				st = Step{Out: Overrun, Wrap: uniform(t, 4, "lateness")}
				if pct(t, 50, "stubbornF") {
					st.Wrap += 4
				}
			}
			script = append(script, st)
		} else {
			script = append(script, pf.genOK(t))
		}
	}
	for i := range script {
		script[i].Lat = pick(t, []int{0, 0, 0, 1, 2, 3, 4}, "lat")
		// the attempt that follows an overrun is slow (10 ms) half of the time: the late answer of the timed-out
		// invocation (0.2-8 ms after its deadline) then arrives while the retry's own plugin call is still executing
		if i > 0 && script[i-1].Out == Overrun && pct(t, 50, "slowAfterOverrun") {
			script[i].Lat = 5
		}
	}
	if gateable && pct(t, pf.PGate, "gate") {
		script[0].Gate = rng(t, 1, 6, "gatePrio")
	}
	a.Script = script
	return a
}

func (pf *Profile) genChecks(t *rapid.T, gi int, planLevel bool) *ChecksSpec {
	p := pf.PGroup
	if gi == 0 && pf.PBypass > 0 {
		p = pf.PBypass
	}
	if !pct(t, p, "group"+GroupNames[gi]) {
		return nil
	}
	cs := &ChecksSpec{}
	n := sized(t, pf.MaxCheckActs, "nCheckActs")
	for i := 0; i < n; i++ {
		switch gi {
		case 0: // bypass: success means "skip the scope"
			a := pf.genAction(t, !pct(t, pf.PBypassOK, "bypassOK"), false, true)
			cs.Actions = append(cs.Actions, a)
		case 2: // continuous: Retries 0, script indexed by run number
			a := ActionSpec{Ptr: pct(t, 30, "ptr")}
			mayFail := !planLevel || pf.PlanContMayFail
			if mayFail && pct(t, pf.PContFail, "contFail") {
				k := rng(t, 1, pf.MaxContFailRun, "contFailRun")
				for r := 1; r < k; r++ {
					a.Script = append(a.Script, Step{Out: OK})
				}
				a.Script = append(a.Script, Step{Out: pick(t, []Outcome{Transient, Permanent}, "contOut")})
			} else {
				a.Script = []Step{{Out: OK}}
			}
			for i := range a.Script {
				a.Script[i].Lat = pick(t, []int{0, 0, 1, 2, 3}, "clat")
			}
			cs.Actions = append(cs.Actions, a)
		default:
			a := pf.genAction(t, pct(t, pf.PFailCheckAct, "checkFail"), false, true)
			if gi == 4 && pf.DeferredRetries0 {
				a.Retries = 0
				if len(a.Script) > 1 {
					a.Script = a.Script[len(a.Script)-1:]
				}
			}
			cs.Actions = append(cs.Actions, a)
		}
	}
	if gi == 2 {
		cs.Delay = pick(t, pf.ContDelays, "contDelay")
	}
	return cs
}

func (pf *Profile) genBlock(t *rapid.T) BlockSpec {
	b := BlockSpec{}
	b.Bypass = pf.genChecks(t, 0, false)
	b.Pre = pf.genChecks(t, 1, false)
	b.Cont = pf.genChecks(t, 2, false)
	b.Post = pf.genChecks(t, 3, false)
	b.Deferred = pf.genChecks(t, 4, false)
	ns := sized(t, pf.MaxSeqs, "nSeqs")
	if pf.BigBlocks && pct(t, 60, "big") {
		ns = rng(t, min(3, pf.MaxSeqs), pf.MaxSeqs, "nSeqsBig")
	}
	b.Concurrency = pick(t, []int{0, 1, 1, 2, 2, 2, 3, 3, ns + 1, -1, -5, 64}, "conc")           // < 1 means unset (1)
	b.Tolerated = pick(t, []int{0, 0, 0, 0, 1, 1, 2, -1, -1, -2, -1000, -2147483648, ns}, "tol") // "a negative value allows all"
	if pct(t, pf.PDelay, "delays") {
		b.EntranceDelayUs = pick(t, []int{0, 1000, 300, -1000}, "entrance")
		b.ExitDelayUs = pick(t, []int{0, 1000, 300, -1000}, "exit")
	}
	for s := 0; s < ns; s++ {
		na := sized(t, pf.MaxActs, "nActs")
		seq := SeqSpec{}
		failAt := -1
		if pct(t, pf.PFailSeqAct*na, "seqFails") { // per-sequence failure probability grows with length
			failAt = rng(t, 0, na-1, "failAt")
		}
		for a := 0; a < na; a++ {
			gateable := !pf.GateFirstOnly || a == 0
			seq.Actions = append(seq.Actions, pf.genAction(t, a == failAt, gateable, false))
		}
		b.Seqs = append(b.Seqs, seq)
	}
	return b
}

func (pf *Profile) genPlan(t *rapid.T) PlanSpec {
	p := PlanSpec{}
	p.Bypass = pf.genChecks(t, 0, true)
	p.Pre = pf.genChecks(t, 1, true)
	p.Cont = pf.genChecks(t, 2, true)
	p.Post = pf.genChecks(t, 3, true)
	p.Deferred = pf.genChecks(t, 4, true)
	nb := sized(t, pf.MaxBlocks, "nBlocks")
	for b := 0; b < nb; b++ {
		p.Blocks = append(p.Blocks, pf.genBlock(t))
	}
	return p
}

// Gen draws a scenario.
func (pf Profile) Gen(t *rapid.T) Scenario {
	sc := Scenario{}
	np := 1
	if pf.MaxPlans > 1 && pct(t, 25, "multiPlan") {
		np = 1 + sized(t, pf.MaxPlans-1, "nPlans")
	}
	for i := 0; i < np; i++ {
		sc.Plans = append(sc.Plans, pf.genPlan(t))
	}
	if pct(t, pf.PPoll, "poll") {
		sc.PollUs = pick(t, []int{50, 200, 1000, 5000}, "pollUs")
	}
	if pct(t, pf.PWriteLat, "writeLat") {
		sc.WriteLatUs = pick(t, []int{20, 60, 150}, "writeLatUs")
	}
	if pf.POverrun > 0 {
		sc.Timeout5s = true
	}
	sc.SwapTypes = pct(t, 25, "swapTypes")
	if pct(t, 15, "recoverAfter") {
		sc.RecoverPermille = rng(t, 1, 1000, "recoverPermille")
	}
	if pct(t, 4, "unusualPlanName") {
		sc.NameKind = rng(t, 1, len(planNames)-1, "nameKind")
	}
	if pct(t, 20, "cancelStartCtx") {
		sc.CancelStartUs = pick(t, []int{-1, 100, 1000, 5000}, "cancelStartUs")
	}
	if pct(t, pf.PLongHold, "longHold") {
		// hold the first action of the first sequence of the first block that is under a continuous check
	search:
		for pi := range sc.Plans {
			p := &sc.Plans[pi]
			for bi := range p.Blocks {
				b := &p.Blocks[bi]
				if (p.Cont != nil && p.Cont.Delay != 3) || (b.Cont != nil && b.Cont.Delay != 3) {
					a := &b.Seqs[0].Actions[0]
					if len(a.Script) > 0 {
						a.Script[0].Gate = LongHoldGate
						break search
					}
				}
			}
		}
	}
	return sc
}

// GenAPIHistory draws a C12 case.
func GenAPIHistory(t *rapid.T) APIHistory {
	pf := ProfileDefault
	pf.PFailSeqAct, pf.PFailCheckAct, pf.PContFail, pf.PRetry, pf.PBypass, pf.PGroup = 0, 0, 0, 0, 0, 20
	pf.MaxBlocks, pf.MaxSeqs, pf.MaxActs, pf.PGate, pf.RichOutcomes, pf.PDelay = 2, 3, 2, 35, false, 0
	h := APIHistory{}
	np := sized(t, 2, "nPlans")
	for i := 0; i < np; i++ {
		p := pf.genPlan(t)
		h.Plans = append(h.Plans, p)
	}
	// all scripts must succeed at the first invocation with Retries 0
	sc := Scenario{Plans: h.Plans}
	sc.EachAction(func(r Ref, a *ActionSpec) {
		a.Retries = 0
		gate := 0
		if len(a.Script) > 0 {
			gate = a.Script[0].Gate
		}
		a.Script = []Step{{Out: OK, Lat: uniform(t, 4, "lat"), Gate: gate}}
	})
	if pct(t, 15, "maxSubmit") {
		h.MaxSubmitMs = pick(t, []int{1, 5}, "maxSubmitMs")
		h.Stale = true
	} else if pct(t, 5, "maxSubmitLate") {
		// started in time; the epilogue's extra Start comes after the maximum has passed
		h.MaxSubmitMs = 200
	}
	h.NoRecovery = pct(t, 30, "noRecovery")
	if pct(t, 40, "slowRead") {
		h.SlowReadNth, h.SlowReadUs = rng(t, 1, 10, "slowReadNth"), pick(t, []int{300, 1500, 5000}, "slowReadUs")
	}
	for i := 0; i < np; i++ {
		if pct(t, 85, "submitFirst") {
			op := APIOp{Kind: OpSubmit, Plan: i}
			if pct(t, 15, "cancelSubmit") {
				op.CancelUs = pick(t, []int{1, 20, 50, 100, 150, 200, 300, 400, 600, 900}, "cancelSubmitUs")
			}
			h.Ops = append(h.Ops, op)
		}
	}
	n := rng(t, 2, 12, "nOps")
	for i := 0; i < n; i++ {
		op := APIOp{Plan: rng(t, -1, np-1, "plan")}
		switch pick(t, []int{0, 1, 2, 2, 2, 3, 3, 3, 4, 4, 5, 6, 7}, "kind") {
		case 0:
			op.Kind = OpSubmit
			if pct(t, 15, "cancelSubmit2") {
				op.CancelUs = pick(t, []int{1, 20, 50, 100, 150, 200, 300, 400, 600, 900}, "cancelSubmitUs2")
			}
		case 1:
			op.Kind, op.Arg = OpSubmitInvalid, uniform(t, 9, "invalidKind")
		case 2:
			op.Kind = OpStart
			if pct(t, 30, "cancelStart") {
				op.CancelUs = pick(t, []int{1, 100, 700, 2500}, "cancelStartUs")
			}
		case 3:
			op.Kind, op.N, op.DelayUs = OpStartRace, rng(t, 2, 8, "raceN"), pick(t, []int{0, 0, 20, 100, 500, 2000}, "raceDelay")
			if pct(t, 20, "cancelRace") {
				op.CancelUs = pick(t, []int{1, 100, 700, 2500}, "cancelRaceUs")
			}
		case 4:
			op.Kind, op.Arg = OpWait, pick(t, []int{0, 0, 1, 5}, "waitMs")
		case 5:
			op.Kind, op.Arg = OpStatus, rng(t, 0, 3, "statusN")
		case 6:
			op.Kind = OpPlan
		case 7:
			op.Kind, op.Arg = OpSleep, pick(t, []int{50, 500, 3000}, "sleepUs")
		}
		h.Ops = append(h.Ops, op)
	}
	return h
}

// Pct and Rng export the unbiased draws (fair coins underneath) to the generators of the other packages: positions in a
// write log, ages and one-in-n choices must not inherit the small-value bias of rapid's integer generators (measured:
// rapid.IntRange(0,1000) lands in the first decile 60 % of the time).
func Pct(t *rapid.T, p int, label string) bool     { return pct(t, p, label) }
func Rng(t *rapid.T, lo, hi int, label string) int { return rng(t, lo, hi, label) }
