package lab

import (
	"fmt"

	"github.com/element-of-surprise/coercion/workflow"
)

// Inv is one plugin invocation reconstructed from the log.
type Inv struct {
	Tag         string
	Ref         Ref
	N           int
	Enter, Exit int // log positions; Exit == -1 while open
	Out         Outcome
	EnterCtx    bool
	ExitCtx     bool
	EnterAt     int64
	ExitAt      int64
}

// ExitOr returns the exit position, or `open` for an invocation that never returned.
func (i *Inv) ExitOr(open int) int {
	if i.Exit < 0 {
		return open
	}
	return i.Exit
}

// Index is the per-run view of the log used by the oracles.
type Index struct {
	RR    *RunResult
	N     int // number of events
	ByTag map[string][]*Inv
	All   []*Inv
}

func BuildIndex(rr *RunResult) *Index {
	ix := &Index{RR: rr, N: len(rr.Events), ByTag: map[string][]*Inv{}}
	for i, e := range rr.Events {
		switch e.Kind {
		case EvEnter:
			inv := &Inv{Tag: e.Tag, Ref: e.Ref, N: e.N, Enter: i, Exit: -1, EnterCtx: e.CtxDone, EnterAt: int64(e.At)}
			ix.ByTag[e.Tag] = append(ix.ByTag[e.Tag], inv)
			ix.All = append(ix.All, inv)
		case EvExit:
			for _, inv := range ix.ByTag[e.Tag] {
				if inv.N == e.N && inv.Exit < 0 {
					inv.Exit, inv.Out, inv.ExitCtx, inv.ExitAt = i, e.Out, e.CtxDone, int64(e.At)
					break
				}
			}
		}
	}
	return ix
}

// Invs returns the invocations of the action r in invocation order.
func (ix *Index) Invs(r Ref) []*Inv { return ix.ByTag[r.Tag()] }

// GroupRefs lists the action refs of a check group of a scope.
func (s *Scenario) GroupRefs(plan, block, gi int) []Ref {
	var cs *ChecksSpec
	if block < 0 {
		cs = s.Plans[plan].Group(gi)
	} else {
		cs = s.Plans[plan].Blocks[block].Group(gi)
	}
	if cs == nil {
		return nil
	}
	out := make([]Ref, len(cs.Actions))
	for i := range cs.Actions {
		out[i] = Ref{Plan: plan, Block: block, Group: GroupNames[gi], Seq: -1, Act: i}
	}
	return out
}

// SeqRefs lists the action refs of one sequence.
func (s *Scenario) SeqRefs(plan, block, seq int) []Ref {
	acts := s.Plans[plan].Blocks[block].Seqs[seq].Actions
	out := make([]Ref, len(acts))
	for i := range acts {
		out[i] = Ref{Plan: plan, Block: block, Seq: seq, Act: i}
	}
	return out
}

// BlockRefs lists every action ref of a block; withCont includes the continuous checks.
func (s *Scenario) BlockRefs(plan, block int, withCont bool) []Ref {
	var out []Ref
	for gi := range GroupNames {
		if gi == 2 && !withCont {
			continue
		}
		out = append(out, s.GroupRefs(plan, block, gi)...)
	}
	for si := range s.Plans[plan].Blocks[block].Seqs {
		out = append(out, s.SeqRefs(plan, block, si)...)
	}
	return out
}

// span returns the first enter and the last exit position over the invocations of refs (first = -1 when none).
func (ix *Index) span(refs []Ref) (first, last int) {
	first, last = -1, -1
	for _, r := range refs {
		for _, inv := range ix.Invs(r) {
			if first < 0 || inv.Enter < first {
				first = inv.Enter
			}
			if x := inv.ExitOr(ix.N); x > last {
				last = x
			}
		}
	}
	return
}

// lastInvBefore returns the invocations of r that entered before pos.
func (ix *Index) invsBefore(r Ref, pos int) []*Inv {
	var out []*Inv
	for _, inv := range ix.Invs(r) {
		if inv.Enter < pos {
			out = append(out, inv)
		}
	}
	return out
}

// ---- accessors into a workflow.Plan by scenario coordinates ----

func PlanGroup(p *workflow.Plan, gi int) *workflow.Checks {
	return [...]*workflow.Checks{p.BypassChecks, p.PreChecks, p.ContChecks, p.PostChecks, p.DeferredChecks}[gi]
}

func BlockGroup(b *workflow.Block, gi int) *workflow.Checks {
	return [...]*workflow.Checks{b.BypassChecks, b.PreChecks, b.ContChecks, b.PostChecks, b.DeferredChecks}[gi]
}

func groupIndex(name string) int {
	for i, n := range GroupNames {
		if n == name {
			return i
		}
	}
	return -1
}

// FindAction returns the action r points to inside p (nil when the shape does not match).
func FindAction(p *workflow.Plan, r Ref) *workflow.Action {
	if p == nil {
		return nil
	}
	var cs *workflow.Checks
	if r.Block < 0 {
		cs = PlanGroup(p, groupIndex(r.Group))
	} else {
		if r.Block >= len(p.Blocks) {
			return nil
		}
		b := p.Blocks[r.Block]
		if r.Group == "" {
			if r.Seq >= len(b.Sequences) || r.Act >= len(b.Sequences[r.Seq].Actions) {
				return nil
			}
			return b.Sequences[r.Seq].Actions[r.Act]
		}
		cs = BlockGroup(b, groupIndex(r.Group))
	}
	if cs == nil || r.Act >= len(cs.Actions) {
		return nil
	}
	return cs.Actions[r.Act]
}

func status(s *workflow.State) workflow.Status {
	if s == nil {
		return workflow.NotStarted
	}
	return s.Status
}

func checksStatus(c *workflow.Checks) workflow.Status {
	if c == nil {
		return workflow.NotStarted
	}
	return status(c.State)
}

// Describe renders a compact outcome summary of a plan for messages.
func Describe(p *workflow.Plan) string {
	if p == nil {
		return "<nil plan>"
	}
	s := fmt.Sprintf("plan=%v reason=%v", status(p.State), p.Reason)
	for gi, n := range GroupNames {
		if c := PlanGroup(p, gi); c != nil {
			s += fmt.Sprintf(" %s=%v", n, status(c.State))
		}
	}
	for bi, b := range p.Blocks {
		s += fmt.Sprintf(" | b%d=%v", bi, status(b.State))
		for gi, n := range GroupNames {
			if c := BlockGroup(b, gi); c != nil {
				s += fmt.Sprintf(" %s=%v", n, status(c.State))
			}
		}
		for si, q := range b.Sequences {
			s += fmt.Sprintf(" s%d=%v[", si, status(q.State))
			for _, a := range q.Actions {
				s += fmt.Sprintf("%v/%d ", status(a.State), len(a.Attempts))
			}
			s += "]"
		}
	}
	return s
}
