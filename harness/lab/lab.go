package lab

import (
	"encoding/json"
	"errors"
	"fmt"
	"io"
	"log/slog"
	"os"
	"sort"
	"sync"
	"time"

	"github.com/element-of-surprise/coercion/plugins"
	"github.com/element-of-surprise/coercion/workflow"
	"github.com/element-of-surprise/coercion/workflow/context"
	"github.com/element-of-surprise/coercion/workflow/storage"
	"github.com/google/uuid"
)

func init() {
	// the engine logs through slog; keep the shard logs readable
	slog.SetDefault(slog.New(slog.NewTextHandler(io.Discard, nil)))
}

type EvKind int

const (
	EvEnter EvKind = iota
	EvExit
	EvWriteBegin
	EvWriteEnd
	EvSubmitRet
	EvStartRet
	EvWaitRet
	EvRelease
	EvNote
)

func (k EvKind) String() string {
	return [...]string{"enter", "exit", "write-begin", "write-end", "submit-ret", "start-ret", "wait-ret", "release", "note"}[k]
}

// WriteRec is what one storage write carried (a harness-owned copy).
type WriteRec struct {
	Obj      workflow.ObjectType
	ID       uuid.UUID
	State    workflow.State
	Reason   workflow.FailureReason
	Attempts []*workflow.Attempt
	// Create is set for Vault.Create (Plan then holds the copy of the whole plan).
	Create bool
	Plan   *workflow.Plan
	// Full is a copy of the object's own row as it was handed to the vault (definition fields included, children
	// omitted): replaying a write must hand the vault what the engine handed it, not a stub holding only id and state —
	// whether an Update* call touches more than the state columns is the vault's business (DESIGN §8 item 14).
	Full any
	// Tag is the object tag ("p0", "p0/b1", "p0/pre", "p0/b1/s0", "p0/b1/s0/a1"); PlanIdx the plan it belongs to (-1 unknown).
	Tag     string
	PlanIdx int
	Cont    bool
	Err     error
}

// Event is one entry of the linearised log; the position in the log is the logical time.
type Event struct {
	Kind    EvKind
	Tag     string
	Ref     Ref
	N       int
	Out     Outcome
	CtxDone bool
	W       *WriteRec
	PlanIdx int
	Err     string
	Msg     string
	At      time.Duration
}

func (e Event) String() string {
	switch e.Kind {
	case EvEnter:
		return fmt.Sprintf("%8.3fms enter  %s#%d ctxdone=%v", ms(e.At), e.Tag, e.N, e.CtxDone)
	case EvExit:
		return fmt.Sprintf("%8.3fms exit   %s#%d %s ctxdone=%v", ms(e.At), e.Tag, e.N, e.Out, e.CtxDone)
	case EvWriteBegin, EvWriteEnd:
		w := e.W
		return fmt.Sprintf("%8.3fms %-11s %s %s attempts=%d reason=%v", ms(e.At), e.Kind, w.Tag, w.State.Status, len(w.Attempts), w.Reason)
	case EvNote:
		return fmt.Sprintf("%8.3fms note   %s", ms(e.At), e.Msg)
	default:
		return fmt.Sprintf("%8.3fms %-11s p%d %s%s", ms(e.At), e.Kind, e.PlanIdx, e.Tag, e.Err)
	}
}

func ms(d time.Duration) float64 { return float64(d) / float64(time.Millisecond) }

// LongHoldGate: a gate value >= LongHoldGate keeps the invocation parked until every continuous check above it (plan
// level and its block's, delay <= 2 ms) has been entered a second time — i.e. was re-run while its scope executed — or
// until LongHoldMax of harness-observed time (controller ticks, not wall clock) has passed without that, which the
// release event records (C07 "keeps being re-run"; no rate and no buffer size is assumed, see DESIGN §8).
const (
	LongHoldGate = 100
	LongHoldMax  = 3 * time.Second
	// LongHoldExpired marks the release event of a long hold that ended by LongHoldMax.
	LongHoldExpired = " long-hold-expired"
)

type parkedInv struct {
	tag   string
	n     int
	prio  int
	seq   int
	ch    chan struct{}
	since time.Time
	// sinceBeat is the controller tick count when the invocation parked
	sinceBeat int64
}

type objInfo struct {
	tag     string
	planIdx int
	cont    bool
}

// Lab is the per-case runtime shared by plugins, vault and runner.
type Lab struct {
	sc    *Scenario
	start time.Time

	mu           sync.Mutex
	events       []Event
	calls        map[string]int
	open         map[string]int // open invocations per tag
	openNonCont  int
	parked       []*parkedInv
	parkSeq      int
	lastProgress time.Time // last non-continuous-check event
	// beat counts the ticks of the controller goroutine (nominally one per 200 µs) and progressBeat is its value at the
	// last progress: quiet time is the smaller of wall-clock time and observed ticks, so a freeze of the whole process
	// or a machine too loaded to schedule the harness itself cannot look like "nothing happened for the stall window".
	beat, progressBeat int64
	openWrites         int // storage writes begun and not yet returned (cont-check writes included)
	objs               map[uuid.UUID]objInfo
	notes              []string

	// settings
	settle  time.Duration
	maxHold time.Duration
	// onWriteEnd, when set, is called (outside the lab mutex) after every durable write with its index among the
	// write-end events. The crash lab uses it for real kills.
	onWriteEnd func(n int)
	nWrites    int
	// failWrite > 0: the failWrite-th storage update (creates not counted) is not carried out and returns an error
	// (write-fault runs of C08, always in a child process: the engine's reaction is to exit).
	failWrite int
	nUpdates  int
	// evlog, when set, receives one JSON line per event, written synchronously (the process may die at any moment).
	evlog *os.File
	// slowReadNth > 0: the slowReadNth-th Read of the vault returns its (already fetched) result slowReadUs µs late — the
	// harness owns this piece of the schedule (API lab: a Start that holds a stale read while another Start runs).
	slowReadNth, slowReadUs int
	nReads                  int
	// searchFault > 0: the stream of the FIRST Search of this vault breaks (an error result, then the stream is closed)
	// after searchFault-1 results (crash lab: a storage hiccup during start-up recovery).
	searchFault int
	nSearches   int
}

// LogLine is the on-disk form of an event (write-fault child runs).
type LogLine struct {
	K       EvKind
	Tag     string
	N       int
	Out     Outcome
	Ctx     bool
	Plan    int
	WStatus workflow.Status
	WAtt    int
	WErr    bool
	WCreate bool
}

// add appends an event to the log (l.mu must be held).
func (l *Lab) add(e Event) {
	l.events = append(l.events, e)
	if l.evlog == nil {
		return
	}
	ll := LogLine{K: e.Kind, Tag: e.Tag, N: e.N, Out: e.Out, Ctx: e.CtxDone, Plan: e.PlanIdx}
	if e.W != nil {
		ll.Tag, ll.WStatus, ll.WAtt, ll.WErr, ll.WCreate = e.W.Tag, e.W.State.Status, len(e.W.Attempts), e.W.Err != nil, e.W.Create
	}
	if b, err := json.Marshal(ll); err == nil {
		l.evlog.Write(append(b, '\n'))
	}
}

func newLab(sc *Scenario) *Lab {
	now := time.Now()
	return &Lab{
		sc: sc, start: now, lastProgress: now,
		calls: map[string]int{}, open: map[string]int{}, objs: map[uuid.UUID]objInfo{},
		settle: 1500 * time.Microsecond, maxHold: 2 * time.Second,
	}
}

// progressed records non-continuous-check progress (l.mu must be held).
func (l *Lab) progressed() {
	l.lastProgress = time.Now()
	l.progressBeat = l.beat
}

const beatPeriod = 200 * time.Microsecond

func (l *Lab) note(format string, a ...any) {
	l.mu.Lock()
	defer l.mu.Unlock()
	msg := fmt.Sprintf(format, a...)
	l.notes = append(l.notes, msg)
	l.add(Event{Kind: EvNote, Msg: msg, At: time.Since(l.start), PlanIdx: -1})
}

func (l *Lab) enter(tag string, ref Ref, ctx context.Context) int {
	l.mu.Lock()
	defer l.mu.Unlock()
	l.calls[tag]++
	n := l.calls[tag]
	l.open[tag]++
	if !ref.IsCont() {
		l.openNonCont++
		l.progressed()
	}
	l.add(Event{Kind: EvEnter, Tag: tag, Ref: ref, N: n, CtxDone: ctx.Err() != nil, PlanIdx: ref.Plan, At: time.Since(l.start)})
	return n
}

func (l *Lab) exit(tag string, ref Ref, n int, out Outcome, ctx context.Context) {
	l.mu.Lock()
	defer l.mu.Unlock()
	l.open[tag]--
	if !ref.IsCont() {
		l.openNonCont--
		l.progressed()
	}
	l.add(Event{Kind: EvExit, Tag: tag, Ref: ref, N: n, Out: out, CtxDone: ctx.Err() != nil, PlanIdx: ref.Plan, At: time.Since(l.start)})
}

func (l *Lab) api(kind EvKind, planIdx int, err error) {
	l.mu.Lock()
	defer l.mu.Unlock()
	e := Event{Kind: kind, PlanIdx: planIdx, At: time.Since(l.start)}
	if err != nil {
		e.Err = " err=" + err.Error()
	}
	l.progressed()
	l.add(e)
}

// park blocks the invocation until the controller releases it (or maxHold expires).
func (l *Lab) park(tag string, n, prio int) {
	p := &parkedInv{tag: tag, n: n, prio: prio, ch: make(chan struct{}), since: time.Now()}
	l.mu.Lock()
	l.parkSeq++
	p.seq = l.parkSeq
	p.sinceBeat = l.beat
	l.parked = append(l.parked, p)
	l.mu.Unlock()
	hold := l.maxHold
	if prio >= LongHoldGate {
		hold = 10 * LongHoldMax // safety net only: long holds are ended by the controller
	}
	select {
	case <-p.ch:
	case <-time.After(hold):
		l.mu.Lock()
		l.removeParked(p)
		l.mu.Unlock()
	}
}

func (l *Lab) removeParked(p *parkedInv) {
	for i, q := range l.parked {
		if q == p {
			l.parked = append(l.parked[:i], l.parked[i+1:]...)
			return
		}
	}
}

// controller releases parked invocations, lowest (prio, arrival) first, each time the log has been quiet (no
// non-continuous-check event) for the settle window: everything that can make progress without the gate has done so.
func (l *Lab) controller(stop <-chan struct{}) {
	t := time.NewTicker(beatPeriod)
	defer t.Stop()
	for {
		select {
		case <-stop:
			l.mu.Lock()
			for _, p := range l.parked {
				close(p.ch)
			}
			l.parked = nil
			l.mu.Unlock()
			return
		case <-t.C:
		}
		l.mu.Lock()
		l.beat++
		if len(l.parked) > 0 && time.Since(l.lastProgress) >= l.settle {
			sort.SliceStable(l.parked, func(i, j int) bool {
				if l.parked[i].prio != l.parked[j].prio {
					return l.parked[i].prio < l.parked[j].prio
				}
				return l.parked[i].seq < l.parked[j].seq
			})
			// a long hold (prio >= LongHoldGate) is released once the continuous checks above it were re-run, or expires
			idx, expired := -1, false
			for i, q := range l.parked {
				if q.prio < LongHoldGate || l.contChecksRerun(q.tag) {
					idx = i
					break
				}
				if time.Duration(l.beat-q.sinceBeat)*beatPeriod >= LongHoldMax && time.Since(q.since) >= LongHoldMax {
					idx, expired = i, true
					break
				}
			}
			if idx < 0 {
				l.mu.Unlock()
				continue
			}
			p := l.parked[idx]
			l.parked = append(l.parked[:idx], l.parked[idx+1:]...)
			l.progressed()
			e := Event{Kind: EvRelease, Tag: p.tag, N: p.n, PlanIdx: -1, At: time.Since(l.start)}
			if expired {
				e.Err = LongHoldExpired
			}
			l.add(e)
			close(p.ch)
		}
		l.mu.Unlock()
	}
}

// contChecksRerun reports whether every continuous check (delay class other than 1 h) above the sequence action tag —
// the plan's and its block's — has been entered at least twice (l.mu must be held).
func (l *Lab) contChecksRerun(tag string) bool {
	ref, ok := ParseTag(tag)
	if !ok || !ref.IsSeq() {
		return true
	}
	ps := &l.sc.Plans[ref.Plan]
	for _, scope := range []int{-1, ref.Block} {
		cs := ps.Cont
		if scope >= 0 {
			cs = ps.Blocks[scope].Cont
		}
		refs := l.sc.GroupRefs(ref.Plan, scope, 2)
		if cs == nil || len(refs) == 0 || cs.Delay == 3 {
			continue
		}
		if l.calls[refs[0].Tag()] < 2 {
			return false
		}
	}
	return true
}

// quiet reports how long no non-continuous-check progress was seen, and whether anything the harness controls is
// still pending (an open non-cont invocation or a parked gate).
func (l *Lab) quiet() (since time.Duration, pending bool) {
	l.mu.Lock()
	defer l.mu.Unlock()
	since = time.Since(l.lastProgress)
	if observed := time.Duration(l.beat-l.progressBeat) * beatPeriod; observed < since {
		since = observed
	}
	return since, l.openNonCont > 0 || len(l.parked) > 0 || l.openWrites > 0
}

func (l *Lab) openTotal() int {
	l.mu.Lock()
	defer l.mu.Unlock()
	n := 0
	for _, v := range l.open {
		n += v
	}
	return n
}

func (l *Lab) snapshotEvents() []Event {
	l.mu.Lock()
	defer l.mu.Unlock()
	return append([]Event(nil), l.events...)
}

// ---------------------------------------------------------------------------------------------------------------------
// recording vault

// RecVault embeds the real vault (and thereby inherits the unexported marker method) and logs every write.
type RecVault struct {
	storage.Vault
	lab *Lab
}

func copyErr(e *plugins.Error) *plugins.Error {
	if e == nil {
		return nil
	}
	return &plugins.Error{Code: e.Code, Message: e.Message, Permanent: e.Permanent, Wrapped: copyErr(e.Wrapped)}
}

func copyResp(v any) any {
	switch r := v.(type) {
	case nil:
		return nil
	case RespV:
		return r
	case *RespP:
		if r == nil {
			return (*RespP)(nil)
		}
		c := *r
		return &c
	case ReqV:
		return r
	case *ReqP:
		if r == nil {
			return (*ReqP)(nil)
		}
		c := *r
		return &c
	}
	return v
}

// CopyAttempts deep-copies attempts (the harness's own copier; clone is itself under test).
func CopyAttempts(as []*workflow.Attempt) []*workflow.Attempt {
	if as == nil {
		return nil
	}
	out := make([]*workflow.Attempt, len(as))
	for i, a := range as {
		if a == nil {
			continue
		}
		out[i] = &workflow.Attempt{Resp: copyResp(a.Resp), Err: copyErr(a.Err), Start: a.Start, End: a.End}
	}
	return out
}

func copyState(s *workflow.State) *workflow.State {
	if s == nil {
		return nil
	}
	c := *s
	return &c
}

func copyChecks(c *workflow.Checks) *workflow.Checks {
	if c == nil {
		return nil
	}
	n := &workflow.Checks{ID: c.ID, Key: c.Key, Delay: c.Delay, State: copyState(c.State)}
	n.SetPlanID(c.GetPlanID())
	for _, a := range c.Actions {
		n.Actions = append(n.Actions, copyAction(a))
	}
	return n
}

func copyAction(a *workflow.Action) *workflow.Action {
	n := &workflow.Action{ID: a.ID, Key: a.Key, Name: a.Name, Descr: a.Descr, Plugin: a.Plugin, Timeout: a.Timeout,
		Retries: a.Retries, Req: copyResp(a.Req), Attempts: CopyAttempts(a.Attempts), State: copyState(a.State)}
	n.SetPlanID(a.GetPlanID())
	return n
}

// CopyPlan deep-copies a plan built by this lab (request/response types are the lab's own).
func CopyPlan(p *workflow.Plan) *workflow.Plan {
	if p == nil {
		return nil
	}
	n := &workflow.Plan{ID: p.ID, Name: p.Name, Descr: p.Descr, GroupID: p.GroupID, Meta: append([]byte(nil), p.Meta...),
		State: copyState(p.State), SubmitTime: p.SubmitTime, Reason: p.Reason}
	n.BypassChecks, n.PreChecks, n.ContChecks = copyChecks(p.BypassChecks), copyChecks(p.PreChecks), copyChecks(p.ContChecks)
	n.PostChecks, n.DeferredChecks = copyChecks(p.PostChecks), copyChecks(p.DeferredChecks)
	for _, b := range p.Blocks {
		nb := &workflow.Block{ID: b.ID, Key: b.Key, Name: b.Name, Descr: b.Descr, EntranceDelay: b.EntranceDelay, ExitDelay: b.ExitDelay,
			Concurrency: b.Concurrency, ToleratedFailures: b.ToleratedFailures, State: copyState(b.State)}
		nb.SetPlanID(b.GetPlanID())
		nb.BypassChecks, nb.PreChecks, nb.ContChecks = copyChecks(b.BypassChecks), copyChecks(b.PreChecks), copyChecks(b.ContChecks)
		nb.PostChecks, nb.DeferredChecks = copyChecks(b.PostChecks), copyChecks(b.DeferredChecks)
		for _, s := range b.Sequences {
			ns := &workflow.Sequence{ID: s.ID, Key: s.Key, Name: s.Name, Descr: s.Descr, State: copyState(s.State)}
			ns.SetPlanID(s.GetPlanID())
			for _, a := range s.Actions {
				ns.Actions = append(ns.Actions, copyAction(a))
			}
			nb.Sequences = append(nb.Sequences, ns)
		}
		n.Blocks = append(n.Blocks, nb)
	}
	return n
}

func (v *RecVault) record(w *WriteRec, f func() error) error {
	l := v.lab
	l.mu.Lock()
	if info, ok := l.objs[w.ID]; ok {
		w.Tag, w.PlanIdx, w.Cont = info.tag, info.planIdx, info.cont
	} else {
		w.PlanIdx = -1
		w.Tag = w.ID.String()
	}
	if !w.Cont {
		l.progressed()
	}
	l.add(Event{Kind: EvWriteBegin, W: w, Tag: w.Tag, PlanIdx: w.PlanIdx, At: time.Since(l.start)})
	l.openWrites++
	l.mu.Unlock()

	if d := l.sc.WriteLatUs; d > 0 {
		time.Sleep(time.Duration(d) * time.Microsecond)
	}
	var err error
	l.mu.Lock()
	inject := false
	if !w.Create {
		l.nUpdates++
		inject = l.failWrite > 0 && l.nUpdates == l.failWrite
	}
	l.mu.Unlock()
	if inject {
		err = errors.New("injected storage write failure")
	} else {
		err = f()
	}

	l.mu.Lock()
	w2 := *w
	w2.Err = err
	if !w.Cont {
		l.progressed()
	}
	l.add(Event{Kind: EvWriteEnd, W: &w2, Tag: w.Tag, PlanIdx: w.PlanIdx, At: time.Since(l.start)})
	l.openWrites--
	l.nWrites++
	n := l.nWrites
	cb := l.onWriteEnd
	l.mu.Unlock()
	if cb != nil {
		cb(n)
	}
	return err
}

func (v *RecVault) Create(ctx context.Context, p *workflow.Plan) error {
	w := &WriteRec{Obj: workflow.OTPlan, ID: p.ID, Create: true, Plan: CopyPlan(p)}
	if p.State != nil {
		w.State = *p.State
	}
	return v.record(w, func() error { return v.Vault.Create(ctx, p) })
}

func (v *RecVault) UpdatePlan(ctx context.Context, p *workflow.Plan) error {
	w := &WriteRec{Obj: workflow.OTPlan, ID: p.ID, State: *p.State, Reason: p.Reason}
	w.Full = &workflow.Plan{ID: p.ID, Name: p.Name, Descr: p.Descr, GroupID: p.GroupID, Meta: append([]byte(nil), p.Meta...),
		State: copyState(p.State), SubmitTime: p.SubmitTime, Reason: p.Reason}
	return v.record(w, func() error { return v.Vault.UpdatePlan(ctx, p) })
}

func (v *RecVault) UpdateBlock(ctx context.Context, b *workflow.Block) error {
	w := &WriteRec{Obj: workflow.OTBlock, ID: b.ID, State: *b.State}
	nb := &workflow.Block{ID: b.ID, Key: b.Key, Name: b.Name, Descr: b.Descr, EntranceDelay: b.EntranceDelay, ExitDelay: b.ExitDelay,
		Concurrency: b.Concurrency, ToleratedFailures: b.ToleratedFailures, State: copyState(b.State)}
	nb.SetPlanID(b.GetPlanID())
	w.Full = nb
	return v.record(w, func() error { return v.Vault.UpdateBlock(ctx, b) })
}

func (v *RecVault) UpdateChecks(ctx context.Context, c *workflow.Checks) error {
	w := &WriteRec{Obj: workflow.OTCheck, ID: c.ID, State: *c.State}
	nc := &workflow.Checks{ID: c.ID, Key: c.Key, Delay: c.Delay, State: copyState(c.State)}
	nc.SetPlanID(c.GetPlanID())
	w.Full = nc
	return v.record(w, func() error { return v.Vault.UpdateChecks(ctx, c) })
}

func (v *RecVault) UpdateSequence(ctx context.Context, s *workflow.Sequence) error {
	w := &WriteRec{Obj: workflow.OTSequence, ID: s.ID, State: *s.State}
	ns := &workflow.Sequence{ID: s.ID, Key: s.Key, Name: s.Name, Descr: s.Descr, State: copyState(s.State)}
	ns.SetPlanID(s.GetPlanID())
	w.Full = ns
	return v.record(w, func() error { return v.Vault.UpdateSequence(ctx, s) })
}

func (v *RecVault) UpdateAction(ctx context.Context, a *workflow.Action) error {
	w := &WriteRec{Obj: workflow.OTAction, ID: a.ID, State: *a.State, Attempts: CopyAttempts(a.Attempts)}
	w.Full = copyAction(a)
	return v.record(w, func() error { return v.Vault.UpdateAction(ctx, a) })
}

// Read forwards to the inner vault; a chosen read returns late (see Lab.slowReadNth).
func (v *RecVault) Read(ctx context.Context, id uuid.UUID) (*workflow.Plan, error) {
	p, err := v.Vault.Read(ctx, id)
	l := v.lab
	l.mu.Lock()
	l.nReads++
	slow := l.slowReadNth > 0 && l.nReads == l.slowReadNth
	us := l.slowReadUs
	l.mu.Unlock()
	if slow {
		time.Sleep(time.Duration(us) * time.Microsecond)
	}
	return p, err
}

// Search forwards to the inner vault; the first search's stream can be made to break (see Lab.searchFault).
func (v *RecVault) Search(ctx context.Context, filters storage.Filters) (chan storage.Stream[storage.ListResult], error) {
	ch, err := v.Vault.Search(ctx, filters)
	l := v.lab
	l.mu.Lock()
	l.nSearches++
	k := -1
	if l.searchFault > 0 && l.nSearches == 1 {
		k = l.searchFault - 1
	}
	l.mu.Unlock()
	if err != nil || k < 0 {
		return ch, err
	}
	out := make(chan storage.Stream[storage.ListResult], 1)
	go func() {
		defer close(out)
		n := 0
		for r := range ch {
			if n == k {
				out <- storage.Stream[storage.ListResult]{Err: errors.New("injected failure of the search stream")}
				for range ch { // release the vault's connection
				}
				l.note("search stream broken after %d result(s)", k)
				return
			}
			out <- r
			n++
		}
	}()
	return out, nil
}

// Recovery forwards storage.Recovery when the inner vault has it.
func (v *RecVault) Recovery(ctx context.Context) error {
	if r, ok := v.Vault.(storage.Recovery); ok {
		return r.Recovery(ctx)
	}
	return nil
}
