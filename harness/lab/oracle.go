package lab

import (
	"fmt"
	"strings"
	"time"

	"github.com/element-of-surprise/coercion/workflow"

	"verifharness/vprop"
)

// Every rule below quotes the clause of the property statement it implements. Nothing else is asserted.

func conc(b *BlockSpec) int {
	if b.Concurrency < 1 {
		return 1
	}
	return b.Concurrency
}

func retriesOf(a *ActionSpec) int {
	if a.Retries < 0 {
		return 0
	}
	return a.Retries
}

// lastOutcome returns the outcome of the last finished invocation among invs (ok=false when none finished).
func lastOutcome(invs []*Inv) (Outcome, bool) {
	for i := len(invs) - 1; i >= 0; i-- {
		if invs[i].Exit >= 0 {
			return invs[i].Out, true
		}
	}
	return 0, false
}

// ---------------------------------------------------------------------------------------------------------------------
// C01 — declared order, each step gated on success

func CheckC01(rr *RunResult, res *vprop.Result) {
	sc := rr.Sc
	if sc.HasOverrun() {
		return // an overrunning plugin is by design still returning when the engine has moved on
	}
	ix := BuildIndex(rr)
	for pi := range sc.Plans {
		ps := &sc.Plans[pi]
		// (a) "blocks execute one at a time in declared order": every (non-continuous) event of block i precedes
		// every event of block j > i.
		prevLast, prevBlock := -1, -1
		for bi := range ps.Blocks {
			first, last := ix.span(sc.BlockRefs(pi, bi, false))
			if first < 0 {
				continue
			}
			if first < prevLast {
				res.Fail("C01/block-order", "plan p%d: block b%d has an event at log position %d before block b%d finished (its last event is at %d)\n%s",
					pi, bi, first, prevBlock, prevLast, FormatEvents(rr.Events, 60))
				return
			}
			if last > prevLast {
				prevLast, prevBlock = last, bi
			}
		}
		for bi := range ps.Blocks {
			bs := &ps.Blocks[bi]
			for si := range bs.Seqs {
				refs := sc.SeqRefs(pi, bi, si)
				for ai, r := range refs {
					invs := ix.Invs(r)
					// attempts of one action do not overlap ("one at a time")
					for k := 1; k < len(invs); k++ {
						if invs[k-1].Exit < 0 || invs[k-1].Exit > invs[k].Enter {
							res.Fail("C01/attempt-overlap", "%s: invocation #%d entered at %d while #%d had not returned", r.Tag(), invs[k].N, invs[k].Enter, invs[k-1].N)
							return
						}
					}
					if ai == 0 || len(invs) == 0 {
						continue
					}
					// (b) "each plugin invocation beginning only after the previous action of that sequence finished
					// successfully"
					e := invs[0].Enter
					prev := ix.invsBefore(refs[ai-1], e)
					if len(prev) == 0 {
						res.Fail("C01/seq-order", "%s was invoked (log %d) although the previous action %s had not been invoked", r.Tag(), e, refs[ai-1].Tag())
						return
					}
					for _, p := range prev {
						if p.Exit < 0 || p.Exit > e {
							res.Fail("C01/seq-overlap", "%s was invoked (log %d) while %s#%d was still executing", r.Tag(), e, p.Tag, p.N)
							return
						}
					}
					if out, _ := lastOutcome(prev); !out.EngineSuccess() {
						res.Fail("C01/seq-gated-on-success", "%s was invoked (log %d) although the previous action %s ended with %s", r.Tag(), e, refs[ai-1].Tag(), out)
						return
					}
					// all invocations of the previous action are before: none after
					for _, p := range ix.Invs(refs[ai-1]) {
						if p.Enter > e {
							res.Fail("C01/seq-order", "%s#%d entered at %d after the next action %s had begun (%d)", p.Tag, p.N, p.Enter, r.Tag(), e)
							return
						}
					}
				}
				// (c) "No sequence action of a block is invoked before the plan's and that block's pre-checks have passed"
				for _, r := range refs {
					for _, inv := range ix.Invs(r) {
						for _, scope := range [][]Ref{sc.GroupRefs(pi, -1, 1), sc.GroupRefs(pi, bi, 1)} {
							for _, pr := range scope {
								before := ix.invsBefore(pr, inv.Enter)
								if len(before) == 0 {
									res.Fail("C01/pre-before-seq", "%s#%d was invoked (log %d) before pre-check %s ran", inv.Tag, inv.N, inv.Enter, pr.Tag())
									return
								}
								for _, p := range before {
									if p.Exit < 0 || p.Exit > inv.Enter {
										res.Fail("C01/pre-before-seq", "%s#%d was invoked (log %d) while pre-check %s#%d was still executing", inv.Tag, inv.N, inv.Enter, p.Tag, p.N)
										return
									}
								}
								if out, _ := lastOutcome(before); !out.EngineSuccess() {
									res.Fail("C01/pre-passed", "%s#%d was invoked (log %d) although pre-check %s ended with %s", inv.Tag, inv.N, inv.Enter, pr.Tag(), out)
									return
								}
							}
						}
					}
				}
			}
			// (d) block scope: "a scope's post-checks begin only after every sequence started in it has finished, with
			// deferred checks last"
			var seqRefs []Ref
			for si := range bs.Seqs {
				seqRefs = append(seqRefs, sc.SeqRefs(pi, bi, si)...)
			}
			if !orderedAfter(ix, res, "C01/post-after-sequences", sc.GroupRefs(pi, bi, 3), seqRefs) {
				return
			}
			body := append(append(append([]Ref{}, sc.GroupRefs(pi, bi, 1)...), seqRefs...), sc.GroupRefs(pi, bi, 3)...)
			if !orderedAfter(ix, res, "C01/deferred-last", sc.GroupRefs(pi, bi, 4), body) {
				return
			}
		}
		// (d) plan scope
		var blockRefs []Ref
		for bi := range ps.Blocks {
			blockRefs = append(blockRefs, sc.BlockRefs(pi, bi, false)...)
		}
		if !orderedAfter(ix, res, "C01/post-after-sequences", sc.GroupRefs(pi, -1, 3), blockRefs) {
			return
		}
		body := append(append(append([]Ref{}, sc.GroupRefs(pi, -1, 1)...), blockRefs...), sc.GroupRefs(pi, -1, 3)...)
		if !orderedAfter(ix, res, "C01/deferred-last", sc.GroupRefs(pi, -1, 4), body) {
			return
		}
	}
}

// orderedAfter: the first invocation of `later` begins only after every invocation of `earlier` has finished, and no
// invocation of `earlier` begins after it.
func orderedAfter(ix *Index, res *vprop.Result, rule string, later, earlier []Ref) bool {
	first, _ := ix.span(later)
	if first < 0 {
		return true
	}
	for _, r := range earlier {
		for _, inv := range ix.Invs(r) {
			if inv.ExitOr(ix.N) > first {
				res.Fail(rule, "%s began at log %d while %s#%d (entered %d, exit %d) had not finished / had not begun\n%s",
					later[0].Tag(), first, inv.Tag, inv.N, inv.Enter, inv.Exit, FormatEvents(ix.RR.Events, 60))
				return false
			}
		}
	}
	return true
}

// ---------------------------------------------------------------------------------------------------------------------
// C02 — at most Concurrency sequences in flight; one block at a time

// CheckC02 returns the peak per (plan,block) for the evidence labels.
func CheckC02(rr *RunResult, res *vprop.Result) (pressed bool) {
	sc := rr.Sc
	if sc.HasOverrun() {
		return false
	}
	type key struct{ p, b int }
	open := map[key]map[int]int{}
	peak := map[key]int{}
	for i, e := range rr.Events {
		if (e.Kind != EvEnter && e.Kind != EvExit) || !e.Ref.IsSeq() {
			continue
		}
		k := key{e.Ref.Plan, e.Ref.Block}
		if open[k] == nil {
			open[k] = map[int]int{}
		}
		if e.Kind == EvExit {
			open[k][e.Ref.Seq]--
			if open[k][e.Ref.Seq] <= 0 {
				delete(open[k], e.Ref.Seq)
			}
			continue
		}
		open[k][e.Ref.Seq]++
		bs := &sc.Plans[k.p].Blocks[k.b]
		// "the number of sequences of a block that have an action in flight never exceeds that block's Concurrency
		// (1 when unset)"
		if n := len(open[k]); n > conc(bs) {
			res.Fail("C02/concurrency-exceeded", "plan p%d block b%d: %d sequences in flight at log %d, Concurrency is %d (declared %d)\n%s",
				k.p, k.b, n, i, conc(bs), bs.Concurrency, FormatEvents(rr.Events[:i+1], 40))
			return
		} else if n > peak[k] {
			peak[k] = n
		}
		// "sequences of two different blocks of the same plan are never in flight at the same time"
		for k2, m := range open {
			if k2.p == k.p && k2.b != k.b && len(m) > 0 {
				res.Fail("C02/two-blocks", "plan p%d: sequence action %s entered at log %d while block b%d still has sequences in flight", k.p, e.Tag, i, k2.b)
				return
			}
		}
	}
	for k, pk := range peak {
		bs := &sc.Plans[k.p].Blocks[k.b]
		want := min(conc(bs), len(bs.Seqs))
		if len(bs.Seqs) > conc(bs) && want >= 2 && pk >= want {
			pressed = true
		}
	}
	return pressed
}

// ---------------------------------------------------------------------------------------------------------------------
// C03 — tolerated-failure threshold

// seqFailedInLog: a sequence failed when one of its actions ended its attempts unsuccessfully.
func seqFailedFinal(p *workflow.Plan, bi, si int) bool {
	if p == nil || bi >= len(p.Blocks) || si >= len(p.Blocks[bi].Sequences) {
		return false
	}
	return status(p.Blocks[bi].Sequences[si].State) == workflow.Failed
}

func CheckC03(rr *RunResult, res *vprop.Result) (crossedWithQueue bool) {
	sc := rr.Sc
	if sc.HasOverrun() {
		return
	}
	ix := BuildIndex(rr)
	for pi, pr := range rr.Plans {
		if pr.Final == nil || pr.Stalled {
			continue
		}
		ps := &sc.Plans[pi]
		fp := pr.Final
		if len(fp.Blocks) != len(ps.Blocks) {
			continue
		}
		planContOK := fp.ContChecks == nil || checksStatus(fp.ContChecks) != workflow.Failed
		failedBlockSeen := -1
		for bi := range ps.Blocks {
			bs := &ps.Blocks[bi]
			fb := fp.Blocks[bi]
			T, C := bs.Tolerated, conc(bs)
			nFailed := 0
			firstEnter := make([]int, len(bs.Seqs))
			for si := range bs.Seqs {
				firstEnter[si], _ = ix.span(sc.SeqRefs(pi, bi, si))
				if seqFailedFinal(fp, bi, si) {
					nFailed++
				}
			}
			// (d) "after a Failed block no later block invokes anything"
			if failedBlockSeen >= 0 {
				if first, _ := ix.span(sc.BlockRefs(pi, bi, true)); first >= 0 {
					res.Fail("C03/later-block-ran", "plan p%d: block b%d invoked a plugin (log %d) although block b%d ended Failed", pi, bi, first, failedBlockSeen)
					return
				}
				continue
			}
			if T >= 0 {
				// (a) "sequences not yet started are never started": started-set rule, sound for every schedule and
				// independent of the order in which the engine launches sequences. A sequence X is started when the
				// engine writes it Running (first write of the sequence); both of the engine's threshold checks precede
				// that write. A sequence Y whose Failed state was durable before that moment had either been counted
				// when X was admitted, or was still holding its concurrency slot (the failure is counted before the slot
				// is released). At most C-1 other sequences hold a slot when X is admitted, and those seen inside a
				// plugin call at that moment (H) have not failed yet. Hence #Y - (C-1-|H|) <= T. With C = 1 this is
				// exactly "execution stops at the failure that exceeds the tolerance".
				startW := make([]int, len(bs.Seqs))  // position of the write-begin marking the sequence Running
				failedW := make([]int, len(bs.Seqs)) // position of the write-end storing the sequence Failed
				for si := range bs.Seqs {
					startW[si], failedW[si] = -1, -1
					stag := fmt.Sprintf("p%d/b%d/s%d", pi, bi, si)
					for i, e := range rr.Events {
						if e.W == nil || e.W.Tag != stag {
							continue
						}
						if e.Kind == EvWriteBegin && e.W.State.Status == workflow.Running && startW[si] < 0 {
							startW[si] = i
						}
						if e.Kind == EvWriteEnd && e.W.State.Status == workflow.Failed && failedW[si] < 0 {
							failedW[si] = i
						}
					}
				}
				for si := range bs.Seqs {
					e := startW[si]
					if e < 0 {
						continue
					}
					h, failedBefore := 0, 0
					for sj := range bs.Seqs {
						if sj == si {
							continue
						}
						if failedW[sj] >= 0 && failedW[sj] < e {
							failedBefore++
							continue
						}
						inCall := false
						for _, r := range sc.SeqRefs(pi, bi, sj) {
							for _, inv := range ix.Invs(r) {
								if inv.Enter < e && inv.ExitOr(ix.N) > e {
									inCall = true
								}
							}
						}
						if inCall {
							h++
						}
					}
					slack := C - 1 - h
					if slack < 0 {
						slack = 0
					}
					if failedBefore-slack > T {
						res.Fail("C03/started-after-threshold", "plan p%d block b%d (Concurrency %d, ToleratedFailures %d): sequence s%d was started (written Running at log %d) although %d sequences were already durably Failed and at most %d of them could still have been holding a slot (%d other sequences seen inside a plugin call)\n%s",
							pi, bi, C, T, si, e, failedBefore, slack, h, FormatEvents(rr.Events, 80))
						return
					}
				}
				// (b) "at most ToleratedFailures+Concurrency sequences ever fail"
				if nFailed > T+C {
					res.Fail("C03/too-many-failures", "plan p%d block b%d: %d sequences failed, ToleratedFailures+Concurrency = %d", pi, bi, nFailed, T+C)
					return
				}
				if nFailed > T {
					queued := false
					for si := range bs.Seqs {
						if firstEnter[si] < 0 {
							queued = true
						}
					}
					if queued {
						crossedWithQueue = true
					}
				}
			}
			// (c) "A block ends Failed exactly when its failed sequences exceed the tolerance or one of its checks failed,
			// otherwise Completed" — judged for blocks that were entered, when no plan-level continuous check failed (that
			// aborts the running block, which the statement does not speak about).
			st := status(fb.State)
			if st == workflow.NotStarted || !planContOK {
				if st == workflow.Failed {
					failedBlockSeen = bi
				}
				continue
			}
			checkFailed := false
			for gi := 1; gi < 5; gi++ {
				if checksStatus(BlockGroup(fb, gi)) == workflow.Failed {
					checkFailed = true
				}
			}
			exceeded := T >= 0 && nFailed > T
			switch st {
			case workflow.Completed:
				if exceeded || checkFailed {
					res.Fail("C03/block-completed-despite-failure", "plan p%d block b%d ended Completed with %d failed sequences (tolerated %d) checkFailed=%v: %s", pi, bi, nFailed, T, checkFailed, Describe(fp))
					return
				}
			case workflow.Failed:
				failedBlockSeen = bi
				if !exceeded && !checkFailed {
					res.Fail("C03/block-failed-without-cause", "plan p%d block b%d ended Failed with %d failed sequences (tolerated %d) and no failed check: %s", pi, bi, nFailed, T, Describe(fp))
					return
				}
			}
		}
		// (d) "... and the plan ends Failed"
		if failedBlockSeen >= 0 && status(fp.State) != workflow.Failed {
			res.Fail("C03/plan-not-failed", "plan p%d: block b%d ended Failed but the plan ended %v", pi, failedBlockSeen, status(fp.State))
			return
		}
	}
	return
}

// ---------------------------------------------------------------------------------------------------------------------
// C04 — Wait returns a terminal, quiescent, consistent, truthful plan

func eachState(p *workflow.Plan, f func(tag string, s *workflow.State)) {
	f("plan", p.State)
	checks := func(prefix string, c *workflow.Checks, name string) {
		if c == nil {
			return
		}
		f(prefix+name, c.State)
		for ai, a := range c.Actions {
			f(fmt.Sprintf("%s%s/a%d", prefix, name, ai), a.State)
		}
	}
	for gi, n := range GroupNames {
		checks("", PlanGroup(p, gi), n)
	}
	for bi, b := range p.Blocks {
		bt := fmt.Sprintf("b%d", bi)
		f(bt, b.State)
		for gi, n := range GroupNames {
			checks(bt+"/", BlockGroup(b, gi), n)
		}
		for si, s := range b.Sequences {
			f(fmt.Sprintf("%s/s%d", bt, si), s.State)
			for ai, a := range s.Actions {
				f(fmt.Sprintf("%s/s%d/a%d", bt, si, ai), a.State)
			}
		}
	}
}

func eachAction(p *workflow.Plan, f func(tag string, a *workflow.Action)) {
	checks := func(prefix string, c *workflow.Checks, name string) {
		if c == nil {
			return
		}
		for ai, a := range c.Actions {
			f(fmt.Sprintf("%s%s/a%d", prefix, name, ai), a)
		}
	}
	for gi, n := range GroupNames {
		checks("", PlanGroup(p, gi), n)
	}
	for bi, b := range p.Blocks {
		bt := fmt.Sprintf("b%d/", bi)
		for gi, n := range GroupNames {
			checks(bt, BlockGroup(b, gi), n)
		}
		for si, s := range b.Sequences {
			for ai, a := range s.Actions {
				f(fmt.Sprintf("%ss%d/a%d", bt, si, ai), a)
			}
		}
	}
}

// ConsistencyC04 checks clauses (a), (d), (e) of C04 on a final plan. It is shared with the recovery checks (C10).
func ConsistencyC04(prefix string, p *workflow.Plan, res *vprop.Result) bool {
	st := status(p.State)
	// (a) "the stored plan is Completed or Failed, nothing in it is still Running"
	if st != workflow.Completed && st != workflow.Failed {
		res.Fail(prefix+"/not-terminal", "plan status is %v: %s", st, Describe(p))
		return false
	}
	ok := true
	eachState(p, func(tag string, s *workflow.State) {
		if ok && status(s) == workflow.Running {
			res.Fail(prefix+"/left-running:"+kindOfTag(tag), "%s is still Running in the final plan: %s", tag, Describe(p))
			ok = false
		}
		// "start<=end everywhere"
		if ok && s != nil && !s.End.IsZero() && s.Start.After(s.End) {
			res.Fail(prefix+"/start-after-end", "%s: start %v is after end %v", tag, s.Start, s.End)
			ok = false
		}
	})
	if !ok {
		return false
	}
	// "a Completed plan was either bypassed as a whole or has only Completed blocks and no failed pre, continuous, post or
	// deferred check"
	if st == workflow.Completed && checksStatus(p.BypassChecks) != workflow.Completed {
		for bi, b := range p.Blocks {
			if status(b.State) != workflow.Completed {
				res.Fail(prefix+"/completed-plan-block", "plan Completed (not bypassed) but block b%d is %v: %s", bi, status(b.State), Describe(p))
				return false
			}
		}
		for gi := 1; gi < 5; gi++ {
			if checksStatus(PlanGroup(p, gi)) == workflow.Failed {
				res.Fail(prefix+"/completed-plan-check", "plan Completed but its %s checks Failed: %s", GroupNames[gi], Describe(p))
				return false
			}
			// "... and no failed pre, continuous, post or deferred check": the blocks' own check groups included (a
			// failed block-level check fails its block, so a Completed plan cannot contain one)
			for bi, b := range p.Blocks {
				if checksStatus(BlockGroup(b, gi)) == workflow.Failed {
					res.Fail(prefix+"/completed-plan-block-check", "plan Completed but the %s checks of block b%d Failed: %s", GroupNames[gi], bi, Describe(p))
					return false
				}
			}
		}
	}
	for bi, b := range p.Blocks {
		for si, s := range b.Sequences {
			switch status(s.State) {
			case workflow.Completed:
				// "a Completed sequence has only Completed actions"
				for ai, a := range s.Actions {
					if status(a.State) != workflow.Completed {
						res.Fail(prefix+"/completed-seq-action", "b%d/s%d is Completed but action a%d is %v", bi, si, ai, status(a.State))
						return false
					}
				}
			case workflow.Failed:
				// "a Failed sequence has exactly one Failed action, the last one attempted, and untouched actions after it"
				failedAt := -1
				for ai, a := range s.Actions {
					if status(a.State) == workflow.Failed {
						if failedAt >= 0 {
							res.Fail(prefix+"/failed-seq-two-failed", "b%d/s%d is Failed with two Failed actions (a%d, a%d)", bi, si, failedAt, ai)
							return false
						}
						failedAt = ai
					}
				}
				if failedAt < 0 {
					res.Fail(prefix+"/failed-seq-no-failed-action", "b%d/s%d is Failed but has no Failed action: %s", bi, si, Describe(p))
					return false
				}
				for ai, a := range s.Actions {
					if ai < failedAt && status(a.State) != workflow.Completed {
						res.Fail(prefix+"/failed-seq-prefix", "b%d/s%d is Failed at a%d but earlier action a%d is %v", bi, si, failedAt, ai, status(a.State))
						return false
					}
					if ai > failedAt && (status(a.State) != workflow.NotStarted || len(a.Attempts) > 0) {
						res.Fail(prefix+"/failed-seq-touched-after", "b%d/s%d is Failed at a%d but later action a%d is %v with %d attempts", bi, si, failedAt, ai, status(a.State), len(a.Attempts))
						return false
					}
				}
			}
		}
	}
	// "an action is Completed exactly when its final attempt has no error"
	eachAction(p, func(tag string, a *workflow.Action) {
		if !ok {
			return
		}
		okAttempt := len(a.Attempts) > 0 && a.Attempts[len(a.Attempts)-1].Err == nil
		if (status(a.State) == workflow.Completed) != okAttempt {
			res.Fail(prefix+"/action-status-vs-attempt", "%s is %v with %d attempts, final attempt successful=%v", tag, status(a.State), len(a.Attempts), okAttempt)
			ok = false
			return
		}
		for i, at := range a.Attempts {
			if !at.End.IsZero() && at.Start.After(at.End) {
				res.Fail(prefix+"/start-after-end", "%s attempt %d: start after end", tag, i)
				ok = false
				return
			}
		}
	})
	if !ok {
		return false
	}
	// (e) "the failure reason names the stage that actually failed and is unset exactly when the plan Completed"
	if (st == workflow.Completed) != (p.Reason == workflow.FRUnknown) {
		res.Fail(prefix+"/reason-unset-iff-completed", "plan is %v with reason %v: %s", st, p.Reason, Describe(p))
		return false
	}
	if st == workflow.Failed {
		legal := map[workflow.FailureReason]bool{}
		if checksStatus(p.PreChecks) == workflow.Failed {
			legal[workflow.FRPreCheck] = true
		}
		if checksStatus(p.ContChecks) == workflow.Failed {
			legal[workflow.FRContCheck] = true
		}
		if checksStatus(p.PostChecks) == workflow.Failed {
			legal[workflow.FRPostCheck] = true
		}
		if checksStatus(p.DeferredChecks) == workflow.Failed {
			legal[workflow.FRDeferredCheck] = true
		}
		// A block "actually failed" when it has a cause of its own: more failed sequences than tolerated, or one of
		// its own check groups failed. A block that is Failed only because a plan-level continuous check failed while it
		// was running (the engine marks the aborted block Failed) did not fail itself: the stage that failed is the
		// continuous check.
		for _, b := range p.Blocks {
			if status(b.State) != workflow.Failed {
				continue
			}
			nFailed := 0
			for _, q := range b.Sequences {
				if status(q.State) == workflow.Failed {
					nFailed++
				}
			}
			own := b.ToleratedFailures >= 0 && nFailed > b.ToleratedFailures
			for gi := 1; gi < 5; gi++ {
				if checksStatus(BlockGroup(b, gi)) == workflow.Failed {
					own = true
				}
			}
			if own || checksStatus(p.ContChecks) != workflow.Failed {
				legal[workflow.FRBlock] = true
			}
		}
		if p.Reason == workflow.FRExceedRecovery {
			return true // judged by C11
		}
		if !legal[p.Reason] {
			res.Fail(prefix+"/reason-names-failed-stage", "plan Failed with reason %v but that stage did not fail: %s", p.Reason, Describe(p))
			return false
		}
	}
	return true
}

// kindOfTag classifies an object tag of eachState ("plan", "pre", "pre/a0", "b0", "b0/cont", "b0/cont/a1", "b0/s1",
// "b0/s1/a0") for violation signatures.
func kindOfTag(tag string) string {
	parts := strings.Split(tag, "/")
	scope := "plan"
	if strings.HasPrefix(parts[0], "b") {
		scope = "block"
		parts = parts[1:]
	}
	switch {
	case len(parts) == 0:
		return "block"
	case parts[0] == "plan":
		return "plan"
	case strings.HasPrefix(parts[0], "s"):
		if len(parts) == 2 {
			return "sequence-action"
		}
		return "sequence"
	default:
		if len(parts) == 2 {
			return scope + "-" + parts[0] + "-action"
		}
		return scope + "-" + parts[0] + "-group"
	}
}

func sameState(a, b *workflow.State) bool {
	if a == nil || b == nil {
		return a == b
	}
	return a.Status == b.Status && a.Start.Equal(b.Start) && a.End.Equal(b.End)
}

// samePlanState compares engine-owned state of two reads of one plan.
func samePlanState(a, b *workflow.Plan) string {
	if a == nil || b == nil {
		return "one read is nil"
	}
	if a.Reason != b.Reason {
		return fmt.Sprintf("reason %v vs %v", a.Reason, b.Reason)
	}
	var sa, sb []string
	var ta []string
	eachState(a, func(tag string, s *workflow.State) {
		ta = append(ta, tag)
		sa = append(sa, fmt.Sprintf("%v/%d/%d", status(s), tns(s, true), tns(s, false)))
	})
	eachState(b, func(tag string, s *workflow.State) {
		sb = append(sb, fmt.Sprintf("%v/%d/%d", status(s), tns(s, true), tns(s, false)))
	})
	if len(sa) != len(sb) {
		return "different shapes"
	}
	for i := range sa {
		if sa[i] != sb[i] {
			return fmt.Sprintf("%s: %s vs %s", ta[i], sa[i], sb[i])
		}
	}
	diff := ""
	var na []int
	eachAction(a, func(tag string, x *workflow.Action) { na = append(na, len(x.Attempts)) })
	i := 0
	eachAction(b, func(tag string, x *workflow.Action) {
		if diff == "" && i < len(na) && na[i] != len(x.Attempts) {
			diff = fmt.Sprintf("%s: %d vs %d attempts", tag, na[i], len(x.Attempts))
		}
		i++
	})
	return diff
}

func tns(s *workflow.State, start bool) int64 {
	if s == nil {
		return 0
	}
	t := s.End
	if start {
		t = s.Start
	}
	if t.IsZero() {
		return 0
	}
	return t.UnixNano()
}

func CheckC04(rr *RunResult, res *vprop.Result) {
	ix := BuildIndex(rr)
	for pi, pr := range rr.Plans {
		if pr.SubmitErr != nil || pr.StartErr != nil {
			res.Fail("C04/valid-plan-refused", "plan p%d: submit err=%v start err=%v", pi, pr.SubmitErr, pr.StartErr)
			return
		}
		// (f) "When waiting on a started plan returns": Wait must return at all (stall rule, DESIGN §2.4)
		if pr.Stalled {
			if !rr.hardLimitOnly() {
				res.Fail("C04/wait-never-returns", "plan p%d: no progress for the stall window, nothing pending in the harness, Wait has not returned\n%s", pi, FormatEvents(rr.Events, 50))
			} else {
				res.Skip = true
			}
			return
		}
		if pr.WaitErr != nil || pr.Final == nil {
			res.Fail("C04/wait-error", "plan p%d: Wait returned error %v", pi, pr.WaitErr)
			return
		}
		if !ConsistencyC04("C04", pr.Final, res) {
			return
		}
		if rr.Sc.HasOverrun() {
			continue // clauses (b)/(c) are unsound with plugins that outlive their timeout by design
		}
		// (b) "no plugin is still executing for it"
		for _, inv := range ix.All {
			if inv.Ref.Plan != pi {
				continue
			}
			if inv.Enter < pr.WaitRetIdx && inv.ExitOr(ix.N) > pr.WaitRetIdx {
				res.Fail("C04/plugin-executing-at-wait-return", "plan p%d: %s#%d was still executing when Wait returned (log %d)\n%s", pi, inv.Tag, inv.N, pr.WaitRetIdx, FormatEvents(rr.Events, 60))
				return
			}
			if inv.Enter > pr.WaitRetIdx {
				res.Fail("C04/plugin-invoked-after-wait-return", "plan p%d: %s#%d was invoked (log %d) after Wait returned (log %d)\n%s", pi, inv.Tag, inv.N, inv.Enter, pr.WaitRetIdx, FormatEvents(rr.Events, 60))
				return
			}
		}
		// (c) "it never changes afterwards"
		for i := pr.WaitRetIdx + 1; i < len(rr.Events); i++ {
			e := rr.Events[i]
			if (e.Kind == EvWriteBegin || e.Kind == EvWriteEnd) && e.PlanIdx == pi {
				// "it never changes afterwards": a write that stores exactly what the returned plan already holds for
				// that object changes nothing and is not judged
				if st, n, ok := stateByTag(pr.Final, e.W.Tag); ok && st != nil && st.Status == e.W.State.Status &&
					st.Start.Equal(e.W.State.Start) && st.End.Equal(e.W.State.End) && (n < 0 || n == len(e.W.Attempts)) {
					continue
				}
				res.Fail("C04/write-after-wait-return", "plan p%d: storage write of %s (%v) at log %d after Wait returned (log %d)\n%s", pi, e.Tag, e.W.State.Status, i, pr.WaitRetIdx, FormatEvents(rr.Events, 60))
				return
			}
		}
		if pr.Reread != nil {
			if d := samePlanState(pr.Final, pr.Reread); d != "" {
				res.Fail("C04/changed-after-wait-return", "plan p%d differs between the plan Wait returned and a later read: %s", pi, d)
				return
			}
		}
	}
}

// stateByTag finds the state (and, for actions, the number of attempts; -1 otherwise) of the object with the given
// log tag ("p0", "p0/pre", "p0/pre/a0", "p0/b1", "p0/b1/cont", "p0/b1/s0", "p0/b1/s0/a1") in a plan.
func stateByTag(p *workflow.Plan, tag string) (*workflow.State, int, bool) {
	if p == nil {
		return nil, -1, false
	}
	parts := strings.Split(tag, "/")
	parts = parts[1:] // plan index
	if len(parts) == 0 {
		return p.State, -1, true
	}
	groupOf := func(get func(int) *workflow.Checks, rest []string) (*workflow.State, int, bool) {
		gi := groupIndex(rest[0])
		if gi < 0 {
			return nil, -1, false
		}
		c := get(gi)
		if c == nil {
			return nil, -1, false
		}
		if len(rest) == 1 {
			return c.State, -1, true
		}
		var ai int
		if _, err := fmt.Sscanf(rest[1], "a%d", &ai); err != nil || ai >= len(c.Actions) {
			return nil, -1, false
		}
		return c.Actions[ai].State, len(c.Actions[ai].Attempts), true
	}
	if !strings.HasPrefix(parts[0], "b") {
		return groupOf(func(gi int) *workflow.Checks { return PlanGroup(p, gi) }, parts)
	}
	var bi int
	if _, err := fmt.Sscanf(parts[0], "b%d", &bi); err != nil || bi >= len(p.Blocks) {
		return nil, -1, false
	}
	b := p.Blocks[bi]
	if len(parts) == 1 {
		return b.State, -1, true
	}
	if strings.HasPrefix(parts[1], "s") {
		var si int
		if _, err := fmt.Sscanf(parts[1], "s%d", &si); err != nil || si >= len(b.Sequences) {
			return nil, -1, false
		}
		q := b.Sequences[si]
		if len(parts) == 2 {
			return q.State, -1, true
		}
		var ai int
		if _, err := fmt.Sscanf(parts[2], "a%d", &ai); err != nil || ai >= len(q.Actions) {
			return nil, -1, false
		}
		return q.Actions[ai].State, len(q.Actions[ai].Attempts), true
	}
	return groupOf(func(gi int) *workflow.Checks { return BlockGroup(b, gi) }, parts[1:])
}

func (rr *RunResult) hardLimitOnly() bool {
	for _, n := range rr.Notes {
		if len(n) > 10 && n[:10] == "hard limit" {
			return true
		}
	}
	return false
}

// ---------------------------------------------------------------------------------------------------------------------
// C05 — attempts

func errChainEqual(got, want interface {
	Error() string
}) bool {
	return got.Error() == want.Error()
}

func CheckC05(rr *RunResult, res *vprop.Result) {
	sc := rr.Sc
	ix := BuildIndex(rr)
	timeout := 30 * time.Second
	if sc.Timeout5s {
		timeout = 5 * time.Second
	}
	sc.EachAction(func(r Ref, a *ActionSpec) {
		if len(res.Violations) > 0 {
			return
		}
		pr := rr.Plans[r.Plan]
		invs := ix.Invs(r)
		allRuns := invs
		if r.IsCont() {
			// the engine resets the attempts of a continuous check at every run; only "never again after..." within one
			// run is not applicable (Retries 0). Compare the last run only, and only when the run ended quiescent — or
			// the whole history when the engine kept it (see below): both record "every invocation as exactly one
			// attempt, in order".
			if len(invs) == 0 || pr.Final == nil || !rr.Quiescent {
				return
			}
			invs = invs[len(invs)-1:]
		} else {
			// "An action's plugin is invoked at most Retries+1 times"
			if len(invs) > retriesOf(a)+1 {
				res.Fail("C05/too-many-invocations", "%s: %d invocations with Retries=%d", r.Tag(), len(invs), a.Retries)
				return
			}
			// "and never again after an attempt succeeds or returns a permanent error"
			for k := 0; k+1 < len(invs); k++ {
				o := invs[k].Out
				if invs[k].Exit >= 0 && (o.EngineSuccess() || o == Permanent || o == WrongType || o == WrongTypeErr || o == RespAndPermErr) {
					res.Fail("C05/invoked-after-final", "%s: invocation #%d happened after #%d ended with %s", r.Tag(), invs[k+1].N, invs[k].N, o)
					return
				}
			}
		}
		// "An attempt that overruns the action's timeout is recorded as a (retryable) timeout failure": it is the overrun
		// that is recorded, not the plugin's return — a plugin that never comes back must not keep the failure out of the
		// record for ever. Bounded witness: a stubborn invocation keeps executing for 2 s of observed time after its
		// context was cancelled; by the time it returns, a storage write of the action that carries this attempt must
		// have completed. (Judged only when the context really was cancelled; the other case has a rule of its own.)
		if !r.IsCont() {
			for k, inv := range invs {
				if !a.StepOf(inv.N).Stubborn() || inv.Exit < 0 || !inv.ExitCtx {
					continue
				}
				res.Label("stubborn-overrun-judged")
				recorded := false
				for i := 0; i < inv.Exit && i < len(rr.Events); i++ {
					e := rr.Events[i]
					if e.Kind == EvWriteEnd && e.W != nil && !e.W.Create && e.W.Err == nil && e.W.Tag == r.Tag() && len(e.W.Attempts) >= k+1 {
						recorded = true
						break
					}
				}
				if !recorded {
					res.Fail("C05/overrun-not-recorded-while-plugin-runs", "%s#%d overran its timeout, had its context cancelled and kept executing for %v: when it returned (log %d) no storage write of the action carried attempt %d yet", r.Tag(), inv.N, stubbornHold, inv.Exit, k+1)
					return
				}
			}
		}
		// "with the plugin's context cancelled": an overrunning invocation that is still blocked when the run is over was
		// never cancelled (the plugin returns within milliseconds of its context being done)
		for _, inv := range invs {
			if inv.Exit < 0 && a.StepOf(inv.N).Out == Overrun && !pr.Stalled {
				res.Fail("C05/overrun-context-not-cancelled", "%s#%d overran its timeout and its context was still not cancelled when the plan had ended", r.Tag(), inv.N)
				return
			}
		}
		if pr.Final == nil || pr.Stalled {
			return
		}
		act := FindAction(pr.Final, r)
		if act == nil {
			return
		}
		// "every invocation is recorded as exactly one attempt, in order, carrying the plugin's response or error and
		// start<=end times"
		if r.IsCont() && len(allRuns) > 1 && len(act.Attempts) == len(allRuns) {
			invs = allRuns // an engine that keeps the attempts of earlier runs of a continuous check
		}
		if len(act.Attempts) != len(invs) {
			res.Fail("C05/attempt-count", "%s: %d invocations but %d recorded attempts (status %v)", r.Tag(), len(invs), len(act.Attempts), status(act.State))
			return
		}
		for k, inv := range invs {
			at := act.Attempts[k]
			if at == nil {
				res.Fail("C05/attempt-nil", "%s: attempt %d is nil", r.Tag(), k)
				return
			}
			if !at.End.IsZero() && at.Start.After(at.End) || at.Start.IsZero() || at.End.IsZero() {
				res.Fail("C05/attempt-times", "%s attempt %d: start %v end %v", r.Tag(), k, at.Start, at.End)
				return
			}
			overran := inv.Exit >= 0 && time.Duration(inv.ExitAt-inv.EnterAt) >= timeout
			st := a.StepOf(inv.N)
			switch st.Out {
			case OK:
				if overran && at.Err != nil && !at.Err.Permanent {
					continue
				}
				if at.Err != nil {
					res.Fail("C05/attempt-content", "%s attempt %d: plugin returned a response, attempt has error %q", r.Tag(), k, at.Err.Message)
					return
				}
				var tag string
				var n int
				switch v := at.Resp.(type) {
				case RespV:
					tag, n = v.Tag, v.N
				case *RespP:
					if v != nil {
						tag, n = v.Tag, v.N
					}
				case *RespV:
					if v != nil {
						tag, n = v.Tag, v.N
					}
				default:
					res.Fail("C05/attempt-content", "%s attempt %d: response has type %T", r.Tag(), k, at.Resp)
					return
				}
				if tag != r.Tag() || n != inv.N {
					res.Fail("C05/attempt-order", "%s attempt %d carries the response of %s#%d, want #%d", r.Tag(), k, tag, n, inv.N)
					return
				}
			case OKNil:
				if overran && at.Err != nil && !at.Err.Permanent {
					continue
				}
				if at.Err != nil {
					res.Fail("C05/attempt-content", "%s attempt %d: plugin returned (nil,nil), attempt has error %q", r.Tag(), k, at.Err.Message)
					return
				}
			case RespAndErr, RespAndPermErr:
				// the plugin returned a well-typed response AND an error: "carrying the plugin's response or error" — the
				// error must be recorded (the attempt failed); whether the response is kept next to it is not stated
				if overran && at.Err != nil && !at.Err.Permanent {
					continue
				}
				if at.Err == nil || at.Err.Message != ErrMsg(r.Tag(), inv.N, 0) || at.Err.Permanent != (st.Out == RespAndPermErr) {
					res.Fail("C05/attempt-content", "%s attempt %d: plugin returned a response together with an error (%s), attempt has err=%v", r.Tag(), k, st.Out, at.Err)
					return
				}
			case Transient, Permanent:
				if overran && at.Err != nil && !at.Err.Permanent && at.Err.Message != ErrMsg(r.Tag(), inv.N, 0) {
					continue
				}
				want := ScriptedError(r.Tag(), inv.N, st)
				got := at.Err
				for d := 0; ; d++ {
					if (got == nil) != (want == nil) {
						res.Fail("C05/attempt-content", "%s attempt %d: error chain differs at depth %d (got %v want %v)", r.Tag(), k, d, got, want)
						return
					}
					if got == nil {
						break
					}
					if got.Code != want.Code || got.Message != want.Message || got.Permanent != want.Permanent {
						res.Fail("C05/attempt-content", "%s attempt %d depth %d: got {%v %q %v} want {%v %q %v}", r.Tag(), k, d, got.Code, got.Message, got.Permanent, want.Code, want.Message, want.Permanent)
						return
					}
					got, want = got.Wrapped, want.Wrapped
				}
				if at.Resp != nil && !isNilResp(at.Resp) && !isZeroResp(at.Resp) {
					res.Fail("C05/attempt-content", "%s attempt %d: failed invocation recorded with a response %#v", r.Tag(), k, at.Resp)
					return
				}
			case WrongType, WrongTypeErr:
				// "a response whose type differs from the plugin's declared response type fails the action permanently
				// without storing the response"
				if at.Err == nil || !at.Err.Permanent {
					res.Fail("C05/wrong-type-not-permanent", "%s attempt %d: wrong-typed response recorded with err=%v", r.Tag(), k, at.Err)
					return
				}
				if at.Resp != nil && !isNilResp(at.Resp) && !isZeroResp(at.Resp) {
					res.Fail("C05/wrong-type-stored", "%s attempt %d: wrong-typed response was stored: %#v", r.Tag(), k, at.Resp)
					return
				}
				if status(act.State) != workflow.Failed || k != len(invs)-1 {
					res.Fail("C05/wrong-type-not-final", "%s: wrong-typed response at attempt %d of %d, action is %v", r.Tag(), k, len(invs), status(act.State))
					return
				}
			case Overrun:
				// "An attempt that overruns the action's timeout is recorded as a (retryable) timeout failure with the
				// plugin's context cancelled"
				if at.Err == nil || at.Err.Permanent {
					res.Fail("C05/overrun-not-retryable-failure", "%s attempt %d: overrun recorded with err=%v", r.Tag(), k, at.Err)
					return
				}
				if at.Resp != nil && !isNilResp(at.Resp) && !isZeroResp(at.Resp) {
					res.Fail("C05/overrun-has-response", "%s attempt %d: overrun recorded with a response", r.Tag(), k)
					return
				}
				if inv.Exit >= 0 && !inv.ExitCtx {
					res.Fail("C05/overrun-context-not-cancelled", "%s#%d: the plugin's context was not cancelled at the timeout", r.Tag(), inv.N)
					return
				}
			}
		}
	})
}

func isNilResp(v any) bool {
	switch r := v.(type) {
	case nil:
		return true
	case *RespP:
		return r == nil
	case *RespV:
		return r == nil
	}
	return false
}

// isZeroResp: the storage layer decodes attempts into the plugin's empty response object, so an attempt without a
// response reads back as the zero response value; that is not "a stored response".
func isZeroResp(v any) bool {
	switch r := v.(type) {
	case RespV:
		return r == RespV{}
	case *RespP:
		return r == nil || *r == RespP{}
	case *RespV:
		return r == nil || *r == RespV{}
	}
	return false
}

// ---------------------------------------------------------------------------------------------------------------------
// C06 — bypass and pre-check gating

// groupRan reports whether every action of the group was invoked and finished; allOK whether each ended successfully.
func (ix *Index) groupOutcome(refs []Ref) (ran, allOK, anyFailed bool) {
	if len(refs) == 0 {
		return false, false, false
	}
	ran, allOK = true, true
	for _, r := range refs {
		out, fin := lastOutcome(ix.Invs(r))
		if !fin {
			ran, allOK = false, false
			continue
		}
		// the action's own retry budget decides: it failed when its last finished invocation failed
		if !out.EngineSuccess() {
			allOK = false
			anyFailed = true
		}
	}
	return
}

func CheckC06(rr *RunResult, res *vprop.Result) {
	sc := rr.Sc
	if sc.HasOverrun() {
		return
	}
	ix := BuildIndex(rr)
	for pi, pr := range rr.Plans {
		if pr.Final == nil || pr.Stalled {
			continue
		}
		fp := pr.Final
		ps := &sc.Plans[pi]
		if len(fp.Blocks) != len(ps.Blocks) {
			continue
		}
		// ---- plan scope
		var others []Ref
		for gi := 1; gi < 5; gi++ {
			others = append(others, sc.GroupRefs(pi, -1, gi)...)
		}
		var planSeqRefs []Ref
		for bi := range ps.Blocks {
			others = append(others, sc.BlockRefs(pi, bi, true)...)
			for si := range ps.Blocks[bi].Seqs {
				planSeqRefs = append(planSeqRefs, sc.SeqRefs(pi, bi, si)...)
			}
		}
		if ps.Bypass != nil {
			ran, allOK, anyFailed := ix.groupOutcome(sc.GroupRefs(pi, -1, 0))
			if ran && allOK {
				// "If every bypass check of a plan (or block) succeeds, nothing else in that scope is invoked, neither
				// another check group nor any sequence action, and the scope ends Completed"
				if first, _ := ix.span(others); first >= 0 {
					res.Fail("C06/bypassed-plan-ran", "plan p%d: every bypass check succeeded but %s was invoked\n%s", pi, rr.Events[first].Tag, FormatEvents(rr.Events, 40))
					return
				}
				if status(fp.State) != workflow.Completed {
					res.Fail("C06/bypassed-plan-not-completed", "plan p%d: every bypass check succeeded but the plan ended %v: %s", pi, status(fp.State), Describe(fp))
					return
				}
			} else if anyFailed && status(fp.State) == workflow.Failed {
				// "if any bypass check fails the scope runs normally and the bypass failure alone never fails it"
				cause := false
				for gi := 1; gi < 5; gi++ {
					if checksStatus(PlanGroup(fp, gi)) == workflow.Failed {
						cause = true
					}
				}
				for _, b := range fp.Blocks {
					if status(b.State) == workflow.Failed {
						cause = true
					}
				}
				if !cause {
					res.Fail("C06/bypass-failure-failed-plan", "plan p%d ended Failed although only its bypass checks failed: %s", pi, Describe(fp))
					return
				}
			}
		}
		// "If a pre-check, or the initial run of a continuous check, fails, no sequence action of that scope is ever
		// invoked and the scope ends Failed"
		if _, _, preFailed := ix.groupOutcome(sc.GroupRefs(pi, -1, 1)); preFailed || firstContRunFailed(ix, sc.GroupRefs(pi, -1, 2)) {
			if first, _ := ix.span(planSeqRefs); first >= 0 {
				res.Fail("C06/seq-ran-after-failed-precheck", "plan p%d: a pre-check / initial continuous check failed but sequence action %s was invoked\n%s", pi, rr.Events[first].Tag, FormatEvents(rr.Events, 50))
				return
			}
			if status(fp.State) != workflow.Failed {
				res.Fail("C06/failed-precheck-plan-not-failed", "plan p%d: a pre-check / initial continuous check failed but the plan ended %v: %s", pi, status(fp.State), Describe(fp))
				return
			}
		}
		// ---- block scopes
		for bi := range ps.Blocks {
			bs := &ps.Blocks[bi]
			fb := fp.Blocks[bi]
			var bOthers, bSeq []Ref
			for gi := 1; gi < 5; gi++ {
				bOthers = append(bOthers, sc.GroupRefs(pi, bi, gi)...)
			}
			for si := range bs.Seqs {
				bSeq = append(bSeq, sc.SeqRefs(pi, bi, si)...)
			}
			bOthers = append(bOthers, bSeq...)
			if bs.Bypass != nil {
				ran, allOK, anyFailed := ix.groupOutcome(sc.GroupRefs(pi, bi, 0))
				if ran && allOK {
					if first, _ := ix.span(bOthers); first >= 0 {
						res.Fail("C06/bypassed-block-ran", "plan p%d block b%d: every bypass check succeeded but %s was invoked\n%s", pi, bi, rr.Events[first].Tag, FormatEvents(rr.Events, 40))
						return
					}
					if status(fb.State) != workflow.Completed {
						res.Fail("C06/bypassed-block-not-completed", "plan p%d block b%d: every bypass check succeeded but the block ended %v: %s", pi, bi, status(fb.State), Describe(fp))
						return
					}
				} else if anyFailed && status(fb.State) == workflow.Failed && checksStatus(fp.ContChecks) != workflow.Failed {
					cause := false
					for gi := 1; gi < 5; gi++ {
						if checksStatus(BlockGroup(fb, gi)) == workflow.Failed {
							cause = true
						}
					}
					nFailed := 0
					for si := range fb.Sequences {
						if seqFailedFinal(fp, bi, si) {
							nFailed++
						}
					}
					if bs.Tolerated >= 0 && nFailed > bs.Tolerated {
						cause = true
					}
					if !cause {
						res.Fail("C06/bypass-failure-failed-block", "plan p%d block b%d ended Failed although only its bypass checks failed: %s", pi, bi, Describe(fp))
						return
					}
				}
			}
			if _, _, preFailed := ix.groupOutcome(sc.GroupRefs(pi, bi, 1)); preFailed || firstContRunFailed(ix, sc.GroupRefs(pi, bi, 2)) {
				if first, _ := ix.span(bSeq); first >= 0 {
					res.Fail("C06/seq-ran-after-failed-precheck", "plan p%d block b%d: a pre-check / initial continuous check failed but sequence action %s was invoked\n%s", pi, bi, rr.Events[first].Tag, FormatEvents(rr.Events, 50))
					return
				}
				if status(fb.State) != workflow.Failed {
					res.Fail("C06/failed-precheck-block-not-failed", "plan p%d block b%d: a pre-check / initial continuous check failed but the block ended %v: %s", pi, bi, status(fb.State), Describe(fp))
					return
				}
			}
		}
	}
}

// firstContRunFailed: "the initial run of a continuous check" = invocation #1 of an action of the group (Retries 0).
func firstContRunFailed(ix *Index, refs []Ref) bool {
	for _, r := range refs {
		invs := ix.Invs(r)
		if len(invs) > 0 && invs[0].Exit >= 0 && !invs[0].Out.EngineSuccess() {
			return true
		}
	}
	return false
}

// ---------------------------------------------------------------------------------------------------------------------
// C07 — continuous-check failures are never lost; deferred checks run exactly once for entered scopes

func anyRunFailed(ix *Index, refs []Ref) (bool, int) {
	for _, r := range refs {
		for _, inv := range ix.Invs(r) {
			if inv.Exit >= 0 && !inv.Out.EngineSuccess() {
				return true, inv.N
			}
		}
	}
	return false, 0
}

func CheckC07(rr *RunResult, res *vprop.Result) (lateContFail bool, heldRerun bool) {
	sc := rr.Sc
	if sc.HasOverrun() {
		return
	}
	ix := BuildIndex(rr)
	for pi, pr := range rr.Plans {
		if pr.Final == nil || pr.Stalled {
			continue
		}
		fp := pr.Final
		ps := &sc.Plans[pi]
		if len(fp.Blocks) != len(ps.Blocks) {
			continue
		}
		planBypassed := ps.Bypass != nil && checksStatus(fp.BypassChecks) == workflow.Completed
		// "if any run fails the scope ends Failed (with the ContCheck reason at plan level) even when every sequence
		// succeeded"
		if failed, k := anyRunFailed(ix, sc.GroupRefs(pi, -1, 2)); failed {
			if k >= 2 {
				lateContFail = true
			}
			if status(fp.State) != workflow.Failed {
				res.Fail("C07/plan-cont-failure-lost", "plan p%d: run %d of a plan-level continuous check failed but the plan ended %v: %s\n%s", pi, k, status(fp.State), Describe(fp), FormatEvents(rr.Events, 60))
				return
			}
			if fp.Reason != workflow.FRContCheck && !(fp.Reason == workflow.FRPreCheck && checksStatus(fp.PreChecks) == workflow.Failed) {
				res.Fail("C07/plan-cont-failure-reason", "plan p%d: a plan-level continuous check failed (run %d) but the reason is %v: %s", pi, k, fp.Reason, Describe(fp))
				return
			}
		}
		for bi := range ps.Blocks {
			if failed, k := anyRunFailed(ix, sc.GroupRefs(pi, bi, 2)); failed {
				if k >= 2 {
					lateContFail = true
				}
				if status(fp.Blocks[bi].State) != workflow.Failed {
					res.Fail("C07/block-cont-failure-lost", "plan p%d block b%d: run %d of a continuous check failed but the block ended %v: %s\n%s", pi, bi, k, status(fp.Blocks[bi].State), Describe(fp), FormatEvents(rr.Events, 60))
					return
				}
			}
		}
		// "While a plan or block executes, each of its continuous checks keeps being re-run": liveness; the one bounded
		// form that is sound under back-pressure (results are handed over through a channel that is polled only at
		// sequence launches, so the loop may legitimately block on its hand-over) and assumes neither a rate nor a buffer
		// size: the harness holds a sequence action of the scope until every continuous check above it (delay <= 2 ms)
		// has been entered a second time — it was re-run at least once while the scope executed — and gives up only
		// after LongHoldMax (3 s of harness-observed time, >= 1500x the delay). A hold that expired that way without a
		// second run is the violation; like the stall rule it is a "nothing happened although the harness waited"
		// verdict, not a measurement. (Earlier versions demanded three runs within 250 ms: DESIGN §8 item 11.)
		for _, ev := range rr.Events {
			if ev.Kind != EvRelease || ev.Err != LongHoldExpired {
				continue
			}
			ref, ok := ParseTag(ev.Tag)
			if !ok || ref.Plan != pi {
				continue
			}
			for _, scope := range []int{-1, ref.Block} {
				refs := sc.GroupRefs(pi, scope, 2)
				cs := ps.Cont
				if scope >= 0 {
					cs = ps.Blocks[scope].Cont
				}
				if cs == nil || len(refs) == 0 || cs.Delay == 3 {
					continue
				}
				runs := 0
				for _, inv := range ix.Invs(refs[0]) {
					if inv.EnterAt <= int64(ev.At) {
						runs++
					}
				}
				if failed, _ := anyRunFailed(ix, refs); failed {
					continue // the loop legitimately stops at the first failed run
				}
				if runs < 2 {
					name := fmt.Sprintf("plan p%d", pi)
					if scope >= 0 {
						name = fmt.Sprintf("plan p%d block b%d", pi, scope)
					}
					res.Fail("C07/cont-not-rerun", "%s: sequence action %s was held for %v (harness-observed) while the scope executed, but continuous check %s had run only %d time(s)\n%s",
						name, ev.Tag, LongHoldMax, refs[0].Tag(), runs, FormatEvents(rr.Events, 40))
					return
				}
			}
		}
		for _, inv := range ix.All {
			if inv.Ref.Plan == pi && inv.Ref.IsSeq() && inv.Exit >= 0 && sc.Spec(inv.Ref).StepOf(inv.N).Gate >= LongHoldGate {
				heldRerun = true
			}
		}
		// "Deferred checks run exactly once for every plan or block that was entered rather than bypassed, whether it
		// succeeded or failed ... and a deferred-check failure fails the scope"
		type scope struct {
			block    int
			entered  bool
			bypassed bool
			st       workflow.Status
		}
		scopes := []scope{{block: -1, entered: true, bypassed: planBypassed, st: status(fp.State)}}
		for bi, fb := range fp.Blocks {
			bypassed := ps.Blocks[bi].Bypass != nil && checksStatus(fb.BypassChecks) == workflow.Completed
			scopes = append(scopes, scope{block: bi, entered: status(fb.State) != workflow.NotStarted, bypassed: bypassed, st: status(fb.State)})
		}
		for _, s := range scopes {
			refs := sc.GroupRefs(pi, s.block, 4)
			if len(refs) == 0 {
				continue
			}
			name := fmt.Sprintf("plan p%d", pi)
			if s.block >= 0 {
				name = fmt.Sprintf("plan p%d block b%d", pi, s.block)
			}
			for _, r := range refs {
				invs := ix.Invs(r)
				spec := sc.Spec(r)
				if !s.entered || s.bypassed {
					if len(invs) > 0 {
						res.Fail("C07/deferred-ran-in-skipped-scope", "%s was bypassed or never entered but deferred check %s was invoked %d times", name, r.Tag(), len(invs))
						return
					}
					continue
				}
				want, _ := spec.FinalOutcome(1)
				if len(invs) == 0 {
					res.Fail("C07/deferred-not-run", "%s was entered (ended %v) but deferred check %s was never invoked: %s\n%s", name, s.st, r.Tag(), Describe(fp), FormatEvents(rr.Events, 60))
					return
				}
				if len(invs) != want {
					res.Fail("C07/deferred-ran-more-than-once", "%s: deferred check %s was invoked %d times, one run of it makes %d invocations", name, r.Tag(), len(invs), want)
					return
				}
			}
			if _, _, anyFailed := ix.groupOutcome(refs); anyFailed && s.entered && !s.bypassed && s.st != workflow.Failed {
				res.Fail("C07/deferred-failure-lost", "%s: a deferred check failed but the scope ended %v: %s", name, s.st, Describe(fp))
				return
			}
		}
	}
	return
}

// ---------------------------------------------------------------------------------------------------------------------
// C08 — persist-before-act; no visible regress

func CheckC08(rr *RunResult, res *vprop.Result) (midRunPolls int) {
	sc := rr.Sc
	if sc.HasOverrun() {
		return
	}
	ix := BuildIndex(rr)
	// write-end positions per object tag
	type wr struct {
		pos      int
		status   workflow.Status
		attempts int
	}
	writes := map[string][]wr{}
	for i, e := range rr.Events {
		if e.Kind == EvWriteEnd && e.W != nil && !e.W.Create && e.W.Err == nil { // a failed write made nothing durable
			writes[e.W.Tag] = append(writes[e.W.Tag], wr{i, e.W.State.Status, len(e.W.Attempts)})
		}
	}
	durableBefore := func(tag string, pos int, pred func(w wr) bool) bool {
		for _, w := range writes[tag] {
			if w.pos < pos && pred(w) {
				return true
			}
		}
		return false
	}
	sc.EachAction(func(r Ref, a *ActionSpec) {
		if len(res.Violations) > 0 {
			return
		}
		invs := ix.Invs(r)
		for k, inv := range invs {
			prevExit := -1
			if k > 0 {
				prevExit = invs[k-1].Exit
			}
			// "an action is durably Running before its plugin is invoked"
			if !durableBefore(r.Tag(), inv.Enter, func(w wr) bool { return w.status == workflow.Running && w.pos > prevExit }) && (k == 0 || r.IsCont()) {
				res.Fail("C08/invoked-before-durably-running", "%s#%d was invoked at log %d without a completed storage write marking it Running\n%s", r.Tag(), inv.N, inv.Enter, FormatEvents(rr.Events[:inv.Enter+1], 30))
				return
			}
			// "each attempt's result is durable before the next attempt ... begins"
			if k > 0 && !r.IsCont() {
				if !durableBefore(r.Tag(), inv.Enter, func(w wr) bool { return w.attempts >= k }) {
					res.Fail("C08/next-attempt-before-result-durable", "%s#%d was invoked at log %d before attempt %d was durable\n%s", r.Tag(), inv.N, inv.Enter, k, FormatEvents(rr.Events[:inv.Enter+1], 30))
					return
				}
			}
		}
		// "... or the next action begins"
		if r.IsSeq() && r.Act > 0 && len(invs) > 0 {
			prev := Ref{Plan: r.Plan, Block: r.Block, Seq: r.Seq, Act: r.Act - 1}
			n := len(ix.invsBefore(prev, invs[0].Enter))
			if !durableBefore(prev.Tag(), invs[0].Enter, func(w wr) bool { return w.attempts >= n }) {
				res.Fail("C08/next-action-before-result-durable", "%s was invoked at log %d before the %d attempts of %s were durable", r.Tag(), invs[0].Enter, n, prev.Tag())
				return
			}
		}
	})
	if len(res.Violations) > 0 {
		return
	}
	for pi, pr := range rr.Plans {
		if pr.Final == nil || pr.Stalled || pr.WaitRetIdx < 0 {
			continue
		}
		// "the terminal state of the whole plan is durable before any waiter is released"
		ptag := fmt.Sprintf("p%d", pi)
		if !durableBefore(ptag, pr.WaitRetIdx, func(w wr) bool { return w.status == workflow.Completed || w.status == workflow.Failed }) {
			res.Fail("C08/waiter-released-before-terminal-durable", "plan p%d: Wait returned at log %d before a terminal plan state was durable", pi, pr.WaitRetIdx)
			return
		}
		// every object's final state was durable before the release: the last write before wait-return equals the plan read afterwards
		mismatch := ""
		check := func(tag string, st workflow.Status, attempts int) {
			ws := writes[ptag+tag]
			var last *wr
			for i := range ws {
				if ws[i].pos < pr.WaitRetIdx {
					last = &ws[i]
				}
			}
			if mismatch != "" {
				return
			}
			if last == nil {
				if st != workflow.NotStarted {
					mismatch = fmt.Sprintf("%s%s is %v in the final plan but no write of it completed before Wait returned", ptag, tag, st)
				}
				return
			}
			if last.status != st || (attempts >= 0 && last.attempts != attempts) {
				mismatch = fmt.Sprintf("%s%s: last durable write before Wait returned had %v/%d attempts, final plan has %v/%d", ptag, tag, last.status, last.attempts, st, attempts)
			}
		}
		eachState(pr.Final, func(tag string, s *workflow.State) {
			if tag == "plan" {
				check("", status(s), -1)
			}
		})
		for bi, b := range pr.Final.Blocks {
			check(fmt.Sprintf("/b%d", bi), status(b.State), -1)
			for si, s := range b.Sequences {
				check(fmt.Sprintf("/b%d/s%d", bi, si), status(s.State), -1)
				for ai, a := range s.Actions {
					check(fmt.Sprintf("/b%d/s%d/a%d", bi, si, ai), status(a.State), len(a.Attempts))
				}
			}
		}
		if mismatch != "" {
			res.Fail("C08/final-state-not-durable-at-release", "%s\n%s", mismatch, FormatEvents(rr.Events, 40))
			return
		}
		// "a block, sequence or sequence action that was read as Completed or Failed is never later read in any other status"
		seen := map[string]workflow.Status{}
		for k, poll := range pr.Polls {
			if status(poll.State) == workflow.Running {
				midRunPolls++
			}
			bad := ""
			obs := func(tag string, st workflow.Status) {
				if old, ok := seen[tag]; ok && old != st && bad == "" {
					bad = fmt.Sprintf("%s was read as %v and later (poll %d) as %v", tag, old, k, st)
				}
				if st == workflow.Completed || st == workflow.Failed {
					if _, ok := seen[tag]; !ok {
						seen[tag] = st
					}
				}
			}
			for bi, b := range poll.Blocks {
				obs(fmt.Sprintf("b%d", bi), status(b.State))
				for si, s := range b.Sequences {
					obs(fmt.Sprintf("b%d/s%d", bi, si), status(s.State))
					for ai, a := range s.Actions {
						obs(fmt.Sprintf("b%d/s%d/a%d", bi, si, ai), status(a.State))
					}
				}
			}
			if bad != "" {
				res.Fail("C08/visible-regress", "plan p%d: %s", pi, bad)
				return
			}
		}
	}
	return
}
