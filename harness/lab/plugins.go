package lab

import (
	"fmt"
	"runtime"
	"time"

	"github.com/element-of-surprise/coercion/plugins"
	"github.com/element-of-surprise/coercion/plugins/registry"
	"github.com/element-of-surprise/coercion/workflow/context"
	"github.com/gostdlib/base/retry/exponential"

	"verifharness/vprop"
)

// Request / response types of the scripted plugins (plain JSON-serialisable data).
type ReqV struct {
	Tag string
	Pad string
}
type RespV struct {
	Tag string
	N   int
}
type ReqP struct {
	Tag string
	Pad string
}
type RespP struct {
	Tag string
	N   int
}

// RespVU / RespPU are the response types of the "upgraded" plugins (C09: the process that restarts after the crash runs a
// newer plugin release whose response type no longer decodes what the old release stored: N changed from int to string).
type RespVU struct {
	Tag string
	N   string
}
type RespPU struct {
	Tag string
	N   string
}

const (
	PlugAct  = "verif/lab.act"
	PlugActP = "verif/lab.actp"
	PlugChk  = "verif/lab.chk"
	PlugChkP = "verif/lab.chkp"
)

// plug is a scripted plugin: behaviour is looked up by the tag carried in the request.
type plug struct {
	name  string
	check bool
	ptr   bool
	lab   *Lab
	// upgraded: Response() declares (and Execute returns) RespVU / *RespPU
	upgraded bool
}

func (p *plug) Name() string  { return p.name }
func (p *plug) IsCheck() bool { return p.check }
func (p *plug) Init() error   { return nil }
func (p *plug) Request() any {
	if p.ptr {
		return &ReqP{}
	}
	return ReqV{}
}
func (p *plug) Response() any {
	switch {
	case p.upgraded && p.ptr:
		return &RespPU{}
	case p.upgraded:
		return RespVU{}
	case p.ptr:
		return &RespP{}
	}
	return RespV{}
}
func (p *plug) ValidateReq(req any) error {
	if p.ptr {
		r, ok := req.(*ReqP)
		if !ok || r == nil {
			return fmt.Errorf("want *ReqP, got %T", req)
		}
		return nil
	}
	if _, ok := req.(ReqV); !ok {
		return fmt.Errorf("want ReqV, got %T", req)
	}
	return nil
}

// RetryPolicy is fast and deterministic (no jitter); it passes registry.validatePolicy.
func (p *plug) RetryPolicy() exponential.Policy {
	return exponential.Policy{
		InitialInterval:     200 * time.Microsecond,
		Multiplier:          1.5,
		RandomizationFactor: 0,
		MaxInterval:         time.Millisecond,
	}
}

func tagOf(req any) string {
	switch r := req.(type) {
	case ReqV:
		return r.Tag
	case *ReqP:
		if r != nil {
			return r.Tag
		}
	}
	return ""
}

// ErrMsg is the message of the scripted error of invocation n of tag.
func ErrMsg(tag string, n int, depth int) string {
	return fmt.Sprintf("scripted failure %s#%d/%d", tag, n, depth)
}

// ScriptedError builds the *plugins.Error a failing step returns.
func ScriptedError(tag string, n int, st Step) *plugins.Error {
	e := &plugins.Error{Code: plugins.ErrCode(100 + n), Message: ErrMsg(tag, n, 0), Permanent: st.Out == Permanent}
	cur := e
	for d := 1; d <= st.Wrap; d++ {
		w := &plugins.Error{Code: plugins.ErrCode(200 + d), Message: ErrMsg(tag, n, d)}
		cur.Wrapped = w
		cur = w
	}
	return e
}

func (p *plug) Execute(ctx context.Context, req any) (any, *plugins.Error) {
	l := p.lab
	tag := tagOf(req)
	ref, ok := ParseTag(tag)
	if !ok {
		l.note("plugin %s invoked with unknown tag %q (%T)", p.name, tag, req)
		return nil, &plugins.Error{Message: "unknown tag", Permanent: true}
	}
	spec := l.sc.Spec(ref)
	n := l.enter(tag, ref, ctx)
	st := spec.StepOf(n)

	switch lat := latencyClass[st.Lat%len(latencyClass)]; {
	case lat < 0:
		runtime.Gosched()
	case lat > 0:
		time.Sleep(time.Duration(lat) * time.Microsecond)
	}
	if st.Gate > 0 {
		l.park(tag, n, st.Gate)
	}
	if st.Out == Overrun {
		// the guard is the action's timeout (5 s in overrun scenarios) plus a wide margin: if it expires the engine never
		// cancelled the invocation's context, and the exit event below records that (CtxDone=false)
		select {
		case <-ctx.Done():
		case <-time.After(overrunGuard):
			l.note("overrun guard expired for %s#%d: context never cancelled", tag, n)
		}
		if st.Stubborn() {
			// slow to honour the cancellation: keeps executing for stubbornHold of OBSERVED time (a frozen process
			// stretches the hold instead of ending it)
			held, stop := vprop.ObservedAfter(stubbornHold)
			<-held
			stop()
		}
		// answer late (Wrap selects how late): the engine has timed the attempt out and moved on, possibly to the next
		// attempt; the late answer below must never be recorded anywhere
		time.Sleep([...]time.Duration{200 * time.Microsecond, time.Millisecond, 3 * time.Millisecond, 8 * time.Millisecond}[st.Wrap%4])
	}
	l.exit(tag, ref, n, st.Out, ctx)

	if p.upgraded && (st.Out == OK || st.Out == Overrun) {
		if p.ptr {
			return &RespPU{Tag: tag, N: fmt.Sprint(n)}, nil
		}
		return RespVU{Tag: tag, N: fmt.Sprint(n)}, nil
	}
	switch st.Out {
	case OK:
		if p.ptr {
			return &RespP{Tag: tag, N: n}, nil
		}
		return RespV{Tag: tag, N: n}, nil
	case OKNil:
		return nil, nil
	case Overrun:
		// a distinctive, correctly typed late answer: if it ever shows up in an attempt the oracle sees whose it is
		if p.ptr {
			return &RespP{Tag: tag, N: n}, nil
		}
		return RespV{Tag: tag, N: n}, nil
	case RespAndErr, RespAndPermErr:
		e := ScriptedError(tag, n, st)
		e.Permanent = st.Out == RespAndPermErr
		if p.ptr {
			return &RespP{Tag: tag, N: n}, e
		}
		return RespV{Tag: tag, N: n}, e
	case WrongTypeErr:
		e := ScriptedError(tag, n, st)
		return p.wrongTyped(tag, n, st), e
	case WrongType:
		return p.wrongTyped(tag, n, st), nil
	default:
		return nil, ScriptedError(tag, n, st)
	}
}

// wrongTyped returns a response whose type differs from the declared one: another struct type (even Wrap) or the
// declared struct at the other pointer level — *T for a declared T, T for a declared *T (odd Wrap).
func (p *plug) wrongTyped(tag string, n int, st Step) any {
	if st.Wrap%2 == 1 {
		if p.ptr {
			return RespP{Tag: tag, N: n}
		}
		return &RespV{Tag: tag, N: n}
	}
	if p.ptr {
		return RespV{Tag: tag, N: n}
	}
	return &RespP{Tag: tag, N: n}
}

const overrunGuard = 8 * time.Second

// stubbornHold is how long a stubborn overrun keeps executing after its context was cancelled.
const stubbornHold = 2 * time.Second

// newRegistry registers the four scripted plugins. With swap (Scenario.SwapTypes) the two names of each kind exchange
// their request/response types: plugin names are unique within one registry only, and thousands of scenarios with their
// own registries run in one process, so anything the engine remembers per plugin NAME across registries shows.
func (l *Lab) newRegistry(swap bool) *registry.Register { return l.newRegistryUp(swap, false) }

func (l *Lab) newRegistryUp(swap, upgraded bool) *registry.Register {
	reg := registry.New()
	for _, p := range []*plug{
		{name: PlugAct, ptr: swap, lab: l},
		{name: PlugActP, ptr: !swap, lab: l},
		{name: PlugChk, check: true, ptr: swap, lab: l},
		{name: PlugChkP, check: true, ptr: !swap, lab: l},
	} {
		p.upgraded = upgraded
		reg.MustRegister(p)
	}
	return reg
}

// NewUpgradedRegistry returns a registry whose plugins have the same names and request types but an incompatible
// response type (see RespVU).
func NewUpgradedRegistry(sc *Scenario) *registry.Register {
	return (&Lab{}).newRegistryUp(sc != nil && sc.SwapTypes, true)
}
