package lab

import (
	"encoding/json"
	"fmt"
	"github.com/google/uuid"
	"os"
	"os/exec"
	"path/filepath"
	"sort"
	"strings"
	"syscall"
	"time"

	"github.com/element-of-surprise/coercion/workflow"
	"github.com/element-of-surprise/coercion/workflow/context"
	"github.com/element-of-surprise/coercion/workflow/storage/sqlite"

	"verifharness/vprop"
)

// Real-kill cross-validation of the crash emulation (DESIGN §4.3): the test binary re-executes itself as a child that
// runs the scenario on a FILE-BACKED sqlite vault and SIGKILLs itself right after its k-th storage write returned; the
// parent opens the directory with a new vault, starts a Workstream on it and applies the same oracles.

// ChildMain is the body of the child process (entered from TestCrashChild when VERIF_CHILD_CASE is set).
func ChildMain() {
	b, err := os.ReadFile(os.Getenv("VERIF_CHILD_CASE"))
	if err != nil {
		os.Exit(3)
	}
	var sc Scenario
	if err := json.Unmarshal(b, &sc); err != nil {
		os.Exit(3)
	}
	if f := getenvInt("VERIF_CHILD_FAULT"); f > 0 {
		// write-fault run (C08): in-memory store, the f-th storage update fails; the event log goes to a file
		// synchronously because the engine's reaction to a failed write is to exit the process
		evlog, err := os.OpenFile(os.Getenv("VERIF_CHILD_EVLOG"), os.O_CREATE|os.O_WRONLY|os.O_APPEND, 0o644)
		if err != nil {
			os.Exit(3)
		}
		Run(&sc, RunOpts{FailWrite: f, EvLog: evlog, HardLimit: 20 * time.Second, StallWindow: 3 * time.Second})
		os.Exit(0)
	}
	k := getenvInt("VERIF_CHILD_KILL")
	reg := NewRegistry(&sc)
	v, err := sqlite.New(context.Background(), os.Getenv("VERIF_CHILD_DIR"), reg)
	if err != nil {
		os.Exit(4)
	}
	Run(&sc, RunOpts{Vault: v, Reg: reg, KeepOpen: true, OnWriteEnd: func(n int) {
		if n == k {
			_ = syscall.Kill(os.Getpid(), syscall.SIGKILL)
			time.Sleep(time.Hour)
		}
	}})
	os.Exit(0)
}

// durableFromPlans derives the durable snapshot from plans read back from storage.
func durableFromPlans(plans []*workflow.Plan) Durable {
	d := Durable{}
	for pi, p := range plans {
		ptag := fmt.Sprintf("p%d", pi)
		d[ptag] = &DurObj{Status: status(p.State)}
		checks := func(prefix string, c *workflow.Checks, name string) {
			if c == nil {
				return
			}
			d[prefix+"/"+name] = &DurObj{Status: status(c.State)}
			for ai, a := range c.Actions {
				d[fmt.Sprintf("%s/%s/a%d", prefix, name, ai)] = &DurObj{Status: status(a.State), Attempts: a.Attempts}
			}
		}
		for gi, n := range GroupNames {
			checks(ptag, PlanGroup(p, gi), n)
		}
		for bi, b := range p.Blocks {
			bt := fmt.Sprintf("%s/b%d", ptag, bi)
			d[bt] = &DurObj{Status: status(b.State)}
			for gi, n := range GroupNames {
				checks(bt, BlockGroup(b, gi), n)
			}
			for si, s := range b.Sequences {
				st := fmt.Sprintf("%s/s%d", bt, si)
				d[st] = &DurObj{Status: status(s.State)}
				for ai, a := range s.Actions {
					d[fmt.Sprintf("%s/a%d", st, ai)] = &DurObj{Status: status(a.State), Attempts: a.Attempts}
				}
			}
		}
	}
	return d
}

// RealKill runs one real-kill cross-validation. Returns false when it could not be carried out (counted, not judged).
func RealKill(sc *Scenario, k int, ref []*workflow.Plan, which string, res *vprop.Result) bool {
	dir, err := os.MkdirTemp("", "verif-kill-")
	if err != nil {
		return false
	}
	defer os.RemoveAll(dir)
	b, _ := json.Marshal(sc)
	caseFile := filepath.Join(dir, "case.json")
	if os.WriteFile(caseFile, b, 0o644) != nil {
		return false
	}
	dbDir := filepath.Join(dir, "db")
	cmd := exec.Command(os.Args[0], "-test.run", "^TestCrashChild$", "-test.timeout", "120s")
	cmd.Env = append(os.Environ(), "VERIF_CHILD_CASE="+caseFile, "VERIF_CHILD_DIR="+dbDir, fmt.Sprintf("VERIF_CHILD_KILL=%d", k),
		"VERIF_STATS_OUT=", "VERIF_REPLAY=", "VERIF_REPLAY_DIR=", "VERIF_JOURNAL=")
	err = cmd.Run()
	killed := false
	if ee, ok := err.(*exec.ExitError); ok {
		if ws, ok := ee.Sys().(syscall.WaitStatus); ok && ws.Signaled() && ws.Signal() == syscall.SIGKILL {
			killed = true
		}
	}
	if err != nil && !killed {
		return false // the child failed for another reason: not a verdict
	}
	ctx := context.Background()
	reg := NewRegistry(sc)
	v, err := sqlite.New(ctx, dbDir, reg)
	if err != nil {
		res.Fail(which+"/real-kill:store-unusable", "after SIGKILL at write %d the sqlite store could not be reopened: %v", k, err)
		return true
	}
	stream, err := v.List(ctx, 1<<20)
	if err != nil {
		return false
	}
	// the stream is drained before anything else is asked of the vault: a sqlite result stream holds the vault's only
	// connection until its last row has been taken
	var listed []uuid.UUID
	listFailed := false
	for r := range stream {
		if r.Err != nil {
			listFailed = true
			continue
		}
		listed = append(listed, r.Result.ID)
	}
	if listFailed {
		return false
	}
	var plans []*workflow.Plan
	for _, id := range listed {
		p, err := v.Read(ctx, id)
		if err != nil {
			res.Fail(which+"/real-kill:plan-unreadable", "after SIGKILL at write %d plan %s is listed but cannot be read: %v", k, id, err)
			return true
		}
		plans = append(plans, p)
	}
	if len(plans) != len(sc.Plans) {
		return false // killed before every plan was created
	}
	sort.Slice(plans, func(i, j int) bool { return planIndexOf(plans[i]) < planIndexOf(plans[j]) })
	d := durableFromPlans(plans)
	rr := Run(sc, RunOpts{Vault: v, Reg: reg, Recover: true, Pristine: plans})
	if rr.NewErr != nil {
		res.Fail(which+"/real-kill:new-failed", "after SIGKILL at write %d constructing a Workstream failed: %v", k, rr.NewErr)
		return true
	}
	where := fmt.Sprintf("real SIGKILL after storage write %d on a file-backed sqlite store (killed=%v)", k, killed)
	if which == "C09" {
		CheckC09(sc, d, rr, where, res)
	} else {
		CheckC10(sc, d, rr, ref, where, res)
	}
	if killed {
		vprop.Count("real_kills", 1)
	} else {
		vprop.Count("real_kill_child_finished_first", 1)
	}
	return true
}

// WriteFault runs the scenario in a child process in which the k-th storage update fails, and judges the child's event
// log with the persist-before-act rules of C08: "Every state change is durable before the engine acts on it" — a state
// change whose write failed is not durable, so the engine must not act on it (the engine's own answer is to exit).
// Returns false when the run could not be carried out (counted, not judged).
func WriteFault(sc *Scenario, k int, res *vprop.Result) bool {
	dir, err := os.MkdirTemp("", "verif-fault-")
	if err != nil {
		return false
	}
	defer os.RemoveAll(dir)
	b, _ := json.Marshal(sc)
	caseFile := filepath.Join(dir, "case.json")
	if os.WriteFile(caseFile, b, 0o644) != nil {
		return false
	}
	evlog := filepath.Join(dir, "events.jsonl")
	cmd := exec.Command(os.Args[0], "-test.run", "^TestCrashChild$", "-test.timeout", "60s")
	cmd.Env = append(os.Environ(), "VERIF_CHILD_CASE="+caseFile, "VERIF_CHILD_EVLOG="+evlog, fmt.Sprintf("VERIF_CHILD_FAULT=%d", k),
		"VERIF_STATS_OUT=", "VERIF_REPLAY=", "VERIF_REPLAY_DIR=", "VERIF_JOURNAL=")
	_ = cmd.Run() // the exit status is not judged: exiting is the engine's legitimate reaction
	data, err := os.ReadFile(evlog)
	if err != nil {
		return false
	}
	rr := &RunResult{Sc: sc}
	failedAt := -1
	for _, line := range strings.Split(string(data), "\n") {
		if line == "" {
			continue
		}
		var ll LogLine
		if json.Unmarshal([]byte(line), &ll) != nil {
			continue // a torn last line
		}
		e := Event{Kind: ll.K, Tag: ll.Tag, N: ll.N, Out: ll.Out, CtxDone: ll.Ctx, PlanIdx: ll.Plan}
		if ll.K == EvEnter || ll.K == EvExit {
			e.Ref, _ = ParseTag(ll.Tag)
		}
		if ll.K == EvWriteBegin || ll.K == EvWriteEnd {
			w := &WriteRec{Tag: ll.Tag, PlanIdx: ll.Plan, Create: ll.WCreate, Attempts: make([]*workflow.Attempt, ll.WAtt)}
			w.State.Status = ll.WStatus
			if ll.WErr {
				w.Err = fmt.Errorf("injected storage write failure")
				if ll.K == EvWriteEnd && failedAt < 0 {
					failedAt = len(rr.Events)
				}
			}
			e.W = w
		}
		rr.Events = append(rr.Events, e)
	}
	if failedAt < 0 {
		vprop.Count("write_faults_beyond_last_write", 1)
		return false // the run had fewer than k updates
	}
	vprop.Count("write_faults", 1)
	for range sc.Plans {
		rr.Plans = append(rr.Plans, &PlanRun{WaitRetIdx: -1})
	}
	CheckC08(rr, res)
	if len(res.Violations) > 0 {
		v := &res.Violations[len(res.Violations)-1]
		v.Rule += ":after-failed-write"
		v.Msg = fmt.Sprintf("storage update %d (%s %v) failed: %s\n%s", k, rr.Events[failedAt].Tag, rr.Events[failedAt].W.State.Status, v.Msg, FormatEvents(rr.Events, 30))
		return true
	}
	// "the terminal state of the whole plan is durable before any waiter is released" and "every state change is durable
	// before the engine acts on it", judged on the child's log exactly as in a fault-free run: when Wait returns, a
	// terminal plan row must have been stored successfully, and no object of the plan may have a failed write as its
	// latest write. How the engine reacts to the failed write (exit, retry until it is stored, fail the plan) is not
	// prescribed: an earlier version of this rule demanded that the waiter is never released, i.e. that the failure is
	// fatal, which no statement says (DESIGN §8 item 13).
	for i, e := range rr.Events {
		if e.Kind != EvWaitRet || e.Err != "" || e.PlanIdx < 0 {
			continue
		}
		ptag := fmt.Sprintf("p%d", e.PlanIdx)
		termDurable := false
		lastFailed := map[string]int{}
		lastStored := map[string]*DurObj{}
		for j := 0; j < i; j++ {
			w := rr.Events[j]
			if w.Kind != EvWriteEnd || w.W == nil || w.PlanIdx != e.PlanIdx {
				continue
			}
			if w.W.Err != nil {
				// a failed write that would have stored what is already durable for that object (same status, same
				// number of attempts: all the child's log carries) is a redundant rewrite and loses nothing
				if d, ok := lastStored[w.W.Tag]; !ok || d.Status != w.W.State.Status || len(d.Attempts) != len(w.W.Attempts) {
					lastFailed[w.W.Tag] = j
				}
				continue
			}
			delete(lastFailed, w.W.Tag)
			lastStored[w.W.Tag] = &DurObj{Status: w.W.State.Status, Attempts: w.W.Attempts}
			if w.W.Tag == ptag && finished(w.W.State.Status) {
				termDurable = true
			}
		}
		if !termDurable {
			res.Fail("C08/waiter-released-before-terminal-durable:after-failed-write", "storage update %d (%s) failed; Wait on plan p%d returned (log %d) although no terminal plan state had been stored successfully\n%s", k, rr.Events[failedAt].Tag, e.PlanIdx, i, FormatEvents(rr.Events, 30))
			return true
		}
		tags := make([]string, 0, len(lastFailed))
		for tag := range lastFailed {
			tags = append(tags, tag)
		}
		sort.Strings(tags)
		for _, tag := range tags {
			j := lastFailed[tag]
			res.Fail("C08/final-state-not-durable-at-release:after-failed-write", "the latest storage update of %s (%v, log %d) failed and was never stored, yet Wait on plan p%d returned (log %d)\n%s", tag, rr.Events[j].W.State.Status, j, e.PlanIdx, i, FormatEvents(rr.Events, 30))
			return true
		}
	}
	return true
}

// planIndexOf recovers the scenario index of a stored plan from the tag carried by the request of one of its actions
// (names are not used: a scenario may give a plan an unusual name).
func planIndexOf(p *workflow.Plan) int {
	idx := -1
	look := func(as []*workflow.Action) {
		for _, a := range as {
			if idx < 0 && a != nil {
				if r, ok := ParseTag(tagOf(a.Req)); ok {
					idx = r.Plan
				}
			}
		}
	}
	groups := func(cs ...*workflow.Checks) {
		for _, c := range cs {
			if c != nil {
				look(c.Actions)
			}
		}
	}
	groups(p.BypassChecks, p.PreChecks, p.ContChecks, p.PostChecks, p.DeferredChecks)
	for _, b := range p.Blocks {
		groups(b.BypassChecks, b.PreChecks, b.ContChecks, b.PostChecks, b.DeferredChecks)
		for _, sq := range b.Sequences {
			look(sq.Actions)
		}
	}
	return idx
}
