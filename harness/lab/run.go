package lab

import (
	stdctx "context"
	"fmt"
	"os"
	"time"

	coercion "github.com/element-of-surprise/coercion"
	"github.com/element-of-surprise/coercion/plugins/registry"
	"github.com/element-of-surprise/coercion/workflow"
	"github.com/element-of-surprise/coercion/workflow/context"
	"github.com/element-of-surprise/coercion/workflow/storage"
	"github.com/element-of-surprise/coercion/workflow/storage/sqlite"
	"github.com/google/uuid"
)

func (l *Lab) buildAction(r Ref, a *ActionSpec) *workflow.Action {
	tag := r.Tag()
	act := &workflow.Action{Name: "action " + tag, Descr: "scripted action " + tag, Retries: a.Retries}
	if l.sc.Timeout5s {
		act.Timeout = 5 * time.Second
	}
	check := r.Group != ""
	// the plugin NAME that carries the pointer types depends on SwapTypes (see newRegistry)
	pName := a.Ptr != l.sc.SwapTypes
	switch {
	case check && pName:
		act.Plugin = PlugChkP
	case check:
		act.Plugin = PlugChk
	case pName:
		act.Plugin = PlugActP
	default:
		act.Plugin = PlugAct
	}
	if a.Ptr {
		act.Req = &ReqP{Tag: tag, Pad: "pad"}
	} else {
		act.Req = ReqV{Tag: tag, Pad: "pad"}
	}
	return act
}

func (l *Lab) buildChecks(pi, bi, gi int, cs *ChecksSpec) *workflow.Checks {
	if cs == nil {
		return nil
	}
	c := &workflow.Checks{}
	if gi == 2 {
		c.Delay = time.Duration(delayClassNs[cs.Delay%len(delayClassNs)])
	}
	for ai := range cs.Actions {
		c.Actions = append(c.Actions, l.buildAction(Ref{Plan: pi, Block: bi, Group: GroupNames[gi], Seq: -1, Act: ai}, &cs.Actions[ai]))
	}
	return c
}

// BuildPlan constructs the workflow.Plan of plan pi the way a user would (no engine-owned field set).
func (l *Lab) BuildPlan(pi int) *workflow.Plan {
	ps := &l.sc.Plans[pi]
	p := &workflow.Plan{Name: fmt.Sprintf("plan p%d", pi), Descr: "generated plan"}
	if pi == 0 && l.sc.NameKind > 0 {
		p.Name = planNames[l.sc.NameKind%len(planNames)]
	}
	p.BypassChecks = l.buildChecks(pi, -1, 0, ps.Bypass)
	p.PreChecks = l.buildChecks(pi, -1, 1, ps.Pre)
	p.ContChecks = l.buildChecks(pi, -1, 2, ps.Cont)
	p.PostChecks = l.buildChecks(pi, -1, 3, ps.Post)
	p.DeferredChecks = l.buildChecks(pi, -1, 4, ps.Deferred)
	for bi := range ps.Blocks {
		bs := &ps.Blocks[bi]
		b := &workflow.Block{
			Name: fmt.Sprintf("block p%d/b%d", pi, bi), Descr: "generated block",
			Concurrency: bs.Concurrency, ToleratedFailures: bs.Tolerated,
			EntranceDelay: time.Duration(bs.EntranceDelayUs) * time.Microsecond,
			ExitDelay:     time.Duration(bs.ExitDelayUs) * time.Microsecond,
		}
		b.BypassChecks = l.buildChecks(pi, bi, 0, bs.Bypass)
		b.PreChecks = l.buildChecks(pi, bi, 1, bs.Pre)
		b.ContChecks = l.buildChecks(pi, bi, 2, bs.Cont)
		b.PostChecks = l.buildChecks(pi, bi, 3, bs.Post)
		b.DeferredChecks = l.buildChecks(pi, bi, 4, bs.Deferred)
		for si := range bs.Seqs {
			s := &workflow.Sequence{Name: fmt.Sprintf("seq p%d/b%d/s%d", pi, bi, si), Descr: "generated sequence"}
			for ai := range bs.Seqs[si].Actions {
				s.Actions = append(s.Actions, l.buildAction(Ref{Plan: pi, Block: bi, Seq: si, Act: ai}, &bs.Seqs[si].Actions[ai]))
			}
			b.Sequences = append(b.Sequences, s)
		}
		p.Blocks = append(p.Blocks, b)
	}
	return p
}

// registerIDs maps the ids Submit assigned to object tags.
func (l *Lab) registerIDs(pi int, p *workflow.Plan) {
	l.mu.Lock()
	defer l.mu.Unlock()
	ptag := fmt.Sprintf("p%d", pi)
	l.objs[p.ID] = objInfo{tag: ptag, planIdx: pi}
	checks := func(prefix string, c *workflow.Checks, name string) {
		if c == nil {
			return
		}
		cont := name == "cont"
		l.objs[c.ID] = objInfo{tag: prefix + "/" + name, planIdx: pi, cont: cont}
		for ai, a := range c.Actions {
			l.objs[a.ID] = objInfo{tag: fmt.Sprintf("%s/%s/a%d", prefix, name, ai), planIdx: pi, cont: cont}
		}
	}
	checks(ptag, p.BypassChecks, "bypass")
	checks(ptag, p.PreChecks, "pre")
	checks(ptag, p.ContChecks, "cont")
	checks(ptag, p.PostChecks, "post")
	checks(ptag, p.DeferredChecks, "deferred")
	for bi, b := range p.Blocks {
		btag := fmt.Sprintf("%s/b%d", ptag, bi)
		l.objs[b.ID] = objInfo{tag: btag, planIdx: pi}
		checks(btag, b.BypassChecks, "bypass")
		checks(btag, b.PreChecks, "pre")
		checks(btag, b.ContChecks, "cont")
		checks(btag, b.PostChecks, "post")
		checks(btag, b.DeferredChecks, "deferred")
		for si, s := range b.Sequences {
			stag := fmt.Sprintf("%s/s%d", btag, si)
			l.objs[s.ID] = objInfo{tag: stag, planIdx: pi}
			for ai, a := range s.Actions {
				l.objs[a.ID] = objInfo{tag: fmt.Sprintf("%s/a%d", stag, ai), planIdx: pi}
			}
		}
	}
}

// RunOpts tunes a run; the zero value is the default.
type RunOpts struct {
	// StallWindow: a run is declared stalled when a plan is not terminal, nothing the harness controls is pending
	// and no progress event was seen for this long (default 10s, $VERIF_STALL_MS overrides).
	StallWindow time.Duration
	// Grace is how long the runner keeps observing after every Wait returned (default 4ms).
	Grace time.Duration
	// Vault, when non-nil, is used instead of a fresh in-memory sqlite vault (crash lab). reg must be the registry
	// the vault was created with.
	Vault storage.Vault
	Reg   *registry.Register
	// Recover: do not submit/start anything; construct the Workstream on the given vault (which triggers
	// recovery) and wait for the given plan ids.
	Recover    bool
	RecoverIDs []uuid.UUID
	// IDMaps gives, for Recover runs, the id→tag registration source (the pristine plans).
	Pristine []*workflow.Plan
	// Options for coercion.New.
	WSOptions []coercion.Option
	// KeepOpen leaves the vault open (the caller closes it).
	KeepOpen bool
	// OnWriteEnd is called after the n-th durable write.
	OnWriteEnd func(n int)
	// FailWrite > 0 makes the FailWrite-th storage update fail (never applied to the store); EvLog receives the event
	// log line by line (write-fault child runs).
	FailWrite int
	EvLog     *os.File
	// SearchFault > 0: the first Search stream of the vault breaks after SearchFault-1 results (see Lab.searchFault).
	SearchFault int
	// NoWait skips waiting (used by recovery runs where some plans are not expected to be resumed).
	HardLimit time.Duration
}

// PlanRun is what was observed for one plan.
type PlanRun struct {
	ID        uuid.UUID
	SubmitErr error
	StartErr  error
	WaitErr   error
	// Final is the plan returned by Wait; Reread the plan read again after the grace window.
	Final, Reread *workflow.Plan
	// Pristine is a copy of the plan right after Submit returned.
	Pristine *workflow.Plan
	Stalled  bool
	// WaitRetIdx is the log position of the wait-return event (-1 when Wait never returned).
	WaitRetIdx int
	Polls      []*workflow.Plan
}

// RunResult is everything a run observed.
type RunResult struct {
	Sc      *Scenario
	Events  []Event
	Plans   []*PlanRun
	Notes   []string
	Stalled bool
	// NewHung: coercion.New itself never returned (stall rule); Stalled is set too.
	NewHung bool
	// Quiescent is true when at the end nothing was in flight and the log was silent during the grace window.
	Quiescent bool
	NewErr    error
	Vault     storage.Vault
	Reg       *registry.Register
	Lab       *Lab
	WS        *coercion.Workstream
}

func envDur(name string, def time.Duration) time.Duration {
	if v := getenvInt(name); v > 0 {
		return time.Duration(v) * time.Millisecond
	}
	return def
}

// Run executes the scenario on the real engine.
func Run(sc *Scenario, o RunOpts) *RunResult {
	l := newLab(sc)
	l.onWriteEnd = o.OnWriteEnd
	l.failWrite, l.evlog = o.FailWrite, o.EvLog
	l.searchFault = o.SearchFault
	rr := &RunResult{Sc: sc, Lab: l}
	ctx := context.Background()

	if o.StallWindow == 0 {
		o.StallWindow = envDur("VERIF_STALL_MS", 10*time.Second)
	}
	if o.Grace == 0 {
		o.Grace = 4 * time.Millisecond
	}
	if o.HardLimit == 0 {
		o.HardLimit = 120 * time.Second
	}

	reg := o.Reg
	if reg == nil {
		reg = l.newRegistry(sc.SwapTypes)
	} else {
		// plugins registered by an earlier lab instance must talk to this lab
		for p := range reg.Plugins() {
			if sp, ok := p.(*plug); ok {
				sp.lab = l
			}
		}
	}
	inner := o.Vault
	if inner == nil {
		v, err := sqlite.New(ctx, "", reg, sqlite.WithInMemory())
		if err != nil {
			rr.NewErr = err
			return rr
		}
		inner = v
	}
	rec := &RecVault{Vault: inner, lab: l}
	rr.Vault, rr.Reg = inner, reg

	// for recovery runs the ids are known before the Workstream exists
	if o.Recover {
		for pi, p := range o.Pristine {
			l.registerIDs(pi, p)
			pr := &PlanRun{ID: p.ID, Pristine: p, WaitRetIdx: -1}
			rr.Plans = append(rr.Plans, pr)
		}
	}

	stopCtl := make(chan struct{})
	go l.controller(stopCtl)
	defer close(stopCtl)

	// coercion.New runs start-up recovery before it returns; it is watched by the stall rule like everything else
	// ("constructing a new Workstream on the same storage resumes every plan ... without hanging")
	type newRes struct {
		ws  *coercion.Workstream
		err error
	}
	newCh := make(chan newRes, 1)
	go func() {
		ws, err := coercion.New(ctx, reg, rec, o.WSOptions...)
		newCh <- newRes{ws, err}
	}()
	var ws *coercion.Workstream
	newTick := time.NewTicker(time.Millisecond)
waitNew:
	for {
		select {
		case r := <-newCh:
			if r.err != nil {
				newTick.Stop()
				rr.NewErr = r.err
				return rr
			}
			ws = r.ws
			break waitNew
		case <-newTick.C:
			if since, busy := l.quiet(); !busy && since >= o.StallWindow {
				newTick.Stop()
				l.note("coercion.New did not return: no progress for %v (harness-observed) with nothing pending", since)
				rr.NewHung, rr.Stalled = true, true
				for _, pr := range rr.Plans {
					pr.Stalled = true
				}
				rr.Events = l.snapshotEvents()
				rr.Notes = append([]string(nil), l.notes...)
				return rr
			}
		}
	}
	newTick.Stop()
	rr.WS = ws

	if !o.Recover {
		for pi := range sc.Plans {
			plan := l.BuildPlan(pi)
			pr := &PlanRun{WaitRetIdx: -1}
			rr.Plans = append(rr.Plans, pr)
			id, err := ws.Submit(ctx, plan)
			l.api(EvSubmitRet, pi, err)
			if err != nil {
				pr.SubmitErr = err
				continue
			}
			pr.ID = id
			// ids are taken from the STORED plan, read with the id Submit returned: that Submit also writes them into
			// the caller's object is an implementation detail ("Using the Plan object after submitting it results in
			// undefined behavior")
			if stored, rerr := ws.Plan(ctx, id); rerr == nil && stored != nil {
				plan = stored
			}
			l.registerIDs(pi, plan)
			pr.Pristine = CopyPlan(plan)
		}
		for pi, pr := range rr.Plans {
			if pr.SubmitErr != nil {
				continue
			}
			sctx, cancelStart := stdctx.WithCancel(ctx)
			err := ws.Start(sctx, pr.ID)
			l.api(EvStartRet, pi, err)
			pr.StartErr = err
			switch {
			case sc.CancelStartUs < 0:
				cancelStart()
			case sc.CancelStartUs > 0:
				time.AfterFunc(time.Duration(sc.CancelStartUs)*time.Microsecond, cancelStart)
			default:
				defer cancelStart()
			}
		}
	}

	// waiters
	type waitRes struct {
		pi   int
		plan *workflow.Plan
		err  error
		idx  int
	}
	waitCtx, cancelWaits := stdctx.WithCancel(ctx)
	defer cancelWaits()
	results := make(chan waitRes, len(rr.Plans))
	pending := 0
	for pi, pr := range rr.Plans {
		if pr.SubmitErr != nil || pr.StartErr != nil {
			continue
		}
		pending++
		go func(pi int, id uuid.UUID) {
			p, err := ws.Wait(waitCtx, id)
			l.mu.Lock()
			idx := len(l.events)
			e := Event{Kind: EvWaitRet, PlanIdx: pi, At: time.Since(l.start)}
			if err != nil {
				e.Err = " err=" + err.Error()
			}
			l.add(e)
			l.progressed()
			l.mu.Unlock()
			results <- waitRes{pi: pi, plan: p, err: err, idx: idx}
		}(pi, pr.ID)
	}

	// poller
	stopPoll := make(chan struct{})
	pollDone := make(chan struct{})
	if sc.PollUs > 0 && !o.Recover {
		go func() {
			defer close(pollDone)
			t := time.NewTicker(time.Duration(sc.PollUs) * time.Microsecond)
			defer t.Stop()
			for {
				select {
				case <-stopPoll:
					return
				case <-t.C:
				}
				for _, pr := range rr.Plans {
					if pr.SubmitErr != nil {
						continue
					}
					if len(pr.Polls) >= 400 {
						continue
					}
					if p, err := ws.Plan(ctx, pr.ID); err == nil {
						pr.Polls = append(pr.Polls, p)
					}
				}
			}
		}()
	} else {
		close(pollDone)
	}

	began := time.Now()
	tick := time.NewTicker(500 * time.Microsecond)
	for pending > 0 {
		select {
		case r := <-results:
			pending--
			pr := rr.Plans[r.pi]
			pr.Final, pr.WaitErr, pr.WaitRetIdx = r.plan, r.err, r.idx
		case <-tick.C:
			since, busy := l.quiet()
			if (!busy && since >= o.StallWindow) || time.Since(began) > o.HardLimit {
				rr.Stalled = true
				if busy || since < o.StallWindow {
					l.note("hard limit %v reached (busy=%v quiet=%v): inconclusive, not a stall", o.HardLimit, busy, since)
				}
				pendingNow := pending
				cancelWaits()
				for pendingNow > 0 {
					r := <-results
					pendingNow--
					pr := rr.Plans[r.pi]
					pr.Stalled = true
					pr.WaitErr = r.err
					pr.WaitRetIdx = -1
				}
				pending = 0
			}
		}
	}
	tick.Stop()
	close(stopPoll)
	<-pollDone

	// grace window: keep observing, then read every plan again
	before := len(l.snapshotEvents())
	deadline := time.Now().Add(o.Grace)
	for time.Now().Before(deadline) {
		time.Sleep(500 * time.Microsecond)
	}
	// let stragglers the harness can see finish (bounded) so that their events are in the log
	stragglers := 400
	if sc.HasStubborn() {
		stragglers = 12000 // a stubborn overrun returns stubbornHold (2 s) after its deadline
	}
	for i := 0; i < stragglers && l.openTotal() > 0 && !rr.Stalled; i++ {
		time.Sleep(500 * time.Microsecond)
	}
	for _, pr := range rr.Plans {
		if pr.SubmitErr != nil {
			continue
		}
		if p, err := ws.Plan(ctx, pr.ID); err == nil {
			pr.Reread = p
		}
	}
	rr.Events = l.snapshotEvents()
	rr.Notes = append([]string(nil), l.notes...)
	rr.Quiescent = !rr.Stalled && l.openTotal() == 0 && len(rr.Events) == before
	if !o.KeepOpen && rr.Quiescent {
		_ = inner.Close(ctx)
	}
	return rr
}

// FormatEvents renders (the tail of) the log for failure messages.
func FormatEvents(evs []Event, max int) string {
	if n := getenvInt("VERIF_EVENTS"); n > 0 {
		max = n
	}
	s := ""
	from := 0
	if len(evs) > max {
		from = len(evs) - max
		s = fmt.Sprintf("... %d earlier events\n", from)
	}
	for i := from; i < len(evs); i++ {
		s += fmt.Sprintf("%4d %s\n", i, evs[i].String())
	}
	return s
}
