// Package lab is the engine lab: plain-data scenarios, scripted plugins, a recording vault, a linearised event log,
// a gate controller that owns the completion order of gated plugin invocations, a runner that drives the real engine
// through its public API, and the history oracles of C01–C08.
package lab

import (
	"fmt"
	"strings"
)

// Outcome of one scripted plugin invocation.
type Outcome int

const (
	OK        Outcome = 0 // typed response, no error
	OKNil     Outcome = 1 // nil response, no error
	Transient Outcome = 2 // *plugins.Error, not permanent
	Permanent Outcome = 3 // *plugins.Error, permanent
	WrongType Outcome = 4 // a response whose type differs from the plugin's declared response type
	Overrun   Outcome = 5 // blocks until the invocation's context is done (the action's timeout), then answers late
	// WrongTypeErr: a response whose type differs from the declared one TOGETHER with a transient error.
	WrongTypeErr Outcome = 6
	// RespAndErr: a response of the DECLARED type together with a transient error (the error wins: the attempt failed).
	RespAndErr Outcome = 7
	// RespAndPermErr: the same with a permanent error.
	RespAndPermErr Outcome = 8
)

func (o Outcome) String() string {
	return [...]string{"ok", "ok-nil", "transient", "permanent", "wrong-type", "overrun", "wrong-type+error", "response+transient", "response+permanent"}[o]
}

// EngineSuccess reports whether the engine must treat the invocation as a successful attempt.
func (o Outcome) EngineSuccess() bool { return o == OK || o == OKNil }

// Latency classes of a step.
var latencyClass = [...]int{0, -1, 50, 300, 1000, 10000} // µs; -1 = runtime.Gosched; the last one only after an overrun

// Step is the scripted behaviour of one invocation of an action's plugin.
type Step struct {
	Out Outcome
	// Lat indexes latencyClass.
	Lat int
	// Gate > 0 parks the invocation at entry until the gate controller releases it; lower values are released first.
	Gate int
	// Wrap is the depth of the wrapped error chain for failing outcomes (0..3).
	Wrap int
}

// ActionSpec describes one action. The i-th invocation (1-based) of the action's plugin behaves like
// Script[min(i, len(Script))-1]. For continuous checks the invocation number is the run number (Retries is 0 there).
type ActionSpec struct {
	Retries int
	// Ptr selects the plugin with pointer-typed request/response.
	Ptr    bool
	Script []Step
}

// ChecksSpec describes a checks group. Delay indexes delayClass (continuous checks only).
type ChecksSpec struct {
	Actions []ActionSpec
	Delay   int
}

var delayClassNs = [...]int64{0, 200_000, 2_000_000, 3_600_000_000_000, -1_000_000_000} // 0 (engine uses 1ns), 200µs, 2ms, 1h, -1s (treated like 0)

type SeqSpec struct {
	Actions []ActionSpec
}

type BlockSpec struct {
	Bypass, Pre, Cont, Post, Deferred *ChecksSpec
	Seqs                              []SeqSpec
	// Concurrency 0 means unset.
	Concurrency int
	Tolerated   int
	// EntranceDelayUs / ExitDelayUs in microseconds.
	EntranceDelayUs, ExitDelayUs int
}

type PlanSpec struct {
	Bypass, Pre, Cont, Post, Deferred *ChecksSpec
	Blocks                            []BlockSpec
}

// Scenario is the unit of generation, shrinking and replay.
type Scenario struct {
	Plans []PlanSpec
	// PollUs is the poll cadence of the concurrent reader in µs (0: no poller).
	PollUs int
	// WriteLatUs delays every storage write by that many µs (widens race windows).
	WriteLatUs int
	// Timeout5s makes every action use the minimum timeout (5s) instead of the default; needed for overrun scripts.
	Timeout5s bool
	// CancelStartUs != 0: the context handed to Start is cancelled that many µs after Start returned (< 0: at once).
	// "Cancelling the Context will not Stop execution" (doc of Start), so nothing observable may change.
	CancelStartUs int
	// SwapTypes exchanges the request/response types of the two plugin names of each kind in this scenario's registry
	// (see newRegistry): the same plugin name has different declared types in different scenarios of one process.
	SwapTypes bool `json:",omitempty"`
	// NameKind != 0 gives plan p0 an unusual name (see planNames): names Submit refuses make the plan drop out (label),
	// names it accepts must execute like any other ("when waiting on a started plan returns, the stored plan is
	// Completed or Failed").
	NameKind int `json:",omitempty"`
	// RecoverPermille > 0 (used by C02 only): after the run the process "crashes" at that prefix of the committed write
	// log and a new Workstream recovers on the rebuilt store; the concurrency bound is judged on the recovery run too
	// ("At every instant ...").
	RecoverPermille int `json:",omitempty"`
}

// planNames[NameKind]: non-ASCII white space only, mixed Unicode blanks, ASCII blanks, non-ASCII text, padded, long.
var planNames = [...]string{"", "\u00a0", "\u2003\u3000\u2028", " \t ", "名前 ✓ план", "  padded  ", "long-" + strings.Repeat("n", 300)}

func (c *ChecksSpec) groups() []ActionSpec {
	if c == nil {
		return nil
	}
	return c.Actions
}

// Group names in execution order.
var GroupNames = [...]string{"bypass", "pre", "cont", "post", "deferred"}

func (p *PlanSpec) Group(i int) *ChecksSpec {
	return [...]*ChecksSpec{p.Bypass, p.Pre, p.Cont, p.Post, p.Deferred}[i]
}

func (b *BlockSpec) Group(i int) *ChecksSpec {
	return [...]*ChecksSpec{b.Bypass, b.Pre, b.Cont, b.Post, b.Deferred}[i]
}

// Ref identifies an action (or a scope) inside a scenario. Tags are "p0/b1/s2/a0" (sequence action),
// "p0/pre/a1" (plan-level check action) and "p0/b1/cont/a0" (block-level check action).
type Ref struct {
	Plan  int
	Block int    // -1: plan level
	Group string // "" for sequence actions
	Seq   int    // -1 for check actions
	Act   int
}

func (r Ref) Tag() string {
	var sb strings.Builder
	fmt.Fprintf(&sb, "p%d", r.Plan)
	if r.Block >= 0 {
		fmt.Fprintf(&sb, "/b%d", r.Block)
	}
	if r.Group != "" {
		fmt.Fprintf(&sb, "/%s", r.Group)
	} else {
		fmt.Fprintf(&sb, "/s%d", r.Seq)
	}
	fmt.Fprintf(&sb, "/a%d", r.Act)
	return sb.String()
}

func (r Ref) IsSeq() bool  { return r.Group == "" }
func (r Ref) IsCont() bool { return r.Group == "cont" }

// ParseTag is the inverse of Ref.Tag.
func ParseTag(tag string) (Ref, bool) {
	r := Ref{Block: -1, Seq: -1}
	parts := strings.Split(tag, "/")
	if len(parts) < 3 {
		return r, false
	}
	if _, err := fmt.Sscanf(parts[0], "p%d", &r.Plan); err != nil {
		return r, false
	}
	i := 1
	if strings.HasPrefix(parts[i], "b") && len(parts) == 4 {
		if _, err := fmt.Sscanf(parts[i], "b%d", &r.Block); err != nil {
			return r, false
		}
		i++
	}
	if len(parts) != i+2 {
		return r, false
	}
	g := parts[i]
	switch g {
	case "bypass", "pre", "cont", "post", "deferred":
		r.Group = g
	default:
		if _, err := fmt.Sscanf(g, "s%d", &r.Seq); err != nil {
			return r, false
		}
	}
	if _, err := fmt.Sscanf(parts[i+1], "a%d", &r.Act); err != nil {
		return r, false
	}
	return r, true
}

// Spec returns the ActionSpec the ref points to.
func (s *Scenario) Spec(r Ref) *ActionSpec {
	p := &s.Plans[r.Plan]
	var cs *ChecksSpec
	if r.Block < 0 {
		for i, n := range GroupNames {
			if n == r.Group {
				cs = p.Group(i)
			}
		}
		return &cs.Actions[r.Act]
	}
	b := &p.Blocks[r.Block]
	if r.Group == "" {
		return &b.Seqs[r.Seq].Actions[r.Act]
	}
	for i, n := range GroupNames {
		if n == r.Group {
			cs = b.Group(i)
		}
	}
	return &cs.Actions[r.Act]
}

// StepOf returns the scripted step of the n-th (1-based) invocation.
func (a *ActionSpec) StepOf(n int) Step {
	if len(a.Script) == 0 {
		return Step{}
	}
	if n > len(a.Script) {
		st := a.Script[len(a.Script)-1]
		st.Gate = 0
		return st
	}
	if n < 1 {
		n = 1
	}
	return a.Script[n-1]
}

// FinalOutcome is the engine-level outcome of running the action once with its retry budget from invocation `from`
// (1-based): the number of invocations the engine must make and whether the action ends successful.
func (a *ActionSpec) FinalOutcome(from int) (invocations int, success bool) {
	retries := a.Retries
	if retries < 0 {
		retries = 0
	}
	for i := 0; i <= retries; i++ {
		st := a.StepOf(from + i)
		invocations++
		switch st.Out {
		case OK, OKNil:
			return invocations, true
		case Permanent, WrongType, WrongTypeErr, RespAndPermErr:
			return invocations, false
		}
	}
	return invocations, false
}

// Stubborn: an overrunning invocation (Wrap >= 4) that keeps executing for stubbornHold of observed time AFTER its context
// was cancelled — a plugin that is slow to honour (or ignores) cancellation.
func (st Step) Stubborn() bool { return st.Out == Overrun && st.Wrap >= 4 }

// HasStubborn reports whether any scripted step is a stubborn overrun.
func (s *Scenario) HasStubborn() bool {
	found := false
	s.EachAction(func(r Ref, a *ActionSpec) {
		for _, st := range a.Script {
			if st.Stubborn() {
				found = true
			}
		}
	})
	return found
}

// HasOverrun reports whether any scripted step overruns its timeout.
func (s *Scenario) HasOverrun() bool {
	found := false
	s.EachAction(func(r Ref, a *ActionSpec) {
		for _, st := range a.Script {
			if st.Out == Overrun {
				found = true
			}
		}
	})
	return found
}

// EachAction visits every action of the scenario in declaration (= execution) order.
func (s *Scenario) EachAction(f func(r Ref, a *ActionSpec)) {
	for pi := range s.Plans {
		p := &s.Plans[pi]
		checks := func(block int, gi int, cs *ChecksSpec) {
			if cs == nil {
				return
			}
			for ai := range cs.Actions {
				f(Ref{Plan: pi, Block: block, Group: GroupNames[gi], Seq: -1, Act: ai}, &cs.Actions[ai])
			}
		}
		for gi := 0; gi < 3; gi++ {
			checks(-1, gi, p.Group(gi))
		}
		for bi := range p.Blocks {
			b := &p.Blocks[bi]
			for gi := 0; gi < 3; gi++ {
				checks(bi, gi, b.Group(gi))
			}
			for si := range b.Seqs {
				for ai := range b.Seqs[si].Actions {
					f(Ref{Plan: pi, Block: bi, Seq: si, Act: ai}, &b.Seqs[si].Actions[ai])
				}
			}
			for gi := 3; gi < 5; gi++ {
				checks(bi, gi, b.Group(gi))
			}
		}
		for gi := 3; gi < 5; gi++ {
			checks(-1, gi, p.Group(gi))
		}
	}
}
