package lab

import (
	"fmt"
	"testing"
	"time"
)

func TestSmoke(t *testing.T) {
	ok := []Step{{Out: OK}}
	sc := &Scenario{Plans: []PlanSpec{{
		Pre:      &ChecksSpec{Actions: []ActionSpec{{Script: ok}}},
		Cont:     &ChecksSpec{Actions: []ActionSpec{{Script: ok}}, Delay: 1},
		Post:     &ChecksSpec{Actions: []ActionSpec{{Script: ok}}},
		Deferred: &ChecksSpec{Actions: []ActionSpec{{Script: ok}}},
		Blocks: []BlockSpec{{
			Pre:         &ChecksSpec{Actions: []ActionSpec{{Script: ok, Ptr: true}}},
			Cont:        &ChecksSpec{Actions: []ActionSpec{{Script: ok}}, Delay: 1},
			Concurrency: 2,
			Seqs: []SeqSpec{
				{Actions: []ActionSpec{{Script: []Step{{Out: OK, Gate: 2}}}, {Script: ok}}},
				{Actions: []ActionSpec{{Retries: 2, Script: []Step{{Out: Transient, Gate: 1}, {Out: OK}}}}},
				{Actions: []ActionSpec{{Script: ok, Ptr: true}}},
			},
		}},
	}}}
	t0 := time.Now()
	rr := Run(sc, RunOpts{})
	fmt.Println("took", time.Since(t0), "stalled", rr.Stalled, "quiescent", rr.Quiescent, "newerr", rr.NewErr)
	fmt.Print(FormatEvents(rr.Events, 400))
	for _, pr := range rr.Plans {
		fmt.Println(pr.SubmitErr, pr.StartErr, pr.WaitErr, pr.Final != nil)
		if pr.Final != nil {
			fmt.Println(pr.Final.State.Status, pr.Final.Reason)
		}
	}
}
