package lab

import (
	"fmt"
	"sync"
	"time"

	coercion "github.com/element-of-surprise/coercion"
	"github.com/element-of-surprise/coercion/workflow"
	"github.com/element-of-surprise/coercion/workflow/context"
	"github.com/element-of-surprise/coercion/workflow/storage"

	"verifharness/vprop"
)

// C11: only live Running plans are resumed; stale ones are closed; others untouched.

const (
	ClassNotStarted = 0 // submitted, never started
	ClassTerminal   = 1 // executed to the end (Completed or Failed)
	ClassRunning    = 2 // durably Running at a prefix of its own writes
)

// Age classes relative to the configured maximum (1h): the boundary itself is a wall-clock comparison inside the
// engine, so ±30s margins are used instead of the instant.
var ageShift = [...]time.Duration{0, time.Hour - 30*time.Second, time.Hour + 30*time.Second, 10 * time.Hour, 10 * time.Hour, 10 * time.Hour}

// AgeStartsOnly: every Start time of the plan and of all its objects is shifted by 10*max and every End time of an
// object stays fresh: "long objects" (attempts are aged as a whole, Start and End, so that the verdict does not depend
// on whether attempt times count as activity). The most recent recorded activity is the freshest End, so the plan must
// be resumed as soon as one object's End time is durable.
const AgeStartsOnly = 5

// AgePlanRowOnly: only the plan object's own times are shifted (by 10*max); every other object keeps its fresh times,
// so the plan's "most recent recorded activity" is fresh and it must be resumed.
const AgePlanRowOnly = 4

const MaxLastUpdate = time.Hour

type StorePlan struct {
	Class int
	// Prefix (permille) selects, for ClassRunning, how many of the plan's own writes are durable.
	Prefix int
	// Age indexes ageShift.
	Age int
}

type StoreCase struct {
	Sc         Scenario
	Plans      []StorePlan
	NoRecovery bool
	// FaultAt > 0: the FaultAt-th storage update of the first start-up fails (see RunStoreCase).
	FaultAt int
	// OptOrder varies the option list handed to coercion.New without changing what it means: OptOrder%3 adds
	// WithMaxSubmit (1: 2 s, 2: 100 h; it concerns Start, not recovery), (OptOrder/3)%2 puts WithMaxLastUpdate last
	// instead of first (WithNoRecovery, when drawn, goes with the others).
	OptOrder int `json:",omitempty"`
	// NeedsRecovery: the store is handed to coercion.New behind a vault that implements storage.Recovery ("a Vault that
	// must do some recovery operation before it can be used after a failure or restart") and that, until its Recovery
	// has run, still lists every terminal plan of the store as Running in a status search — the way the cosmosdb vault's
	// separately written search entries lag behind the plan documents after a crash.
	NeedsRecovery bool `json:",omitempty"`
}

// needsRecoveryVault is the vault of the NeedsRecovery class.
type needsRecoveryVault struct {
	storage.Vault
	mu        sync.Mutex
	recovered bool
	stale     []storage.ListResult
	served    int
}

func (v *needsRecoveryVault) Recovery(ctx context.Context) error {
	v.mu.Lock()
	v.recovered = true
	v.mu.Unlock()
	if r, ok := v.Vault.(storage.Recovery); ok {
		return r.Recovery(ctx)
	}
	return nil
}

func (v *needsRecoveryVault) Search(ctx context.Context, f storage.Filters) (chan storage.Stream[storage.ListResult], error) {
	ch, err := v.Vault.Search(ctx, f)
	wantsRunning := false
	for _, st := range f.ByStatus {
		if st == workflow.Running {
			wantsRunning = true
		}
	}
	v.mu.Lock()
	recovered := v.recovered
	v.mu.Unlock()
	if err != nil || recovered || !wantsRunning || len(f.ByIDs)+len(f.ByGroupIDs) > 0 || len(v.stale) == 0 {
		return ch, err
	}
	out := make(chan storage.Stream[storage.ListResult], 1)
	go func() {
		defer close(out)
		for _, e := range v.stale {
			out <- storage.Stream[storage.ListResult]{Result: e}
		}
		for r := range ch {
			out <- r
		}
	}()
	v.mu.Lock()
	v.served++
	v.mu.Unlock()
	return out, nil
}

func shiftState(s *workflow.State, d time.Duration) {
	if s == nil {
		return
	}
	if !s.Start.IsZero() {
		s.Start = s.Start.Add(-d)
	}
	if !s.End.IsZero() {
		s.End = s.End.Add(-d)
	}
}

func shiftWrite(w *WriteRec, d time.Duration) *WriteRec {
	c := *w
	shiftState(&c.State, d)
	c.Attempts = CopyAttempts(w.Attempts)
	for _, a := range c.Attempts {
		if a == nil {
			continue
		}
		if !a.Start.IsZero() {
			a.Start = a.Start.Add(-d)
		}
		if !a.End.IsZero() {
			a.End = a.End.Add(-d)
		}
	}
	if w.Create {
		c.Plan = CopyPlan(w.Plan)
		c.Plan.SubmitTime = c.Plan.SubmitTime.Add(-d)
	}
	return &c
}

// RunStoreCase builds the store and restarts a Workstream on it.
func RunStoreCase(c *StoreCase, res *vprop.Result) {
	sc := &c.Sc
	rr0 := Run(sc, RunOpts{})
	if rr0.NewErr != nil || rr0.Stalled {
		res.Skip = true
		return
	}
	all := DurableWrites(rr0)
	// per plan: its own writes in commit order
	per := make([][]*WriteRec, len(sc.Plans))
	creates := 0
	for _, w := range all {
		pi := w.PlanIdx
		if w.Create { // ids are registered only after Submit returned: plans are created in index order
			pi = creates
			creates++
		}
		if pi >= 0 && pi < len(per) {
			per[pi] = append(per[pi], w)
		}
	}
	var kept []*WriteRec
	type expect struct {
		class   int
		stale   bool
		durable workflow.Status
	}
	exp := make([]expect, len(sc.Plans))
	for pi, ws := range per {
		sp := c.Plans[pi]
		if len(ws) == 0 || !ws[0].Create {
			res.Skip = true
			return
		}
		n := 1
		ptag := fmt.Sprintf("p%d", pi)
		switch sp.Class {
		case ClassTerminal:
			n = len(ws)
		case ClassRunning:
			// the prefixes after which the plan row is durably Running
			first, last := -1, -1
			st := workflow.NotStarted
			for i, w := range ws {
				if w.Tag == ptag && !w.Create {
					st = w.State.Status
				}
				if st == workflow.Running {
					if first < 0 {
						first = i + 1
					}
					last = i + 1
				}
			}
			if first < 0 {
				res.Skip = true
				return
			}
			n = first + sp.Prefix*(last-first)/1000
		}
		age := sp.Age % len(ageShift)
		d := ageShift[age]
		for _, w := range ws[:n] {
			switch {
			case age == AgeStartsOnly:
				c := *w
				if !c.State.Start.IsZero() {
					c.State.Start = c.State.Start.Add(-d)
				}
				c.Attempts = CopyAttempts(w.Attempts)
				for _, a := range c.Attempts {
					// attempts are aged as a whole (Start and End): whether an attempt's End counts as "recorded
					// activity" of the plan is not decided by the statement (the engine looks at object states only), so
					// the class must not contain plans whose only fresh time stamp is an attempt's End
					if a != nil && !a.Start.IsZero() {
						a.Start = a.Start.Add(-d)
					}
					if a != nil && !a.End.IsZero() {
						a.End = a.End.Add(-d)
					}
				}
				if w.Create {
					c.Plan = CopyPlan(w.Plan)
					c.Plan.SubmitTime = c.Plan.SubmitTime.Add(-d)
				}
				kept = append(kept, &c)
			case age != AgePlanRowOnly:
				kept = append(kept, shiftWrite(w, d))
			case w.Create:
				c := *w
				c.Plan = CopyPlan(w.Plan)
				c.Plan.SubmitTime = c.Plan.SubmitTime.Add(-d)
				kept = append(kept, &c)
			case w.Tag == ptag:
				kept = append(kept, shiftWrite(w, d))
			default:
				kept = append(kept, w)
			}
		}
		snap := SnapshotAt(ws[:n])
		stale := age == 2 || age == 3
		if age == AgePlanRowOnly {
			// fresh activity needs at least one durable write of an object other than the plan row; otherwise the plan
			// row's (old) start is the most recent activity and the plan is legitimately stale
			lastTimed := map[string]bool{}
			for _, w := range ws[:n] {
				if !w.Create && w.Tag != ptag {
					lastTimed[w.Tag] = !w.State.Start.IsZero() || !w.State.End.IsZero()
				}
			}
			other := false
			for _, v := range lastTimed {
				other = other || v
			}
			stale = !other
		}
		if age == AgeStartsOnly {
			// what counts is the durable state: the LAST write of each object (a later write may have cleared an End)
			lastEnd := map[string]bool{}
			for _, w := range ws[:n] {
				if !w.Create {
					lastEnd[w.Tag] = !w.State.End.IsZero()
				}
			}
			anyEnd := false
			for _, v := range lastEnd {
				anyEnd = anyEnd || v
			}
			stale = !anyEnd
		}
		exp[pi] = expect{class: sp.Class, stale: stale, durable: snap.status(ptag)}
	}
	reg := NewRegistry(sc)
	v, created, err := RebuildVault(reg, kept)
	if err != nil || len(created) != len(sc.Plans) {
		res.Skip = true
		res.Label("rebuild-failed")
		return
	}
	ctx := context.Background()
	before := make([]*workflow.Plan, len(created))
	for i, p := range created {
		before[i], err = v.Read(ctx, p.ID)
		if err != nil {
			res.Skip = true
			return
		}
	}
	if c.NeedsRecovery && c.FaultAt == 0 {
		nv := &needsRecoveryVault{Vault: v}
		for i, p := range created {
			if b := before[i]; b != nil && finished(status(b.State)) {
				st := workflow.State{Status: workflow.Running, Start: b.State.Start}
				nv.stale = append(nv.stale, storage.ListResult{ID: p.ID, GroupID: b.GroupID, Name: b.Name, Descr: b.Descr, SubmitTime: b.SubmitTime, State: &st})
			}
		}
		if len(nv.stale) > 0 {
			res.Label("vault-needs-recovery:terminal-plan-listed-running-until-repaired")
			v = nv
		}
	}
	var others []coercion.Option
	switch c.OptOrder % 3 {
	case 1:
		others = append(others, coercion.WithMaxSubmit(2*time.Second))
	case 2:
		others = append(others, coercion.WithMaxSubmit(100*time.Hour))
	}
	if c.NoRecovery {
		others = append(others, coercion.WithNoRecovery())
	}
	opts := append([]coercion.Option{coercion.WithMaxLastUpdate(MaxLastUpdate)}, others...)
	if (c.OptOrder/3)%2 == 1 {
		opts = append(others, coercion.WithMaxLastUpdate(MaxLastUpdate))
	}
	if c.FaultAt > 0 && !c.NoRecovery {
		// write-fault variant: only when every Running plan is stale (then all writes of the first start-up are the
		// closing writes, whose failure the engine survives); the FaultAt-th update of that start-up fails; a second,
		// healthy start-up follows. Judged with the weak, fault-tolerant reading only: in the end no plan that is
		// terminal holds anything Running, and no initially Running plan is left Running.
		for _, e := range exp {
			if e.durable == workflow.Running && !e.stale {
				c.FaultAt = 0
			}
		}
	}
	if c.FaultAt > 0 && !c.NoRecovery {
		res.Label("write-fault-while-closing-stale-plans")
		rr1 := Run(sc, RunOpts{Vault: v, Reg: reg, Recover: true, Pristine: created, WSOptions: opts, FailWrite: c.FaultAt, KeepOpen: true})
		if rr1.NewErr != nil {
			res.Skip = true
			return
		}
		rr2 := Run(sc, RunOpts{Vault: v, Reg: reg, Recover: true, Pristine: created, WSOptions: opts})
		if rr2.NewErr != nil || rr2.Stalled {
			res.Skip = true
			return
		}
		for pi, pr := range rr2.Plans {
			after := pr.Reread
			if after == nil {
				after = pr.Final
			}
			if after == nil {
				continue
			}
			ptag := fmt.Sprintf("p%d", pi)
			st := status(after.State)
			if exp[pi].durable == workflow.Running && !finished(st) {
				res.Fail("C11/fault:plan-left-running", "plan %s was Running and stale; after a start-up in which storage update %d failed and a second, healthy start-up it is %s", ptag, c.FaultAt, Describe(after))
				return
			}
			if finished(st) {
				bad := ""
				eachState(after, func(tag string, s *workflow.State) {
					if bad == "" && status(s) == workflow.Running {
						bad = tag
					}
				})
				if bad != "" {
					res.Fail("C11/fault:closed-plan-left-running:"+kindOfTag(bad), "plan %s ended %v (reason %v) after a start-up in which storage update %d failed and a second, healthy start-up, but %s is still Running: %s", ptag, st, after.Reason, c.FaultAt, bad, Describe(after))
					return
				}
			}
		}
		return
	}
	rr := Run(sc, RunOpts{Vault: v, Reg: reg, Recover: true, Pristine: created, WSOptions: opts})
	if rr.NewErr != nil {
		res.Fail("C11/new-failed", "constructing a Workstream on the store failed: %v", rr.NewErr)
		return
	}
	ix := BuildIndex(rr)
	invoked := func(pi int) *Inv {
		for _, inv := range ix.All {
			if inv.Ref.Plan == pi {
				return inv
			}
		}
		return nil
	}
	written := func(pi int) *Event {
		for i := range rr.Events {
			e := &rr.Events[i]
			if (e.Kind == EvWriteBegin || e.Kind == EvWriteEnd) && e.PlanIdx == pi {
				return e
			}
		}
		return nil
	}
	for pi, pr := range rr.Plans {
		e := exp[pi]
		after := pr.Reread
		if after == nil {
			after = pr.Final
		}
		ptag := fmt.Sprintf("p%d", pi)
		untouched := func(why string) bool {
			// "plans never started stay untouched and terminal plans are never executed or modified again" /
			// "with recovery disabled nothing is resumed or modified"
			if inv := invoked(pi); inv != nil {
				res.Fail("C11/executed:"+why, "plan %s (%s, durably %v) had %s#%d invoked after start-up", ptag, why, e.durable, inv.Tag, inv.N)
				return false
			}
			if w := written(pi); w != nil {
				res.Fail("C11/modified:"+why, "plan %s (%s, durably %v): %s was written (%v) after start-up", ptag, why, e.durable, w.Tag, w.W.State.Status)
				return false
			}
			if d := samePlanState(before[pi], after); d != "" {
				res.Fail("C11/modified:"+why, "plan %s (%s, durably %v) changed after start-up: %s", ptag, why, e.durable, d)
				return false
			}
			return true
		}
		switch {
		case c.NoRecovery:
			if !untouched("recovery-disabled") {
				return
			}
		case e.durable != workflow.Running:
			why := "never-started"
			if e.durable != workflow.NotStarted {
				why = "terminal"
			}
			if !untouched(why) {
				return
			}
		case e.stale:
			// "A Running plan whose most recent recorded activity is older than the configured maximum is not resumed
			// but closed as Failed with reason ExceedRecovery, with no plugin invoked and nothing in it left Running"
			if inv := invoked(pi); inv != nil {
				res.Fail("C11/stale-plan-executed", "plan %s is Running with last activity older than the maximum but %s#%d was invoked", ptag, inv.Tag, inv.N)
				return
			}
			if after == nil || status(after.State) != workflow.Failed || after.Reason != workflow.FRExceedRecovery {
				res.Fail("C11/stale-plan-not-closed", "plan %s is Running with last activity older than the maximum; after start-up it is %s", ptag, Describe(after))
				return
			}
			bad := ""
			eachState(after, func(tag string, s *workflow.State) {
				if bad == "" && status(s) == workflow.Running {
					bad = tag
				}
			})
			if bad != "" {
				res.Fail("C11/stale-plan-left-running:"+kindOfTag(bad), "plan %s was closed as ExceedRecovery but %s is still Running: %s", ptag, bad, Describe(after))
				return
			}
			vprop.Count("judged_stale_plans_closed", 1)
		default:
			// fresh Running plan: "exactly the plans durably in Running state are considered" — it is resumed
			if pr.Stalled || rr.Stalled {
				if rr.hardLimitOnly() {
					res.Skip = true
					return
				}
				res.Fail("C11/live-plan-not-resumed", "plan %s is Running and fresh but did not reach a terminal state after start-up\n%s", ptag, FormatEvents(rr.Events, 40))
				return
			}
			if pr.Final == nil || !finished(status(pr.Final.State)) {
				res.Fail("C11/live-plan-not-resumed", "plan %s is Running and fresh but is %s after start-up", ptag, Describe(pr.Final))
				return
			}
			if pr.Final.Reason == workflow.FRExceedRecovery {
				res.Fail("C11/live-plan-closed", "plan %s is Running with recent activity but was closed as ExceedRecovery", ptag)
				return
			}
			vprop.Count("judged_live_plans_resumed_to_terminal", 1)
		}
	}
	// counted after every skip point: floors on these turn a run in which the stores could not be built or read into
	// INCONCLUSIVE instead of vacuously green
	vprop.Count("stores_judged", 1)
}
