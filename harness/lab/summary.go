package lab

import (
	"fmt"
	"strings"
)

func (a *ActionSpec) summary() string {
	var sb strings.Builder
	for i, st := range a.Script {
		if i > 0 {
			sb.WriteString(">")
		}
		sb.WriteString(st.Out.String())
		if st.Gate > 0 {
			fmt.Fprintf(&sb, "@g%d", st.Gate)
		}
	}
	if a.Retries != 0 {
		fmt.Fprintf(&sb, "(r%d)", a.Retries)
	}
	return sb.String()
}

func (c *ChecksSpec) summary() string {
	if c == nil {
		return ""
	}
	var parts []string
	for i := range c.Actions {
		parts = append(parts, c.Actions[i].summary())
	}
	return "[" + strings.Join(parts, ",") + "]"
}

// Summary renders a scenario compactly (used as the evidence sample).
func (s *Scenario) Summary() map[string]any {
	var plans []any
	for pi := range s.Plans {
		p := &s.Plans[pi]
		pm := map[string]any{}
		for gi, n := range GroupNames {
			if g := p.Group(gi); g != nil {
				pm[n] = g.summary()
			}
		}
		var blocks []any
		for bi := range p.Blocks {
			b := &p.Blocks[bi]
			bm := map[string]any{"conc": b.Concurrency, "tol": b.Tolerated}
			for gi, n := range GroupNames {
				if g := b.Group(gi); g != nil {
					bm[n] = g.summary()
				}
			}
			var seqs []string
			for si := range b.Seqs {
				var acts []string
				for ai := range b.Seqs[si].Actions {
					acts = append(acts, b.Seqs[si].Actions[ai].summary())
				}
				seqs = append(seqs, strings.Join(acts, " ; "))
			}
			bm["seqs"] = seqs
			blocks = append(blocks, bm)
		}
		pm["blocks"] = blocks
		plans = append(plans, pm)
	}
	return map[string]any{"plans": plans, "pollUs": s.PollUs, "writeLatUs": s.WriteLatUs, "cancelStartCtxUs": s.CancelStartUs}
}
