package pc16

// C16 — Submit admits exactly the well-formed plans.
//
// Statement (fixed): "Submit accepts a plan if and only if it is well formed: non-empty names and descriptions, at
// least one block, sequence and action where required, no engine-owned field (id, state, attempts, reason, submit
// time) pre-set, keys unique and version 7, timeouts of at least five seconds (zero meaning the default), and every
// action naming a registered plugin that accepts its request. A rejected plan leaves nothing in storage, an accepted
// plan receives fresh pairwise-distinct v7 ids, a pristine NotStarted state on every object and a submit time, and
// Start additionally refuses plans whose check actions use non-check plugins."
//
// Case = plain data: the shape of a valid plan + 0..3 mutation operators (operator, target index into the pre-order
// enumeration of the objects the operator applies to, variant). The plan is a pure function of the case.
//
// Oracle: a recursive reference validator written from the statement decides well-formed / ill-formed on the mutated
// plan *before* Submit sees it; Submit's verdict must agree in both directions. The clauses about rejected / accepted
// plans and about Start are checked on the real storage (fresh in-memory sqlite vault per case) and with counting
// plugins.
//
// Readings chosen where the statement is silent or ambiguous (always the weaker one):
//   * "non-empty" names are read as "not blank"; blank names are generated only from ASCII space / tab / newline / CR,
//     non-blank names only from ordinary letters, digits and inner ASCII spaces — so no dispute about exotic unicode
//     white space can arise.
//   * a pre-set *registry* on an action is not in the statement's list of engine-owned fields: for an otherwise
//     well-formed plan with a pre-set registry neither acceptance nor rejection is asserted (label only); the
//     consequences of whichever verdict Submit takes are still checked.
//   * an empty non-nil Attempts slice and a non-nil zero State are not generated ("pre-set" would be debatable).
//   * nil entries inside Blocks/Sequences/Actions are ill-formed; Submit may reject them by panicking (it walks the
//     plan before validating): a recovered panic counts as a rejection and is only labelled "rejected-by-panic".
//   * a *check* plugin inside a sequence: the statement only says Start refuses non-check plugins in check actions,
//     so for such plans Start's verdict is not judged.
//   * Checks.Delay == 0 is documented "defaults to 30 seconds" but the statement lists no such default: a submitted
//     zero delay is not compared.
//   * "a registered plugin that accepts its request": whether Submit applies a request's own Defaults() before it asks
//     the plugin is in no statement. A request that the plugin accepts only once defaulted (a *DReq with a zero Mode)
//     makes the plan *not judged* in either direction, like the pre-set registry (labels dreq:zero:accepted /
//     dreq:zero:rejected). The consequences of the verdict are still checked; an accepted plan's stored request must
//     be one the plugin accepts as stored, and must equal the submitted request either as submitted or as defaulted.
//   * the *values* of defaults are not in the statement either: for a submitted timeout of 0 any stored timeout of at
//     least five seconds is fine ("zero meaning the default", "at least five seconds"); a stored Retries / Concurrency
//     may be the submitted value or the clamped one (max(0, r) / max(1, c)) — Submit need not materialise them.
//   * "leaves nothing in storage" is observed as "the row count of every user table of the sqlite file is unchanged";
//     the tables are discovered from sqlite_master, no table name is assumed.

import (
	"bytes"
	"encoding/binary"
	"fmt"
	"reflect"
	"runtime"
	"sort"
	"strings"
	"sync/atomic"
	"testing"
	"time"

	"github.com/google/uuid"
	"pgregory.net/rapid"
	zsqlite "zombiezen.com/go/sqlite"
	"zombiezen.com/go/sqlite/sqlitex"

	"github.com/element-of-surprise/coercion"
	"github.com/element-of-surprise/coercion/plugins"
	"github.com/element-of-surprise/coercion/plugins/registry"
	"github.com/element-of-surprise/coercion/workflow"
	"github.com/element-of-surprise/coercion/workflow/context"
	"github.com/element-of-surprise/coercion/workflow/storage/sqlite"

	"verifharness/vprop"
)

// ---------------------------------------------------------------------------------------------------------------------
// case (plain data, JSON round-trippable)

type ActionShape struct {
	Name    string
	Descr   string
	Timeout int64 // nanoseconds; 0 or >= 5s in a valid plan
	Retries int   // may be negative (documented default: < 0 -> 0)
	HasKey  bool
	Arg     string
	// Dflt selects the request flavour: 0 = plain plugin (ReqCheck / ReqWork value); 1..3 = the plugin whose request
	// is a *DReq with Defaults(): 1 = Mode left at its zero value (valid only once defaulted), 2 = Mode "manual",
	// 3 = Mode "auto" spelled out.
	Dflt int
}

type ChecksShape struct {
	HasKey  bool
	Delay   int64 // nanoseconds
	Actions []ActionShape
}

type SeqShape struct {
	Name    string
	Descr   string
	HasKey  bool
	Actions []ActionShape
}

type BlockShape struct {
	Name        string
	Descr       string
	HasKey      bool
	Concurrency int // may be < 1 (documented default: < 1 -> 1)
	Tolerated   int
	Groups      [5]*ChecksShape // bypass, pre, cont, post, deferred
	Seqs        []SeqShape
}

type PlanShape struct {
	Name     string
	Descr    string
	HasGroup bool
	Meta     string
	Groups   [5]*ChecksShape
	Blocks   []BlockShape
}

// Mutation is one structural mutation operator. Target selects the object: index (modulo) into the pre-order
// enumeration of the objects of the current tree to which Op applies. Variant selects the flavour of the operator.
type Mutation struct {
	Op      string
	Target  int
	Variant int
}

type SubmitCase struct {
	// Salt makes the deterministic uuids (keys, pre-set ids, group id) differ between cases.
	Salt uint32
	// Baseline: the unmutated valid plan is submitted first, so that the plan under test meets a non-empty store
	// ("leaves nothing in storage" = leaves the store as it was) and "fresh" ids can be compared with earlier ones.
	Baseline bool
	Plan     PlanShape
	Muts     []Mutation
}

// rapid's SampledFrom favours the front of the list: the operators that need a particular neighbourhood (a second
// key-bearing object, a check group, a boundary variant) come first, the plentiful blank-string ones last.
var allOps = []string{
	"dup-key", "noncheck-in-checks", "short-timeout", "empty-list",
	"preset-state", "preset-id", "bad-key-version", "rejected-req", "wrong-req-type",
	"unknown-plugin", "neg-timeout", "check-in-seq", "preset-attempts", "preset-registry", "foreign-registry",
	"nil-entry", "blank-plugin", "preset-reason", "preset-submit", "blank-name", "blank-descr",
}

// ---------------------------------------------------------------------------------------------------------------------
// generators

var (
	letters      = []rune("abcdefghijklmnopqrstuvwxyzABCDEFGHIJKLMNOPQRSTUVWXYZ0123456789éßñøçÅжЯλΩ日本語한אب")
	lettersSpace = append(append([]rune{}, letters...), ' ', ' ', '-', '_', '.')
	validTimeout = []int64{0, 0, int64(5 * time.Second), int64(5*time.Second) + 1, int64(6 * time.Second), int64(30 * time.Second), int64(10 * time.Minute), int64(24 * time.Hour)}
	// request flavours (ActionShape.Dflt): mostly the plain plugins; the zero-Mode flavour (1) makes a plan not judged on
	// the iff, so it is kept rare (roughly one plan in four carries one)
	dfltFlavours = []int{0, 0, 0, 0, 0, 0, 0, 0, 2, 3, 1, 2, 3, 0, 0, 0, 0, 0, 0, 0, 0, 0, 0, 0}
	validDelay   = []int64{0, int64(time.Millisecond), int64(30 * time.Second), int64(time.Hour)}
)

// genName draws a non-blank name: an ordinary letter followed by up to 8 letters / inner spaces.
func genName(t *rapid.T, label string) string {
	first := rapid.SampledFrom(letters).Draw(t, label+".0")
	rest := rapid.SliceOfN(rapid.SampledFrom(lettersSpace), 0, 8).Draw(t, label+".rest")
	return string(first) + string(rest)
}

func genAction(t *rapid.T, label string) ActionShape {
	return ActionShape{
		Name:    genName(t, label+".name"),
		Descr:   genName(t, label+".descr"),
		Timeout: rapid.SampledFrom(validTimeout).Draw(t, label+".timeout"),
		Retries: rapid.IntRange(-3, 3).Draw(t, label+".retries"),
		HasKey:  rapid.Bool().Draw(t, label+".key"),
		Arg:     rapid.SampledFrom([]string{"", "a", "x y", "日本"}).Draw(t, label+".arg"),
		Dflt:    rapid.SampledFrom(dfltFlavours).Draw(t, label+".dflt"),
	}
}

func genChecks(t *rapid.T, label string) *ChecksShape {
	if rapid.IntRange(0, 2).Draw(t, label+".present") != 2 { // shrinks towards "absent"
		return nil
	}
	c := &ChecksShape{
		HasKey: rapid.Bool().Draw(t, label+".key"),
		Delay:  rapid.SampledFrom(validDelay).Draw(t, label+".delay"),
	}
	n := rapid.IntRange(1, 2).Draw(t, label+".n")
	for i := 0; i < n; i++ {
		c.Actions = append(c.Actions, genAction(t, fmt.Sprintf("%s.a%d", label, i)))
	}
	return c
}

func genPlanShape(t *rapid.T) PlanShape {
	p := PlanShape{
		Name:     genName(t, "p.name"),
		Descr:    genName(t, "p.descr"),
		HasGroup: rapid.Bool().Draw(t, "p.group"),
		Meta:     rapid.SampledFrom([]string{"", "m", "{\"k\":1}"}).Draw(t, "p.meta"),
	}
	for g := range p.Groups {
		p.Groups[g] = genChecks(t, fmt.Sprintf("p.g%d", g))
	}
	nb := rapid.IntRange(1, 3).Draw(t, "blocks")
	for b := 0; b < nb; b++ {
		bl := fmt.Sprintf("b%d", b)
		bs := BlockShape{
			Name:        genName(t, bl+".name"),
			Descr:       genName(t, bl+".descr"),
			HasKey:      rapid.Bool().Draw(t, bl+".key"),
			Concurrency: rapid.IntRange(-2, 4).Draw(t, bl+".conc"),
			Tolerated:   rapid.IntRange(-1, 3).Draw(t, bl+".tol"),
		}
		for g := range bs.Groups {
			bs.Groups[g] = genChecks(t, fmt.Sprintf("%s.g%d", bl, g))
		}
		ns := rapid.IntRange(1, 3).Draw(t, bl+".seqs")
		for s := 0; s < ns; s++ {
			sl := fmt.Sprintf("%s.s%d", bl, s)
			ss := SeqShape{
				Name:   genName(t, sl+".name"),
				Descr:  genName(t, sl+".descr"),
				HasKey: rapid.Bool().Draw(t, sl+".key"),
			}
			na := rapid.IntRange(1, 3).Draw(t, sl+".acts")
			for a := 0; a < na; a++ {
				ss.Actions = append(ss.Actions, genAction(t, fmt.Sprintf("%s.a%d", sl, a)))
			}
			bs.Seqs = append(bs.Seqs, ss)
		}
		p.Blocks = append(p.Blocks, bs)
	}
	return p
}

func genCase(t *rapid.T) SubmitCase {
	c := SubmitCase{
		Salt:     rapid.Uint32().Draw(t, "salt"),
		Baseline: rapid.IntRange(0, 3).Draw(t, "baseline") == 3,
		Plan:     genPlanShape(t),
	}
	// 0 mutations: the "all valid plans" half of the quantifier; 1..3: single and combined mutations.
	n := rapid.SampledFrom([]int{0, 0, 1, 1, 1, 1, 1, 2, 2, 2, 3, 3}).Draw(t, "nmut")
	for i := 0; i < n; i++ {
		c.Muts = append(c.Muts, Mutation{
			Op:      rapid.SampledFrom(allOps).Draw(t, fmt.Sprintf("m%d.op", i)),
			Target:  rapid.IntRange(0, 63).Draw(t, fmt.Sprintf("m%d.target", i)),
			Variant: rapid.IntRange(0, 11).Draw(t, fmt.Sprintf("m%d.variant", i)),
		})
	}
	return c
}

// ---------------------------------------------------------------------------------------------------------------------
// deterministic uuids

const (
	domKey     = 0x01
	domID      = 0x02
	domGroup   = 0x03
	domDupSeed = 0x04
)

// mkUUID builds a uuid from (salt, idx, domain) with the given version nibble and the RFC variant bits. Distinct
// (idx, domain) give distinct uuids; none is uuid.Nil.
func mkUUID(salt uint32, idx int, version byte, domain byte) uuid.UUID {
	var u uuid.UUID
	binary.BigEndian.PutUint32(u[0:4], salt)
	binary.BigEndian.PutUint16(u[4:6], uint16(idx))
	u[6] = version<<4 | 0x0a
	u[7] = byte(idx >> 16)
	u[8] = 0x80 | 0x15
	binary.BigEndian.PutUint32(u[9:13], uint32(idx)*2654435761+0x9e37)
	u[13] = 0x5c
	u[14] = domain
	u[15] = 0xc1
	return u
}

// ---------------------------------------------------------------------------------------------------------------------
// building the plan

type builder struct {
	salt uint32
	keys int
}

func (b *builder) key(has bool) uuid.UUID {
	if !has {
		return uuid.Nil
	}
	b.keys++
	return mkUUID(b.salt, b.keys, 7, domKey) // fresh by construction: a running counter
}

func (b *builder) action(a ActionShape, check bool) *workflow.Action {
	out := &workflow.Action{
		Key:     b.key(a.HasKey),
		Name:    a.Name,
		Descr:   a.Descr,
		Timeout: time.Duration(a.Timeout),
		Retries: a.Retries,
	}
	switch {
	case a.Dflt >= 1 && a.Dflt <= 3:
		out.Plugin = dWorkPlugName
		if check {
			out.Plugin = dCheckPlugName
		}
		out.Req = &DReq{Arg: a.Arg, Mode: [...]string{"", "", "manual", "auto"}[a.Dflt]}
	case check:
		out.Plugin = checkPlugName
		out.Req = ReqCheck{Arg: a.Arg}
	default:
		out.Plugin = workPlugName
		out.Req = ReqWork{Arg: a.Arg, N: a.Retries}
	}
	return out
}

func (b *builder) checks(c *ChecksShape) *workflow.Checks {
	if c == nil {
		return nil
	}
	out := &workflow.Checks{Key: b.key(c.HasKey), Delay: time.Duration(c.Delay)}
	for _, a := range c.Actions {
		out.Actions = append(out.Actions, b.action(a, true))
	}
	return out
}

func buildPlan(c SubmitCase) *workflow.Plan {
	b := &builder{salt: c.Salt}
	ps := c.Plan
	p := &workflow.Plan{Name: ps.Name, Descr: ps.Descr}
	if ps.HasGroup {
		p.GroupID = mkUUID(c.Salt, 1, 7, domGroup)
	}
	if ps.Meta != "" {
		p.Meta = []byte(ps.Meta)
	}
	p.BypassChecks = b.checks(ps.Groups[0])
	p.PreChecks = b.checks(ps.Groups[1])
	p.ContChecks = b.checks(ps.Groups[2])
	p.PostChecks = b.checks(ps.Groups[3])
	p.DeferredChecks = b.checks(ps.Groups[4])
	for _, bs := range ps.Blocks {
		blk := &workflow.Block{
			Key:               b.key(bs.HasKey),
			Name:              bs.Name,
			Descr:             bs.Descr,
			Concurrency:       bs.Concurrency,
			ToleratedFailures: bs.Tolerated,
		}
		blk.BypassChecks = b.checks(bs.Groups[0])
		blk.PreChecks = b.checks(bs.Groups[1])
		blk.ContChecks = b.checks(bs.Groups[2])
		blk.PostChecks = b.checks(bs.Groups[3])
		blk.DeferredChecks = b.checks(bs.Groups[4])
		for _, ss := range bs.Seqs {
			seq := &workflow.Sequence{Key: b.key(ss.HasKey), Name: ss.Name, Descr: ss.Descr}
			for _, a := range ss.Actions {
				seq.Actions = append(seq.Actions, b.action(a, false))
			}
			blk.Sequences = append(blk.Sequences, seq)
		}
		p.Blocks = append(p.Blocks, blk)
	}
	return p
}

// ---------------------------------------------------------------------------------------------------------------------
// own enumeration of the tree (tolerates nil entries: they are skipped)

type node struct {
	kind     string // plan | checks | block | seq | action
	inChecks bool   // for actions: directly inside a Checks group
	path     string
	plan     *workflow.Plan
	checks   *workflow.Checks
	block    *workflow.Block
	seq      *workflow.Sequence
	action   *workflow.Action
}

func (n node) kindLabel() string {
	if n.kind == "action" {
		if n.inChecks {
			return "check-action"
		}
		return "seq-action"
	}
	return n.kind
}

var groupNames = [5]string{"bypass", "pre", "cont", "post", "deferred"}

func planGroups(p *workflow.Plan) [5]*workflow.Checks {
	return [5]*workflow.Checks{p.BypassChecks, p.PreChecks, p.ContChecks, p.PostChecks, p.DeferredChecks}
}

func blockGroups(b *workflow.Block) [5]*workflow.Checks {
	return [5]*workflow.Checks{b.BypassChecks, b.PreChecks, b.ContChecks, b.PostChecks, b.DeferredChecks}
}

func enumerate(p *workflow.Plan) []node {
	var out []node
	doChecks := func(c *workflow.Checks, path string) {
		if c == nil {
			return
		}
		out = append(out, node{kind: "checks", path: path, checks: c})
		for i, a := range c.Actions {
			if a != nil {
				out = append(out, node{kind: "action", inChecks: true, path: fmt.Sprintf("%s.a%d", path, i), action: a})
			}
		}
	}
	out = append(out, node{kind: "plan", path: "plan", plan: p})
	for g, c := range planGroups(p) {
		doChecks(c, "plan."+groupNames[g])
	}
	for bi, b := range p.Blocks {
		if b == nil {
			continue
		}
		bp := fmt.Sprintf("b%d", bi)
		out = append(out, node{kind: "block", path: bp, block: b})
		for g, c := range blockGroups(b) {
			doChecks(c, bp+"."+groupNames[g])
		}
		for si, s := range b.Sequences {
			if s == nil {
				continue
			}
			sp := fmt.Sprintf("%s.s%d", bp, si)
			out = append(out, node{kind: "seq", path: sp, seq: s})
			for ai, a := range s.Actions {
				if a != nil {
					out = append(out, node{kind: "action", path: fmt.Sprintf("%s.a%d", sp, ai), action: a})
				}
			}
		}
	}
	return out
}

func (n node) namePtr() *string {
	switch n.kind {
	case "plan":
		return &n.plan.Name
	case "block":
		return &n.block.Name
	case "seq":
		return &n.seq.Name
	case "action":
		return &n.action.Name
	}
	return nil
}

func (n node) descrPtr() *string {
	switch n.kind {
	case "plan":
		return &n.plan.Descr
	case "block":
		return &n.block.Descr
	case "seq":
		return &n.seq.Descr
	case "action":
		return &n.action.Descr
	}
	return nil
}

func (n node) idPtr() *uuid.UUID {
	switch n.kind {
	case "plan":
		return &n.plan.ID
	case "checks":
		return &n.checks.ID
	case "block":
		return &n.block.ID
	case "seq":
		return &n.seq.ID
	case "action":
		return &n.action.ID
	}
	return nil
}

func (n node) statePtr() **workflow.State {
	switch n.kind {
	case "plan":
		return &n.plan.State
	case "checks":
		return &n.checks.State
	case "block":
		return &n.block.State
	case "seq":
		return &n.seq.State
	case "action":
		return &n.action.State
	}
	return nil
}

func (n node) keyPtr() *uuid.UUID {
	switch n.kind {
	case "checks":
		return &n.checks.Key
	case "block":
		return &n.block.Key
	case "seq":
		return &n.seq.Key
	case "action":
		return &n.action.Key
	}
	return nil
}

// ---------------------------------------------------------------------------------------------------------------------
// mutation operators

func filter(ns []node, keep func(node) bool) []node {
	var out []node
	for _, n := range ns {
		if keep(n) {
			out = append(out, n)
		}
	}
	return out
}

var (
	blanks        = []string{"", " ", "\t", " \n\t ", "\r\n"}
	presetStatus  = []workflow.Status{workflow.Running, workflow.Completed, workflow.Failed, workflow.Stopped}
	presetReasons = []workflow.FailureReason{workflow.FRPreCheck, workflow.FRBlock, workflow.FRPostCheck, workflow.FRContCheck, workflow.FRDeferredCheck, workflow.FRStopped, workflow.FRExceedRecovery}
	shortTimeouts = []time.Duration{1, time.Millisecond, time.Second, 4 * time.Second, 5*time.Second - 1}
	negTimeouts   = []time.Duration{-1, -time.Second, -5 * time.Second, -30 * time.Second, -24 * time.Hour}
	// foreignPlugName is registered only in the registry that operator "foreign-registry" hangs on an action.
	foreignPlugName = "verif/pc16.foreign"
	unknownPlugs    = []string{"verif/pc16.nope", "VERIF/PC16.CHECK", checkPlugName + " ", " " + workPlugName, "check"}
	blankPlugs      = []string{"", " ", "\t\n"}
	badVersions     = []byte{4, 1, 6, 8, 0, 15}
	badModes        = []string{"bogus", "AUTO", " ", "auto "}
	someTime        = time.Unix(1_700_000_000, 0).UTC()
)

// applyMutation applies m to the current tree. It returns the kind label of the object hit, or "" when no object of
// the tree is eligible (the operator is then a no-op and does not count as applied).
func applyMutation(p *workflow.Plan, m Mutation, salt uint32, k int) string {
	all := enumerate(p)
	isKind := func(kinds ...string) func(node) bool {
		return func(n node) bool {
			for _, kd := range kinds {
				if n.kind == kd {
					return true
				}
			}
			return false
		}
	}
	pick := func(keep func(node) bool) (node, bool) {
		el := filter(all, keep)
		if len(el) == 0 {
			return node{}, false
		}
		return el[m.Target%len(el)], true
	}
	v := m.Variant

	switch m.Op {
	case "blank-name":
		n, ok := pick(isKind("plan", "block", "seq", "action"))
		if !ok {
			return ""
		}
		*n.namePtr() = blanks[v%len(blanks)]
		return n.kindLabel()
	case "blank-descr":
		n, ok := pick(isKind("plan", "block", "seq", "action"))
		if !ok {
			return ""
		}
		*n.descrPtr() = blanks[v%len(blanks)]
		return n.kindLabel()
	case "empty-list":
		n, ok := pick(isKind("plan", "block", "seq", "checks"))
		if !ok {
			return ""
		}
		asNil := v%2 == 0
		switch n.kind {
		case "plan":
			n.plan.Blocks = []*workflow.Block{}
			if asNil {
				n.plan.Blocks = nil
			}
		case "block":
			n.block.Sequences = []*workflow.Sequence{}
			if asNil {
				n.block.Sequences = nil
			}
		case "seq":
			n.seq.Actions = []*workflow.Action{}
			if asNil {
				n.seq.Actions = nil
			}
		case "checks":
			n.checks.Actions = []*workflow.Action{}
			if asNil {
				n.checks.Actions = nil
			}
		}
		return n.kindLabel()
	case "nil-entry":
		n, ok := pick(isKind("plan", "block", "seq", "checks"))
		if !ok {
			return ""
		}
		switch n.kind {
		case "plan":
			n.plan.Blocks = withNil(n.plan.Blocks, v)
		case "block":
			n.block.Sequences = withNil(n.block.Sequences, v)
		case "seq":
			n.seq.Actions = withNil(n.seq.Actions, v)
		case "checks":
			n.checks.Actions = withNil(n.checks.Actions, v)
		}
		return n.kindLabel()
	case "preset-id":
		n, ok := pick(func(node) bool { return true })
		if !ok {
			return ""
		}
		ver := byte(7)
		if v%2 == 1 {
			ver = 4
		}
		*n.idPtr() = mkUUID(salt, 2000+k, ver, domID)
		return n.kindLabel()
	case "preset-state":
		n, ok := pick(func(node) bool { return true })
		if !ok {
			return ""
		}
		st := &workflow.State{Status: presetStatus[v%len(presetStatus)]}
		if v >= 6 {
			st.Start = someTime
		}
		*n.statePtr() = st
		return n.kindLabel()
	case "preset-attempts":
		n, ok := pick(isKind("action"))
		if !ok {
			return ""
		}
		at := &workflow.Attempt{Start: someTime, End: someTime.Add(time.Second)}
		if v%2 == 0 {
			at.Resp = Resp{Done: true}
		} else {
			at.Err = &plugins.Error{Message: "preset"}
		}
		n.action.Attempts = []*workflow.Attempt{at}
		return n.kindLabel()
	case "preset-reason":
		n, ok := pick(isKind("plan"))
		if !ok {
			return ""
		}
		n.plan.Reason = presetReasons[v%len(presetReasons)]
		return n.kindLabel()
	case "preset-submit":
		n, ok := pick(isKind("plan"))
		if !ok {
			return ""
		}
		n.plan.SubmitTime = someTime.Add(time.Duration(v) * time.Hour)
		return n.kindLabel()
	case "dup-key":
		el := filter(all, isKind("checks", "block", "seq", "action"))
		if len(el) < 2 {
			return ""
		}
		ai := m.Target % len(el)
		bi := (ai + 1 + v%(len(el)-1)) % len(el) // != ai
		a, b := el[ai], el[bi]
		if *b.keyPtr() == uuid.Nil {
			*b.keyPtr() = mkUUID(salt, 3000+k, 7, domDupSeed) // fresh v7 key on the source
		}
		*a.keyPtr() = *b.keyPtr()
		return a.kindLabel()
	case "bad-key-version":
		n, ok := pick(isKind("checks", "block", "seq", "action"))
		if !ok {
			return ""
		}
		*n.keyPtr() = mkUUID(salt, 4000+k, badVersions[v%len(badVersions)], domKey)
		return n.kindLabel()
	case "short-timeout":
		n, ok := pick(isKind("action"))
		if !ok {
			return ""
		}
		n.action.Timeout = shortTimeouts[v%len(shortTimeouts)]
		return n.kindLabel()
	case "neg-timeout":
		n, ok := pick(isKind("action"))
		if !ok {
			return ""
		}
		n.action.Timeout = negTimeouts[v%len(negTimeouts)]
		return n.kindLabel()
	case "unknown-plugin":
		n, ok := pick(isKind("action"))
		if !ok {
			return ""
		}
		n.action.Plugin = unknownPlugs[v%len(unknownPlugs)]
		return n.kindLabel()
	case "blank-plugin":
		n, ok := pick(isKind("action"))
		if !ok {
			return ""
		}
		n.action.Plugin = blankPlugs[v%len(blankPlugs)]
		return n.kindLabel()
	case "wrong-req-type":
		n, ok := pick(isKind("action"))
		if !ok {
			return ""
		}
		d, chk := isDPlug(n.action.Plugin), isCheckPlug(n.action.Plugin)
		switch v % 7 {
		case 0:
			n.action.Req = nil
		case 1:
			n.action.Req = "a string"
		case 2:
			n.action.Req = ReqOther{X: v}
		case 3: // right struct, wrong indirection: pointer where the value is wanted / value where the pointer is wanted
			switch {
			case d:
				n.action.Req = DReq{Arg: "value", Mode: "manual"}
			case chk:
				n.action.Req = &ReqCheck{Arg: "ptr"}
			default:
				n.action.Req = &ReqWork{Arg: "ptr"}
			}
		case 4: // the request type of the plugin of the other kind
			if chk {
				n.action.Req = ReqWork{Arg: "swapped"}
			} else {
				n.action.Req = ReqCheck{Arg: "swapped"}
			}
		case 5:
			n.action.Req = 42
		case 6: // the request type of the other family (with / without Defaults)
			switch {
			case !d:
				n.action.Req = &DReq{Arg: "other-family"} // Submit will call Defaults() on it; still the wrong type
			case chk:
				n.action.Req = ReqCheck{Arg: "other-family"}
			default:
				n.action.Req = ReqWork{Arg: "other-family"}
			}
		}
		return n.kindLabel()
	case "rejected-req":
		n, ok := pick(isKind("action"))
		if !ok {
			return ""
		}
		switch r := n.action.Req.(type) {
		case ReqCheck:
			r.Reject = true
			n.action.Req = r
		case ReqWork:
			r.Reject = true
			n.action.Req = r
		case *DReq: // a Mode that is invalid with or without Defaults()
			c := DReq{Mode: badModes[v%len(badModes)]}
			if r != nil {
				c.Arg = r.Arg
			}
			n.action.Req = &c
		default:
			switch {
			case isDPlug(n.action.Plugin):
				n.action.Req = &DReq{Mode: badModes[v%len(badModes)]}
			case isCheckPlug(n.action.Plugin):
				n.action.Req = ReqCheck{Reject: true}
			default:
				n.action.Req = ReqWork{Reject: true}
			}
		}
		return n.kindLabel()
	case "preset-registry":
		n, ok := pick(isKind("action"))
		if !ok {
			return ""
		}
		n.action.SetRegister(registry.New())
		return n.kindLabel()
	case "foreign-registry":
		// the action carries the registry of ANOTHER Workstream (as a plan object that was handed to another Workstream's
		// Submit before does) and names a plugin that only that registry knows: for the Workstream the plan is submitted
		// to, the plugin is not registered ("every action naming a registered plugin"), whatever it makes of the
		// pre-set registry
		n, ok := pick(isKind("action"))
		if !ok {
			return ""
		}
		foreign := registry.New()
		if err := foreign.Register(&plug{name: foreignPlugName, check: n.inChecks, execs: &atomic.Int64{}}); err != nil {
			return ""
		}
		n.action.Plugin = foreignPlugName
		if n.inChecks {
			n.action.Req = ReqCheck{Arg: "foreign"}
		} else {
			n.action.Req = ReqWork{Arg: "foreign", N: v}
		}
		n.action.SetRegister(foreign)
		return n.kindLabel()
	case "noncheck-in-checks":
		n, ok := pick(func(n node) bool { return n.kind == "action" && n.inChecks })
		if !ok {
			return ""
		}
		if v%2 == 1 { // the non-check plugin with the pointer request; v%4 == 3: relying on its Defaults() (not judged)
			n.action.Plugin = dWorkPlugName
			n.action.Req = &DReq{Arg: "dwork-in-checks", Mode: [...]string{"manual", "auto", "manual", ""}[v%4]}
		} else {
			n.action.Plugin = workPlugName
			n.action.Req = ReqWork{Arg: "work-in-checks", N: v}
		}
		return n.kindLabel()
	case "check-in-seq":
		n, ok := pick(func(n node) bool { return n.kind == "action" && !n.inChecks })
		if !ok {
			return ""
		}
		if v%2 == 1 {
			n.action.Plugin = dCheckPlugName
			n.action.Req = &DReq{Arg: "dcheck-in-seq", Mode: "manual"}
		} else {
			n.action.Plugin = checkPlugName
			n.action.Req = ReqCheck{Arg: "check-in-seq"}
		}
		return n.kindLabel()
	}
	return ""
}

// withNil puts a nil entry into the list: variant%3 == 0 replaces an entry, 1 appends, 2 prepends.
func withNil[T any](l []*T, v int) []*T {
	out := append([]*T(nil), l...)
	switch {
	case v%3 == 0 && len(out) > 0:
		out[(v/3)%len(out)] = nil
	case v%3 == 2:
		out = append([]*T{nil}, out...)
	default:
		out = append(out, nil)
	}
	return out
}

// ---------------------------------------------------------------------------------------------------------------------
// reference validator — written from the statement, clause by clause

type refVerdict struct {
	// reasons are the clauses of "well formed" the plan breaks (classes, sorted, de-duplicated). Empty = well formed.
	reasons []string
	// presetRegistry: some action carries a pre-set registry (not judged by the statement, see the header).
	presetRegistry bool
	nilEntry       bool
	// nonCheckInChecks: "plans whose check actions use non-check plugins".
	nonCheckInChecks bool
	// checkInSeq: a check plugin inside a sequence (Start's verdict is then not judged).
	checkInSeq bool
	// requests with Defaults() given to the plugins that take them: Mode left zero (acceptable only once defaulted),
	// spelled out and valid, invalid whatever Defaults() does.
	dreqZero, dreqSpelled, dreqInvalid int
	// defaultsDependent: some action's request is accepted by its plugin only after the request's own Defaults() ran
	// (or only before). Whether Submit defaults first is not in the statement: such a plan is not judged.
	defaultsDependent bool

	keys map[uuid.UUID]bool
	reg  map[string]plugins.Plugin
}

func (r *refVerdict) bad(class string) { r.reasons = append(r.reasons, class) }

func isBlank(s string) bool {
	for _, c := range s {
		if c != ' ' && c != '\t' && c != '\n' && c != '\r' {
			return false
		}
	}
	return true
}

// "non-empty names and descriptions"
func (r *refVerdict) names(name, descr string) {
	if isBlank(name) {
		r.bad("blank-name")
	}
	if isBlank(descr) {
		r.bad("blank-descr")
	}
}

// "no engine-owned field (id, state, ...) pre-set"
func (r *refVerdict) owned(id uuid.UUID, st *workflow.State) {
	if id != uuid.Nil {
		r.bad("preset-id")
	}
	if st != nil {
		r.bad("preset-state")
	}
}

// "keys unique and version 7" (a nil key is no key)
func (r *refVerdict) key(k uuid.UUID) {
	if k == uuid.Nil {
		return
	}
	if k[6]>>4 != 7 {
		r.bad("key-version")
	}
	if r.keys[k] {
		r.bad("dup-key")
	}
	r.keys[k] = true
}

// presented returns the request with its own Defaults() applied, if it has such a method. The submitted object itself
// is never touched here — a copy is defaulted — so the reference cannot do Submit's work for it.
func presented(req any) any {
	if d, ok := req.(*DReq); ok && d != nil {
		c := *d
		c.Defaults()
		return &c
	}
	return req
}

// asIs returns a private copy of the request exactly as submitted (Submit may default the submitted object in place).
func asIs(req any) any {
	if d, ok := req.(*DReq); ok && d != nil {
		c := *d
		return &c
	}
	return req
}

func (r *refVerdict) action(a *workflow.Action, inChecks bool) {
	if a == nil {
		r.nilEntry = true
		r.bad("nil-entry")
		return
	}
	r.names(a.Name, a.Descr)
	r.owned(a.ID, a.State)
	if len(a.Attempts) > 0 { // "(…, attempts, …) pre-set"
		r.bad("preset-attempts")
	}
	r.key(a.Key)
	// "timeouts of at least five seconds (zero meaning the default)"
	if a.Timeout != 0 && a.Timeout < 5*time.Second {
		r.bad("timeout")
	}
	// "every action naming a registered plugin that accepts its request"
	plug := r.reg[a.Plugin]
	if plug == nil {
		r.bad("plugin-unknown")
	} else {
		asSubmitted := plug.ValidateReq(asIs(a.Req)) == nil
		asDefaulted := plug.ValidateReq(presented(a.Req)) == nil
		switch {
		case asSubmitted && asDefaulted:
		case !asSubmitted && !asDefaulted:
			r.bad("req-rejected") // refused under either reading
		default:
			r.defaultsDependent = true // see the header: not judged
		}
		if d, ok := a.Req.(*DReq); ok && d != nil && isDPlug(a.Plugin) {
			switch {
			case d.Mode == "":
				r.dreqZero++
			case validMode(d.Mode):
				r.dreqSpelled++
			default:
				r.dreqInvalid++
			}
		}
		if inChecks && !plug.IsCheck() {
			r.nonCheckInChecks = true
		}
		if !inChecks && plug.IsCheck() {
			r.checkInSeq = true
		}
	}
	if a.HasRegister() {
		r.presetRegistry = true
	}
}

func (r *refVerdict) checks(c *workflow.Checks) {
	if c == nil { // an absent group is fine: groups are optional
		return
	}
	r.owned(c.ID, c.State)
	r.key(c.Key)
	if len(c.Actions) == 0 { // "at least one … action where required"
		r.bad("no-actions")
	}
	for _, a := range c.Actions {
		r.action(a, true)
	}
}

func (r *refVerdict) sequence(s *workflow.Sequence) {
	if s == nil {
		r.nilEntry = true
		r.bad("nil-entry")
		return
	}
	r.names(s.Name, s.Descr)
	r.owned(s.ID, s.State)
	r.key(s.Key)
	if len(s.Actions) == 0 {
		r.bad("no-actions")
	}
	for _, a := range s.Actions {
		r.action(a, false)
	}
}

func (r *refVerdict) block(b *workflow.Block) {
	if b == nil {
		r.nilEntry = true
		r.bad("nil-entry")
		return
	}
	r.names(b.Name, b.Descr)
	r.owned(b.ID, b.State)
	r.key(b.Key)
	for _, c := range blockGroups(b) {
		r.checks(c)
	}
	if len(b.Sequences) == 0 { // "at least one … sequence"
		r.bad("no-sequences")
	}
	for _, s := range b.Sequences {
		r.sequence(s)
	}
}

func reference(p *workflow.Plan) *refVerdict {
	r := &refVerdict{keys: map[uuid.UUID]bool{}, reg: map[string]plugins.Plugin{
		checkPlugName:  &plug{name: checkPlugName, check: true},
		workPlugName:   &plug{name: workPlugName, check: false},
		dCheckPlugName: &plug{name: dCheckPlugName, check: true, dflt: true},
		dWorkPlugName:  &plug{name: dWorkPlugName, check: false, dflt: true},
	}}
	r.names(p.Name, p.Descr)
	r.owned(p.ID, p.State)
	if p.Reason != workflow.FRUnknown {
		r.bad("preset-reason")
	}
	if !p.SubmitTime.IsZero() {
		r.bad("preset-submit")
	}
	for _, c := range planGroups(p) {
		r.checks(c)
	}
	if len(p.Blocks) == 0 { // "at least one block"
		r.bad("no-blocks")
	}
	for _, b := range p.Blocks {
		r.block(b)
	}
	sort.Strings(r.reasons)
	out := r.reasons[:0]
	for i, s := range r.reasons {
		if i == 0 || s != r.reasons[i-1] {
			out = append(out, s)
		}
	}
	r.reasons = out
	return r
}

// ---------------------------------------------------------------------------------------------------------------------
// snapshot of the submitted definition (Submit mutates the plan; using it afterwards is documented as undefined)

type snapAction struct {
	Name, Descr, Plugin string
	Timeout             time.Duration
	Retries             int
	Key                 uuid.UUID
	// Req is the request as submitted (a copy), ReqDef the same with its own Defaults() applied.
	Req    any
	ReqDef any
}

type snapChecks struct {
	Key     uuid.UUID
	Delay   time.Duration
	Actions []snapAction
}

type snapSeq struct {
	Name, Descr string
	Key         uuid.UUID
	Actions     []snapAction
}

type snapBlock struct {
	Name, Descr            string
	Key                    uuid.UUID
	Concurrency, Tolerated int
	Groups                 [5]*snapChecks
	Seqs                   []snapSeq
}

type snapPlan struct {
	Name, Descr string
	GroupID     uuid.UUID
	Meta        []byte
	Groups      [5]*snapChecks
	Blocks      []snapBlock
}

func snapActions(as []*workflow.Action) []snapAction {
	var out []snapAction
	for _, a := range as {
		out = append(out, snapAction{Name: a.Name, Descr: a.Descr, Plugin: a.Plugin, Timeout: a.Timeout, Retries: a.Retries, Key: a.Key, Req: asIs(a.Req), ReqDef: presented(a.Req)})
	}
	return out
}

func snapGroups(gs [5]*workflow.Checks) (out [5]*snapChecks) {
	for i, c := range gs {
		if c != nil {
			out[i] = &snapChecks{Key: c.Key, Delay: c.Delay, Actions: snapActions(c.Actions)}
		}
	}
	return out
}

// snapshot must only be called on plans without nil entries.
func snapshot(p *workflow.Plan) *snapPlan {
	sp := &snapPlan{Name: p.Name, Descr: p.Descr, GroupID: p.GroupID, Meta: append([]byte(nil), p.Meta...), Groups: snapGroups(planGroups(p))}
	for _, b := range p.Blocks {
		sb := snapBlock{Name: b.Name, Descr: b.Descr, Key: b.Key, Concurrency: b.Concurrency, Tolerated: b.ToleratedFailures, Groups: snapGroups(blockGroups(b))}
		for _, s := range b.Sequences {
			sb.Seqs = append(sb.Seqs, snapSeq{Name: s.Name, Descr: s.Descr, Key: s.Key, Actions: snapActions(s.Actions)})
		}
		sp.Blocks = append(sp.Blocks, sb)
	}
	return sp
}

// ---------------------------------------------------------------------------------------------------------------------
// checks on an accepted plan read back from storage

type acceptedChecker struct {
	res *vprop.Result
	ids map[uuid.UUID]string
	// reg: reference instances of the registered plugins
	reg map[string]plugins.Plugin
}

// "an accepted plan receives fresh pairwise-distinct v7 ids, a pristine NotStarted state on every object"
func (ac *acceptedChecker) object(path string, id uuid.UUID, st *workflow.State) {
	switch {
	case id == uuid.Nil:
		ac.res.Fail("C16/accepted:id-nil", "%s: stored object has a nil id", path)
	case id[6]>>4 != 7:
		ac.res.Fail("C16/accepted:id-version", "%s: stored id %s is not version 7", path, id)
	default:
		if other, dup := ac.ids[id]; dup {
			ac.res.Fail("C16/accepted:id-duplicate", "%s and %s share id %s", other, path, id)
		}
		ac.ids[id] = path
	}
	switch {
	case st == nil:
		ac.res.Fail("C16/accepted:state", "%s: stored State is nil", path)
	case st.Status != workflow.NotStarted:
		ac.res.Fail("C16/accepted:state", "%s: stored status is %v, want NotStarted", path, st.Status)
	case !st.Start.IsZero() || !st.End.IsZero():
		ac.res.Fail("C16/accepted:state", "%s: stored state has times start=%v end=%v, want zero", path, st.Start, st.End)
	}
}

func (ac *acceptedChecker) actions(path string, got []*workflow.Action, want []snapAction) {
	if len(got) != len(want) {
		ac.res.Fail("C16/accepted:structure", "%s: %d actions stored, %d submitted", path, len(got), len(want))
		return
	}
	for i, a := range got {
		ap := fmt.Sprintf("%s.a%d", path, i)
		if a == nil {
			ac.res.Fail("C16/accepted:structure", "%s: nil action stored", ap)
			continue
		}
		w := want[i]
		ac.object(ap, a.ID, a.State)
		if len(a.Attempts) != 0 { // pristine: nothing ran yet
			ac.res.Fail("C16/accepted:attempts", "%s: %d attempts stored at submit", ap, len(a.Attempts))
		}
		if a.Name != w.Name || a.Descr != w.Descr || a.Plugin != w.Plugin || a.Key != w.Key {
			ac.res.Fail("C16/accepted:definition", "%s: stored name/descr/plugin/key %q/%q/%q/%s, submitted %q/%q/%q/%s", ap, a.Name, a.Descr, a.Plugin, a.Key, w.Name, w.Descr, w.Plugin, w.Key)
		}
		// the stored request is the submitted one — as submitted or with its own Defaults() applied (see the header)
		if !reflect.DeepEqual(a.Req, w.Req) && !reflect.DeepEqual(a.Req, w.ReqDef) {
			ac.res.Fail("C16/accepted:definition-req", "%s: stored request %s, submitted %s (with its Defaults() applied: %s)", ap, showReq(a.Req), showReq(w.Req), showReq(w.ReqDef))
		}
		// "every action naming a registered plugin that accepts its request": holds for the accepted plan as stored
		if pl := ac.reg[a.Plugin]; pl != nil {
			if err := pl.ValidateReq(a.Req); err != nil {
				ac.res.Fail("C16/accepted:stored-req-refused", "%s: the stored request %s of the accepted plan is refused by plugin %q: %v", ap, showReq(a.Req), a.Plugin, err)
			}
		}
		// "timeouts of at least five seconds (zero meaning the default)": a non-zero timeout is kept; for a submitted
		// zero the statement fixes no value, only that the result is a timeout of at least five seconds
		switch {
		case w.Timeout != 0 && a.Timeout != w.Timeout:
			ac.res.Fail("C16/accepted:timeout", "%s: stored timeout %v, submitted %v", ap, a.Timeout, w.Timeout)
		case w.Timeout == 0 && a.Timeout < 5*time.Second:
			ac.res.Fail("C16/accepted:timeout", "%s: stored timeout %v for a submitted 0 (want a default of at least 5s)", ap, a.Timeout)
		}
		// retries: the submitted value, or clamped at 0 (no statement makes Submit materialise the clamp)
		if a.Retries != w.Retries && a.Retries != max(0, w.Retries) {
			ac.res.Fail("C16/accepted:retries", "%s: stored retries %d, submitted %d", ap, a.Retries, w.Retries)
		}
	}
}

func showReq(r any) string {
	if d, ok := r.(*DReq); ok && d != nil {
		return fmt.Sprintf("&%#v", *d)
	}
	return fmt.Sprintf("%#v", r)
}

func (ac *acceptedChecker) groups(path string, got [5]*workflow.Checks, want [5]*snapChecks) {
	for g := range got {
		gp := path + "." + groupNames[g]
		if (got[g] == nil) != (want[g] == nil) {
			ac.res.Fail("C16/accepted:structure", "%s: stored group present=%v, submitted present=%v", gp, got[g] != nil, want[g] != nil)
			continue
		}
		if got[g] == nil {
			continue
		}
		ac.object(gp, got[g].ID, got[g].State)
		if got[g].Key != want[g].Key {
			ac.res.Fail("C16/accepted:definition", "%s: stored key %s, submitted %s", gp, got[g].Key, want[g].Key)
		}
		if want[g].Delay != 0 && got[g].Delay != want[g].Delay {
			ac.res.Fail("C16/accepted:definition", "%s: stored delay %v, submitted %v", gp, got[g].Delay, want[g].Delay)
		}
		ac.actions(gp, got[g].Actions, want[g].Actions)
	}
}

func (ac *acceptedChecker) plan(p *workflow.Plan, want *snapPlan) {
	ac.object("plan", p.ID, p.State)
	// "and a submit time"
	if p.SubmitTime.IsZero() {
		ac.res.Fail("C16/accepted:submit-time", "stored plan has a zero SubmitTime")
	}
	if p.Reason != workflow.FRUnknown { // pristine
		ac.res.Fail("C16/accepted:reason", "stored plan has reason %v", p.Reason)
	}
	if p.Name != want.Name || p.Descr != want.Descr || p.GroupID != want.GroupID || !bytes.Equal(p.Meta, want.Meta) {
		ac.res.Fail("C16/accepted:definition", "plan: stored name/descr/group/meta %q/%q/%s/%q, submitted %q/%q/%s/%q", p.Name, p.Descr, p.GroupID, p.Meta, want.Name, want.Descr, want.GroupID, want.Meta)
	}
	ac.groups("plan", planGroups(p), want.Groups)
	if len(p.Blocks) != len(want.Blocks) {
		ac.res.Fail("C16/accepted:structure", "plan: %d blocks stored, %d submitted", len(p.Blocks), len(want.Blocks))
		return
	}
	for bi, b := range p.Blocks {
		bp := fmt.Sprintf("b%d", bi)
		if b == nil {
			ac.res.Fail("C16/accepted:structure", "%s: nil block stored", bp)
			continue
		}
		wb := want.Blocks[bi]
		ac.object(bp, b.ID, b.State)
		if b.Name != wb.Name || b.Descr != wb.Descr || b.Key != wb.Key || b.ToleratedFailures != wb.Tolerated {
			ac.res.Fail("C16/accepted:definition", "%s: stored name/descr/key/tolerated %q/%q/%s/%d, submitted %q/%q/%s/%d", bp, b.Name, b.Descr, b.Key, b.ToleratedFailures, wb.Name, wb.Descr, wb.Key, wb.Tolerated)
		}
		// concurrency: the submitted value, or raised to 1 ("1 when unset" may be applied at Submit or where it is used)
		if b.Concurrency != wb.Concurrency && b.Concurrency != max(1, wb.Concurrency) {
			ac.res.Fail("C16/accepted:concurrency", "%s: stored concurrency %d, submitted %d", bp, b.Concurrency, wb.Concurrency)
		}
		ac.groups(bp, blockGroups(b), wb.Groups)
		if len(b.Sequences) != len(wb.Seqs) {
			ac.res.Fail("C16/accepted:structure", "%s: %d sequences stored, %d submitted", bp, len(b.Sequences), len(wb.Seqs))
			continue
		}
		for si, s := range b.Sequences {
			sp := fmt.Sprintf("%s.s%d", bp, si)
			if s == nil {
				ac.res.Fail("C16/accepted:structure", "%s: nil sequence stored", sp)
				continue
			}
			ws := wb.Seqs[si]
			ac.object(sp, s.ID, s.State)
			if s.Name != ws.Name || s.Descr != ws.Descr || s.Key != ws.Key {
				ac.res.Fail("C16/accepted:definition", "%s: stored name/descr/key %q/%q/%s, submitted %q/%q/%s", sp, s.Name, s.Descr, s.Key, ws.Name, ws.Descr, ws.Key)
			}
			ac.actions(sp, s.Actions, ws.Actions)
		}
	}
}

// ---------------------------------------------------------------------------------------------------------------------
// storage observation and life-cycle helpers

// rowCounts counts the rows of every user table of the sqlite vault (Pool() is available in test binaries). The tables
// are discovered from sqlite_master: no table name of today's schema is assumed.
func rowCounts(ctx context.Context, v *sqlite.Vault) (counts map[string]int64, err error) {
	conn, err := v.Pool().Take(ctx)
	if err != nil {
		return nil, err
	}
	defer v.Pool().Put(conn)
	var names []string
	err = sqlitex.ExecuteTransient(conn, `SELECT name FROM sqlite_master WHERE type = 'table' AND name NOT LIKE 'sqlite_%' ORDER BY name`,
		&sqlitex.ExecOptions{ResultFunc: func(stmt *zsqlite.Stmt) error {
			names = append(names, stmt.ColumnText(0))
			return nil
		}})
	if err != nil {
		return nil, err
	}
	if len(names) == 0 {
		return nil, fmt.Errorf("the sqlite file has no user table")
	}
	q := "SELECT "
	for i, n := range names {
		if i > 0 {
			q += ", "
		}
		q += `(SELECT COUNT(*) FROM "` + strings.ReplaceAll(n, `"`, `""`) + `")`
	}
	counts = map[string]int64{}
	err = sqlitex.ExecuteTransient(conn, q, &sqlitex.ExecOptions{ResultFunc: func(stmt *zsqlite.Stmt) error {
		for i, n := range names {
			counts[n] = stmt.ColumnInt64(i)
		}
		return nil
	}})
	return counts, err
}

// Vaults are closed a few cases late: should the engine still have a straggling writer for a finished plan, a closed
// pool would make it log.Fatalf and kill the shard for a reason that has nothing to do with C16.
var closeLater []*sqlite.Vault

func retire(v *sqlite.Vault) {
	closeLater = append(closeLater, v)
	if len(closeLater) > 32 {
		_ = closeLater[0].Close(context.Background())
		closeLater = closeLater[1:]
	}
}

func trySubmit(ctx context.Context, ws *coercion.Workstream, p *workflow.Plan) (id uuid.UUID, err error, panicked any) {
	defer func() {
		if r := recover(); r != nil {
			panicked = r
		}
	}()
	id, err = ws.Submit(ctx, p)
	return id, err, nil
}

const waitDeadline = 60 * time.Second

// ---------------------------------------------------------------------------------------------------------------------
// the check

func checkSubmit(c SubmitCase) (res vprop.Result) {
	ctx := context.Background()

	execs := &atomic.Int64{}
	reg := registry.New()
	if err := reg.Register(&plug{name: checkPlugName, check: true, execs: execs}); err != nil {
		panic(err)
	}
	if err := reg.Register(&plug{name: workPlugName, check: false, execs: execs}); err != nil {
		panic(err)
	}
	if err := reg.Register(&plug{name: dCheckPlugName, check: true, dflt: true, execs: execs}); err != nil {
		panic(err)
	}
	if err := reg.Register(&plug{name: dWorkPlugName, check: false, dflt: true, execs: execs}); err != nil {
		panic(err)
	}
	vault, err := sqlite.New(ctx, "", reg, sqlite.WithInMemory())
	if err != nil {
		res.Skip = true
		res.Label("setup-error")
		return res
	}
	leaveOpen := false
	defer func() {
		if !leaveOpen {
			retire(vault)
		}
	}()
	ws, err := coercion.New(ctx, reg, vault)
	if err != nil {
		res.Skip = true
		res.Label("setup-error")
		return res
	}

	// the plan: valid shape, then the mutation operators in order
	plan := buildPlan(c)
	applied := 0
	for k, m := range c.Muts {
		kind := applyMutation(plan, m, c.Salt, k)
		if kind == "" {
			res.Label("op-noop:" + m.Op)
			continue
		}
		applied++
		res.Label("op:" + m.Op)
		res.Label("op:" + m.Op + "@" + kind)
	}
	res.NonTrivial = applied >= 1 // NT (DESIGN §5 C16): at least one mutation applied
	res.Label(fmt.Sprintf("mutations:%d", applied))

	ref := reference(plan)
	wellFormed := len(ref.reasons) == 0
	var snap *snapPlan
	if !ref.nilEntry {
		snap = snapshot(plan)
	}
	if ref.dreqZero > 0 {
		res.Label("dreq:zero")
		if wellFormed {
			// otherwise well-formed, with a request that is acceptable only once defaulted: the not-judged class
			res.Label("dreq:zero:well-formed")
		}
	}
	if ref.dreqSpelled > 0 {
		res.Label("dreq:spelled-out")
	}
	if ref.dreqInvalid > 0 {
		res.Label("dreq:invalid")
	}
	if wellFormed {
		res.Label("ref:well-formed")
	} else {
		res.Label("ref:ill-formed")
		for _, r := range ref.reasons {
			res.Label("ill:" + r)
		}
	}

	// optional baseline: the valid plan of the case, unmutated ("all valid plans" half of the quantifier)
	earlierIDs := map[uuid.UUID]bool{}
	if c.Baseline {
		res.Label("baseline")
		bplan := buildPlan(c)
		bref := reference(bplan)
		bid, berr, bpanic := trySubmit(ctx, ws, bplan)
		switch {
		case (berr != nil || bpanic != nil) && bref.defaultsDependent:
			// a valid plan whose requests rely on their Defaults(): its rejection is not judged (see the header)
			res.Label("baseline:rejected-unjudged")
		case berr != nil || bpanic != nil:
			res.Fail("C16/iff:rejected-well-formed", "Submit rejected the unmutated valid plan (baseline): err=%v panic=%v", berr, bpanic)
			return res
		default:
			bp, err := ws.Plan(ctx, bid)
			if err != nil || bp == nil {
				res.Fail("C16/accepted:unreadable", "accepted baseline plan %s cannot be read back: %v", bid, err)
				return res
			}
			for _, n := range enumerate(bp) {
				earlierIDs[*n.idPtr()] = true
			}
		}
	}

	before, err := rowCounts(ctx, vault)
	if err != nil {
		res.Skip = true
		res.Label("row-count-failed")
		return res
	}

	id, serr, panicked := trySubmit(ctx, ws, plan)
	accepted := serr == nil && panicked == nil
	switch {
	case panicked != nil:
		// The statement says "rejected", not how: a panic counts as a rejection (label only).
		res.Label("rejected-by-panic")
		res.Label("verdict:rejected")
		vprop.Count("submit_panics", 1)
		if !ref.nilEntry {
			res.Label("rejected-by-panic:without-nil-entry")
		}
	case accepted:
		res.Label("verdict:accepted")
	default:
		res.Label("verdict:rejected")
	}

	// "Submit accepts a plan if and only if it is well formed"
	judged := true
	if ref.presetRegistry && wellFormed {
		// pre-set registry on an otherwise well-formed plan: not judged (see header)
		judged = false
		if accepted {
			res.Label("preset-registry:accepted")
		} else {
			res.Label("preset-registry:rejected")
		}
	}
	if ref.defaultsDependent && wellFormed {
		// a request that is acceptable only once defaulted: not judged (see header)
		judged = false
		if accepted {
			res.Label("dreq:zero:accepted")
		} else {
			res.Label("dreq:zero:rejected")
		}
	}
	if wellFormed {
		if judged {
			res.Label("well-formed:judged")
		} else {
			res.Label("well-formed:not-judged")
		}
	}
	if judged && accepted && !wellFormed {
		res.Fail("C16/iff:accepted-ill-formed:"+ref.reasons[0], "Submit accepted a plan that is not well formed: %v", ref.reasons)
	}
	if judged && !accepted && wellFormed {
		res.Fail("C16/iff:rejected-well-formed", "Submit rejected a well-formed plan: err=%v panic=%v", serr, panicked)
	}

	if !accepted {
		// "A rejected plan leaves nothing in storage"
		after, err := rowCounts(ctx, vault)
		if err != nil {
			// not being able to count says nothing about the clause
			res.Skip = true
			res.Label("row-count-failed")
			return res
		}
		if !reflect.DeepEqual(after, before) {
			res.Fail("C16/rejected:storage-changed", "rejected Submit (err=%v panic=%v) changed the row counts of the tables from %v to %v", serr, panicked, before, after)
		}
		return res
	}
	if !wellFormed || snap == nil {
		// already reported above; the stored plan of an ill-formed submission is not inspected further and never started
		return res
	}

	// accepted: read back from storage
	stored, err := ws.Plan(ctx, id)
	if err != nil || stored == nil {
		res.Fail("C16/accepted:unreadable", "accepted plan %s cannot be read back: %v", id, err)
		return res
	}
	ac := &acceptedChecker{res: &res, ids: map[uuid.UUID]string{}, reg: ref.reg}
	ac.plan(stored, snap)
	// "fresh … ids": none of them was handed out to the plan submitted before
	for id, path := range ac.ids {
		if earlierIDs[id] {
			res.Fail("C16/accepted:id-not-fresh", "%s: id %s was already given to an object of the plan submitted before", path, id)
			break
		}
	}
	if len(res.Violations) > 0 {
		return res
	}

	// "Start additionally refuses plans whose check actions use non-check plugins"
	startErr := ws.Start(ctx, id)
	switch {
	case ref.nonCheckInChecks:
		res.Label("start:non-check-in-checks")
		if startErr == nil {
			res.Fail("C16/start:non-check-accepted", "Start accepted a plan whose check actions use a non-check plugin")
		}
	case ref.checkInSeq:
		// not judged (see header)
		if startErr == nil {
			res.Label("start:check-in-seq:started")
		} else {
			res.Label("start:check-in-seq:refused")
		}
	default:
		res.Label("start:plain")
		if startErr != nil {
			// "additionally refuses": the only extra condition Start imposes on an accepted plan
			res.Fail("C16/start:well-formed-refused", "Start refused an accepted plan without non-check plugins in check actions: %v", startErr)
		}
	}

	if startErr != nil {
		// refused: nothing may execute. Give a wrongly scheduled run a moment to show up (a miss here can only hide a
		// violation, never invent one).
		for i := 0; i < 3; i++ {
			runtime.Gosched()
			time.Sleep(300 * time.Microsecond)
		}
		if n := execs.Load(); n != 0 && ref.nonCheckInChecks {
			res.Fail("C16/start:non-check-executed", "Start refused the plan (%v) but %d plugin executions happened", startErr, n)
		}
		return res
	}

	// started: wait for the run to finish so that nothing leaks into the next case
	wctx, cancel := context.WithTimeout(ctx, waitDeadline)
	final, werr := ws.Wait(wctx, id)
	cancel()
	if werr != nil || final == nil {
		// the statement says nothing about the run; the case is complete as far as C16 goes, but the vault stays open
		leaveOpen = true
		res.Label("run:wait-failed")
		return res
	}
	res.Label(fmt.Sprintf("run:%v", final.State.Status))
	return res
}

func c16Spec() vprop.Spec[SubmitCase] {
	return vprop.Spec[SubmitCase]{
		ID:      "C16",
		Gen:     genCase,
		Check:   checkSubmit,
		Journal: true,
	}
}

func TestC16(t *testing.T) { vprop.Run(t, c16Spec()) }

// FuzzC16 is the byte-driven arm (thorough tier): the same generator and oracle driven by go's native coverage-guided
// fuzzer through rapid.MakeFuzz (vprop.Fuzz supplies the long seed corpus rapid needs).
func FuzzC16(f *testing.F) { vprop.Fuzz(f, c16Spec()) }
