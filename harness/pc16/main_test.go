package pc16

import (
	"log/slog"
	"testing"

	baselog "github.com/gostdlib/base/telemetry/log"

	"verifharness/vprop"
)

func TestMain(m *testing.M) {
	// The engine logs one Info line per Workstream ("no plans to recover"); tens of thousands of cases per shard
	// would drown the shard log. Errors stay visible.
	baselog.LogLevel.Set(slog.LevelError)
	vprop.Main(m)
}
