package pc16

// Test plugins of the C16 check: one check plugin and one non-check ("work") plugin. Each has its own request type;
// ValidateReq accepts exactly a value of that Go type whose Reject field is false. Execute succeeds immediately and
// counts its invocations (per case: the instances are created fresh for every case).
//
// A second pair ("dcheck" / "dwork") takes a pointer-typed request *DReq that has a Defaults() method: Submit calls
// Defaults() on every request that has one before the plugin is asked to validate it, so a request whose Mode was left
// at its zero value reaches ValidateReq as Mode "auto". ValidateReq of these plugins accepts only a non-nil *DReq whose
// Mode is "auto" or "manual" — a zero Mode is acceptable only once defaulted, any other Mode never.

import (
	"fmt"
	"sync/atomic"
	"time"

	"github.com/element-of-surprise/coercion/plugins"
	"github.com/element-of-surprise/coercion/workflow/context"
	"github.com/gostdlib/base/retry/exponential"
)

const (
	checkPlugName  = "verif/pc16.check"
	workPlugName   = "verif/pc16.work"
	dCheckPlugName = "verif/pc16.dcheck"
	dWorkPlugName  = "verif/pc16.dwork"
)

func isDPlug(name string) bool     { return name == dCheckPlugName || name == dWorkPlugName }
func isCheckPlug(name string) bool { return name == checkPlugName || name == dCheckPlugName }

// DReq is the request type of the dcheck / dwork plugins (always used through a pointer).
type DReq struct {
	Arg string
	// Mode is "auto" or "manual"; the zero value means "auto" (filled in by Defaults).
	Mode string
}

// Defaults is what Workstream.Submit calls on every request object that has it.
func (r *DReq) Defaults() {
	if r.Mode == "" {
		r.Mode = "auto"
	}
}

func validMode(m string) bool { return m == "auto" || m == "manual" }

// ReqCheck is the request type of the check plugin.
type ReqCheck struct {
	Arg    string
	Reject bool
}

// ReqWork is the request type of the non-check plugin.
type ReqWork struct {
	Arg    string
	N      int
	Reject bool
}

// ReqOther is a request type no plugin accepts.
type ReqOther struct {
	X int
}

// Resp is the response of both plugins.
type Resp struct {
	Done bool
}

type plug struct {
	name  string
	check bool
	// dflt: the plugin takes *DReq (request with Defaults()) instead of ReqCheck / ReqWork.
	dflt  bool
	execs *atomic.Int64
}

var _ plugins.Plugin = (*plug)(nil)

func (p *plug) Name() string { return p.name }

func (p *plug) Execute(ctx context.Context, req any) (any, *plugins.Error) {
	if p.execs != nil {
		p.execs.Add(1)
	}
	return Resp{Done: true}, nil
}

func (p *plug) ValidateReq(req any) error {
	if p.dflt {
		r, ok := req.(*DReq)
		if !ok || r == nil {
			return fmt.Errorf("request is %T, want a non-nil *pc16.DReq", req)
		}
		if !validMode(r.Mode) {
			return fmt.Errorf("Mode %q is neither auto nor manual", r.Mode)
		}
		return nil
	}
	if p.check {
		r, ok := req.(ReqCheck)
		if !ok {
			return fmt.Errorf("request is %T, want pc16.ReqCheck", req)
		}
		if r.Reject {
			return fmt.Errorf("request has Reject set")
		}
		return nil
	}
	r, ok := req.(ReqWork)
	if !ok {
		return fmt.Errorf("request is %T, want pc16.ReqWork", req)
	}
	if r.Reject {
		return fmt.Errorf("request has Reject set")
	}
	return nil
}

func (p *plug) Request() any {
	if p.dflt {
		return &DReq{}
	}
	if p.check {
		return ReqCheck{}
	}
	return ReqWork{}
}

func (p *plug) Response() any { return Resp{} }

func (p *plug) IsCheck() bool { return p.check }

func (p *plug) RetryPolicy() exponential.Policy {
	return exponential.Policy{InitialInterval: 200 * time.Microsecond, Multiplier: 1.5, MaxInterval: time.Millisecond}
}

func (p *plug) Init() error { return nil }
