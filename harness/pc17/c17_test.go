package pc17

// C17 — Secure-tagged values never leak.
//
//	"A value held in a request or response field tagged coerce:"secure" never appears in the result of the default clone
//	 operations nor in any file of a rendered HTML report, however deeply it is nested in structs, pointers, slices,
//	 maps or interface values (Go arrays excepted, as documented), while untagged data and the original plan are left
//	 intact. The registry refuses to register a plugin whose request or response type has a secret-looking field name
//	 without an explicit secure or ignore tag."
//
// A case is either a leak case (generated request/response types filled with unique canaries, placed in sequence
// actions, check actions and attempts of a plan) or a registry case (registry_test.go).
//
// Readings (weaker one taken where the statement is ambiguous):
//   - "default clone operations" = clone.{Plan,Block,Sequence,Checks,Action} without WithKeepSecrets. WithKeepState is
//     included: its doc comment says it keeps "IDs, output, etc." for display; nothing in it keeps secrets, and the
//     package's own tests expect secrets to be hidden under WithKeepState alone. WithRemoveCompletedSequences (stored plans only) is
//     judged for the leak clause and "original intact" only, objects being legitimately removed under it.
//   - "the original plan [is] left intact" is asserted for the clone operations only. reports.Render documents that it
//     "may alter the Plan object to eliminate Request and Response fields ... marked secure", so for Render only the
//     clause "untagged data ... left intact" is asserted (untagged canaries still in the caller's plan). What a report
//     prints of the untagged data is not in the statement: untagged canaries found in report files are only counted.
//   - A panic inside clone / Render produces no output and therefore leaks nothing: counted under a label, no violation.

import (
	"context"
	"encoding/json"
	"fmt"
	"io/fs"
	"os"
	"reflect"
	"sort"
	"strings"
	"testing"

	jsonexp "github.com/go-json-experiment/json"
	"pgregory.net/rapid"

	"github.com/element-of-surprise/coercion/workflow"
	"github.com/element-of-surprise/coercion/workflow/utils/clone"
	"github.com/element-of-surprise/coercion/workflow/utils/html/reports"

	"verifharness/vprop"
)

// Case is one C17 case: exactly one of the halves is set.
type Case struct {
	Leak *LeakCase `json:"leak,omitempty"`
	Reg  *RegCase  `json:"reg,omitempty"`
}

// ---------------------------------------------------------------------------------------------------------------------
// generator

func genCarrier(t *rapid.T, state int) Carrier {
	c := Carrier{}
	c.T = genTop(t)
	c.TopPtr = rapid.IntRange(0, 2).Draw(t, "topptr") == 2
	if !rapid.Bool().Draw(t, "incheck") {
		c.Slot = slotSeq
	} else {
		// the bypass group of the block (slot 6) a little more often: once it is Completed,
		// WithRemoveCompletedSequences drops the block and clone.Plan takes its "no blocks left" path
		c.Slot = rapid.SampledFrom([]int{1, 2, 3, 4, 5, 6, 6, 6, 7, 8, 9, 10}).Draw(t, "slot")
	}
	if state != stFresh {
		c.Resp = rapid.IntRange(0, 2).Draw(t, "resp") == 2
		if c.Resp {
			c.FailedBefore = rapid.SampledFrom([]int{0, 0, 1}).Draw(t, "failedbefore")
		}
	}
	switch state {
	case stRunning:
		// a mix of NotStarted / Running / Completed (/ Failed) actions: WithRemoveCompletedSequences removes some
		c.Status = rapid.SampledFrom([]int{2, 2, 1, 3, 3, 3, 4, 0}).Draw(t, "status")
	case stFailed:
		c.Status = rapid.SampledFrom([]int{4, 3, 3, 1, 0}).Draw(t, "status")
	}
	return c
}

func genLeakCase(t *rapid.T) *LeakCase {
	lc := &LeakCase{}
	lc.State = rapid.SampledFrom([]int{stFresh, stRunning, stCompleted, stCompleted, stFailed}).Draw(t, "state")
	// a slice generator, so that the shrinker can drop carriers that do not matter
	lc.Carriers = rapid.SliceOfN(rapid.Custom(func(t *rapid.T) Carrier { return genCarrier(t, lc.State) }), 1, 4).Draw(t, "carriers")
	if lc.State != stFresh {
		lc.FillGroups = rapid.Bool().Draw(t, "fillgroups")
		if lc.FillGroups {
			lc.FillStatus = rapid.SampledFrom([]int{0, 1, 2, 3, 4}).Draw(t, "fillstatus")
		}
	}
	// twin types (twin_test.go): in about 1 of 22 leak cases one carrier's type holds a value of a twin type (rapid
	// draws the upper bound of 0..24 in 4-5% of the draws; the shrinker moves towards 0, away from the class)
	if rapid.IntRange(0, 24).Draw(t, "twin") == 24 {
		i := rapid.IntRange(0, len(lc.Carriers)-1).Draw(t, "twincarrier")
		lc.Carriers[i].T = genTwinTop(t)
	}
	return lc
}

func genCase(t *rapid.T) Case {
	if rapid.IntRange(0, 4).Draw(t, "mode") == 0 {
		return Case{Reg: genRegCase(t)}
	}
	return Case{Leak: genLeakCase(t)}
}

// ---------------------------------------------------------------------------------------------------------------------
// oracle

func checkCase(c Case) (res vprop.Result) {
	switch {
	case c.Leak != nil && c.Reg == nil:
		checkLeak(c.Leak, &res)
	case c.Reg != nil && c.Leak == nil:
		checkRegistry(c.Reg, &res)
	default:
		res.Skip = true
		res.Label("invalid-case")
	}
	return res
}

func validLeak(lc *LeakCase) error {
	if len(lc.Carriers) == 0 || len(lc.Carriers) > 6 {
		return fmt.Errorf("%d carriers", len(lc.Carriers))
	}
	if lc.State < stFresh || lc.State > stFailed {
		return fmt.Errorf("state %d", lc.State)
	}
	for i := range lc.Carriers {
		c := &lc.Carriers[i]
		if c.Slot < 0 || c.Slot > slotMax || c.FailedBefore < 0 || c.FailedBefore > 2 || c.Status < 0 || c.Status > 4 {
			return fmt.Errorf("bad placement")
		}
		if c.T.K != kStruct && c.T.K != kRec && c.T.K != kTwin {
			return fmt.Errorf("request type must be a struct")
		}
		leaves := 0
		if err := validShape(&c.T, 0, false, &leaves); err != nil {
			return err
		}
		if leaves > maxLeaves {
			return fmt.Errorf("%d leaves", leaves)
		}
	}
	return nil
}

// failOnce records at most one violation per rule (the first), so that messages stay small and known-finding
// filtering sees every distinct signature.
type failer struct {
	res  *vprop.Result
	seen map[string]bool
}

func (f *failer) fail(rule, format string, a ...any) {
	if f.seen[rule] {
		return
	}
	f.seen[rule] = true
	f.res.Fail(rule, format, a...)
}

type cloneOp struct {
	name string
	// scope: indices of the carriers whose action lies inside the cloned object
	scope map[int]bool
	run   func(opts ...clone.Option) any
}

func panicClass(p any) string {
	s := fmt.Sprint(p)
	// keep the constant part of the message (type names of generated structs are long and vary)
	if i := strings.IndexAny(s, "({\""); i > 0 {
		s = s[:i]
	}
	s = strings.TrimSpace(s)
	if len(s) > 60 {
		s = s[:60]
	}
	return strings.ReplaceAll(s, " ", "_")
}

func isNilResult(v any) bool {
	if v == nil {
		return true
	}
	rv := reflect.ValueOf(v)
	return rv.Kind() == reflect.Pointer && rv.IsNil()
}

func checkLeak(lc *LeakCase, res *vprop.Result) {
	res.Label("mode:leak")
	if err := validLeak(lc); err != nil {
		res.Skip = true
		res.Label("invalid-case")
		return
	}
	f := &failer{res: res, seen: map[string]bool{}}
	ctx := context.Background()

	// twin types: the primer of every carrier that holds a twin value runs first, in this process (twin_test.go)
	for i := range lc.Carriers {
		if len(twinRefs(&lc.Carriers[i].T, nil)) > 0 {
			runTwinPrimer(&lc.Carriers[i], res)
		}
	}

	orig := buildPlan(lc)
	twin := buildPlan(lc) // the pre-call snapshot: same construction, disjoint memory
	if !reflect.DeepEqual(orig.plan, twin.plan) {
		res.Skip = true
		res.Label("harness:nondeterministic-build")
		return
	}

	// ---- classification -------------------------------------------------------------------------------------------
	res.Label("state:" + stateNames[lc.State])
	res.Label(fmt.Sprintf("carriers:%d", len(lc.Carriers)))
	edgeSet := map[string]bool{}
	for i := range lc.Carriers {
		c := &lc.Carriers[i]
		edges(&c.T, edgeSet)
		switch {
		case orig.carriers[i].isResp:
			res.Label("place:attempt-resp")
		case c.Slot == slotSeq:
			res.Label("place:sequence-req")
		default:
			res.Label("place:check-req")
		}
		if c.TopPtr {
			res.Label("top:pointer")
		}
		if hasNonStringMap(&c.T) {
			res.Label("map-with-non-string-key")
		}
		if hasDup(&c.T) {
			res.Label("pointer-reachable-twice")
		}
		if hasSpelledTag(&c.T) {
			res.Label("secure-tag-spelled-differently")
		}
	}
	for e := range edgeSet {
		res.Label("edge:" + e)
	}
	// recursive static types (rec_test.go)
	for i := range lc.Carriers {
		if lc.Carriers[i].T.K == kRec {
			res.Label("rec:as-request/response-type")
		}
		for _, r := range recRoots(&lc.Carriers[i].T, nil) {
			res.Label("rec:present")
			res.Label("rec:root:" + recTypeNames[r.Type])
		}
	}
	for _, c := range orig.canaries {
		if i := strings.Index(c.Path, kRec); c.Secret && i >= 0 && strings.Contains(c.Path[i:], kStruct) {
			// a secure-tagged field of a family struct that is reached through another family struct
			res.Label("rec:secure-canary-in-nested-struct-of-recursive-type")
			break
		}
	}
	// twin types (twin_test.go)
	for i := range lc.Carriers {
		if lc.Carriers[i].T.K == kTwin {
			res.Label("twin:as-request/response-type")
		}
		for _, w := range twinRefs(&lc.Carriers[i].T, nil) {
			res.Label("twin:present")
			res.Label("twin:pair:" + twinPairNames[w.Pair])
			if w.Secret {
				res.Label("twin:secret-after-benign-primer")
			} else {
				res.Label("twin:benign-after-secret-primer")
			}
		}
	}
	for _, c := range orig.canaries {
		if strings.HasSuffix(classOf(c), ":twin-type") {
			if c.Secret {
				res.Label("twin:secure-canary-in-twin-value")
			} else if !c.Ignored {
				res.Label("twin:untagged-canary-in-twin-value")
			}
		}
	}
	nSecret, nOpen := 0, 0
	securePaths := map[string]bool{}
	for _, c := range orig.canaries {
		if c.Secret {
			nSecret++
			securePaths[c.Path] = true
			// NT: "a secure leaf at depth >= 2 or behind an interface/map/slice"
			if c.Depth >= 2 || c.Behind {
				res.NonTrivial = true
			}
			if c.Behind {
				res.Label("secure-behind-iface/map/slice")
			}
		} else {
			nOpen++
		}
	}
	for _, c := range orig.canaries {
		if !c.Secret || c.IgnoreAbove == "" {
			continue
		}
		// the class of seed C17-r3: a secure-tagged field below an ignore-tagged container field
		res.Label("secure-canary-below-ignore-tagged-container")
		ks := strings.Split(c.IgnoreAbove, ">")
		for _, k := range ks {
			res.Label("secure-canary-below-ignore-tagged-container:" + k)
		}
		if len(ks) >= 2 {
			res.Label("secure-canary-below-ignore-tagged-container:nested-twice")
		}
	}
	for p := range securePaths {
		k := p[strings.LastIndex(p, ">")+1:]
		res.Label("secure-field-kind:" + k)
	}
	if nSecret == 0 {
		res.Label("no-secret-canary")
	}
	vprop.Count("canaries_secret", int64(nSecret))
	vprop.Count("canaries_untagged", int64(nOpen))

	// ---- (1)(2)(3) default clone operations ---------------------------------------------------------------------------
	actionIdx := map[*workflow.Action]int{}
	for i, bc := range orig.carriers {
		actionIdx[bc.action] = i
	}
	all := map[int]bool{}
	for i := range orig.carriers {
		all[i] = true
	}
	scopeOf := func(acts []*workflow.Action) map[int]bool {
		m := map[int]bool{}
		for _, a := range acts {
			if i, ok := actionIdx[a]; ok {
				m[i] = true
			}
		}
		return m
	}
	p := orig.plan
	blk := p.Blocks[0]
	var ops []cloneOp
	ops = append(ops, cloneOp{"Plan", all, func(o ...clone.Option) any { return clone.Plan(ctx, p, o...) }})
	blockScope := map[int]bool{}
	for i, bc := range orig.carriers {
		if !bc.inPlan {
			blockScope[i] = true
		}
	}
	ops = append(ops, cloneOp{"Block", blockScope, func(o ...clone.Option) any { return clone.Block(ctx, blk, o...) }})
	for _, s := range blk.Sequences {
		s := s
		ops = append(ops, cloneOp{"Sequence", scopeOf(s.Actions), func(o ...clone.Option) any { return clone.Sequence(ctx, s, o...) }})
	}
	for _, g := range []*workflow.Checks{p.BypassChecks, p.PreChecks, p.ContChecks, p.PostChecks, p.DeferredChecks,
		blk.BypassChecks, blk.PreChecks, blk.ContChecks, blk.PostChecks, blk.DeferredChecks} {
		if g == nil {
			continue
		}
		g := g
		ops = append(ops, cloneOp{"Checks", scopeOf(g.Actions), func(o ...clone.Option) any { return clone.Checks(ctx, g, o...) }})
	}
	for _, bc := range orig.carriers {
		a := bc.action
		ops = append(ops, cloneOp{"Action", scopeOf([]*workflow.Action{a}), func(o ...clone.Option) any { return clone.Action(ctx, a, o...) }})
	}

	// Option sets. None contains WithKeepSecrets, whose doc comment says of the secure-tagged values "By default they are
	// wiped when cloning": every clone made without it must be scrubbed. WithRemoveCompletedSequences reads the State of
	// every object it meets, so it is used on stored plans only (all objects have a State there); objects are
	// legitimately removed under it, so only the leak clause and "original left intact" are judged for those sets.
	type optSet struct {
		keepState, removeCompleted bool
	}
	sets := []optSet{{false, false}, {true, false}}
	if lc.State != stFresh {
		sets = append(sets, optSet{false, true}, optSet{true, true})
		res.Label("rc:ran")
	}
	for _, set := range sets {
		keepState := set.keepState
		for _, op := range ops {
			name := "clone." + op.name
			var opts []clone.Option
			if keepState {
				name += "+WithKeepState"
				opts = append(opts, clone.WithKeepState())
			}
			if set.removeCompleted {
				name += "+WithRemoveCompletedSequences"
				opts = append(opts, clone.WithRemoveCompletedSequences())
			}
			var out any
			pv := func() (pv any) {
				defer func() { pv = recover() }()
				out = op.run(opts...)
				return nil
			}()
			if pv != nil {
				// no output, nothing leaked: label only
				if set.removeCompleted {
					res.Label("panic:clone:remove-completed")
					res.Label("panic:clone:remove-completed:" + op.name + ":" + panicClass(pv))
				} else {
					res.Label("panic:clone")
					res.Label("panic:clone:" + panicClass(pv))
					for e := range edgeSet {
						if hardEdges[e] {
							res.Label("panic:clone:shape-has:" + e)
						}
					}
				}
			} else if set.removeCompleted {
				judgeRemoveCompleted(f, name, out, orig, op, keepState)
			} else {
				if isNilResult(out) {
					res.Label("clone-returned-nil") // judged like any other result: its untagged data is gone
					out = nil
				}
				judgeClone(f, name, out, orig, op.scope, keepState)
			}
			// (3) "the original plan [is] left intact": compare with the snapshot after every call
			if !reflect.DeepEqual(orig.plan, twin.plan) {
				f.fail("C17/original-mutated:clone", "%s changed the plan it was given (original no longer deep-equal to its pre-call snapshot)", name)
				return
			}
		}
	}

	// ---- (4) rendered HTML report -------------------------------------------------------------------------------------
	if lc.State == stFresh {
		res.Label("render:skipped-fresh-plan")
		return
	}
	judgeRender(f, res, lc)
}

// runTwinPrimer passes the primer of a carrier (the same request with the other member of every twin pair) through
// clone.Plan with default options and through reports.Render. Nothing is judged here: the results are dropped, panics
// are recovered and labelled.
func runTwinPrimer(c *Carrier, res *vprop.Result) {
	ctx := context.Background()
	pc := twinPrimerCase(c)
	for _, run := range []func(p *workflow.Plan){
		func(p *workflow.Plan) { _ = clone.Plan(ctx, p) },
		func(p *workflow.Plan) { _, _ = reports.Render(ctx, p) },
	} {
		vb := buildPlan(pc) // each call gets its own copy
		func() {
			defer func() {
				if recover() != nil {
					res.Label("panic:twin-primer")
				}
			}()
			run(vb.plan)
		}()
	}
	res.Label("twin:primer-ran")
}

// recRoots lists the recursive-type values inside a shape.
func recRoots(s *Shape, out []*RecRoot) []*RecRoot {
	switch s.K {
	case kRec:
		out = append(out, s.R)
	case kStruct:
		for i := range s.F {
			out = recRoots(&s.F[i].T, out)
		}
	case kPtr, kSlice, kMap, kIface:
		out = recRoots(s.E, out)
	}
	return out
}

func describe(c Canary, orig *builtPlan) string {
	where := "request"
	if orig.carriers[c.Carrier].isResp {
		where = "response"
	}
	return fmt.Sprintf("%s of action %q, path %s", where, orig.carriers[c.Carrier].action.Name, c.Path)
}

func judgeClone(f *failer, name string, out any, orig *builtPlan, scope map[int]bool, keepState bool) {
	fnd := scanAny(out)
	docs := map[string][]byte{}
	if b, err := json.Marshal(out); err == nil {
		docs["encoding/json"] = b
	} else {
		f.res.Label("clone-json-unencodable:encoding/json")
	}
	if b, err := jsonexp.Marshal(out); err == nil {
		docs["go-json-experiment"] = b
	} else {
		f.res.Label("clone-json-unencodable:go-json-experiment")
	}
	for _, c := range orig.canaries {
		if c.Secret {
			// (1) "A value held in a request or response field tagged coerce:"secure" never appears in the result of the
			//      default clone operations ... however deeply it is nested"
			if fnd.has(c) {
				f.fail("C17/clone-leak:"+classOf(c), "%s: secure canary %v (%s) is present in the clone", name, c, describe(c, orig))
				continue
			}
			for enc, doc := range docs {
				if textHas(doc, c) {
					f.fail("C17/clone-leak-json:"+classOf(c), "%s: secure canary %v (%s) is present in the %s encoding of the clone", name, c, describe(c, orig), enc)
				}
			}
			continue
		}
		// (2) "while untagged data ... [is] left intact": requests always; responses when the attempts are kept
		if !scope[c.Carrier] {
			continue
		}
		if orig.carriers[c.Carrier].isResp && !keepState {
			continue
		}
		if c.Ignored {
			continue // data in / below an ignore-tagged field: "untagged" does not clearly cover it, not asserted
		}
		if !fnd.has(c) {
			f.fail("C17/clone-untagged-lost:"+classOf(c), "%s: untagged canary %v (%s) is missing from the clone", name, c, describe(c, orig))
		}
	}
}

// judgeRemoveCompleted judges a clone made with WithRemoveCompletedSequences: only
// (1) "A value held in a request or response field tagged coerce:"secure" never appears in the result of the default
// clone operations". Objects are legitimately removed, so nothing is said about untagged data; a nil result (everything
// removed) holds nothing and is fine.
func judgeRemoveCompleted(f *failer, name string, out any, orig *builtPlan, op cloneOp, keepState bool) {
	res := f.res
	if isNilResult(out) {
		res.Label("rc:result-nil")
		return
	}
	// classification: which carriers' actions are still in the result (clones keep the action names)
	left := map[int]bool{}
	nilEntries := false
	var visit func(acts []*workflow.Action)
	visit = func(acts []*workflow.Action) {
		for _, a := range acts {
			if a == nil {
				nilEntries = true
				continue
			}
			for i, bc := range orig.carriers {
				if bc.action.Name == a.Name {
					left[i] = true
				}
			}
		}
	}
	groups := func(gs ...*workflow.Checks) {
		for _, g := range gs {
			if g != nil {
				visit(g.Actions)
			}
		}
	}
	block := func(b *workflow.Block) {
		if b == nil {
			return
		}
		groups(b.BypassChecks, b.PreChecks, b.ContChecks, b.PostChecks, b.DeferredChecks)
		for _, sq := range b.Sequences {
			if sq != nil {
				visit(sq.Actions)
			}
		}
	}
	switch v := out.(type) {
	case *workflow.Plan:
		groups(v.BypassChecks, v.PreChecks, v.ContChecks, v.PostChecks, v.DeferredChecks)
		for _, b := range v.Blocks {
			block(b)
		}
		if len(v.Blocks) == 0 {
			res.Label("rc:plan-returned-without-blocks")
		}
	case *workflow.Block:
		block(v)
	case *workflow.Sequence:
		visit(v.Actions)
	case *workflow.Checks:
		visit(v.Actions)
	case *workflow.Action:
		visit([]*workflow.Action{v})
	}
	if nilEntries {
		res.Label("rc:nil-action-entries-in-result")
	}
	if len(left) < len(op.scope) {
		res.Label("rc:something-removed")
	}
	if len(left) > 0 {
		res.Label("rc:something-left")
	}
	if len(left) > 0 && len(left) < len(op.scope) {
		res.Label("rc:partly-removed")
	}
	for _, c := range orig.canaries {
		if c.Secret && left[c.Carrier] && (!orig.carriers[c.Carrier].isResp || keepState) {
			res.Label("rc:secure-canary-in-scope-of-result")
			res.Label("rc:secure-canary-in-scope-of-result:" + op.name)
			if pl, ok := out.(*workflow.Plan); ok && len(pl.Blocks) == 0 {
				res.Label("rc:secure-canary-in-scope-of-result:Plan-without-blocks")
			}
			break
		}
	}

	fnd := scanAny(out)
	docs := map[string][]byte{}
	if b, err := json.Marshal(out); err == nil {
		docs["encoding/json"] = b
	}
	if b, err := jsonexp.Marshal(out); err == nil {
		docs["go-json-experiment"] = b
	}
	for _, c := range orig.canaries {
		if !c.Secret {
			continue
		}
		if fnd.has(c) {
			f.fail("C17/clone-leak:"+classOf(c)+":remove-completed", "%s: secure canary %v (%s) is present in the clone", name, c, describe(c, orig))
			continue
		}
		for enc, doc := range docs {
			if textHas(doc, c) {
				f.fail("C17/clone-leak-json:"+classOf(c)+":remove-completed", "%s: secure canary %v (%s) is present in the %s encoding of the clone", name, c, describe(c, orig), enc)
			}
		}
	}
}

func judgeRender(f *failer, res *vprop.Result, lc *LeakCase) {
	ctx := context.Background()
	rp := buildPlan(lc) // Render may alter the plan it is given: it gets its own copy
	var rfs fs.ReadFileFS
	var err error
	pv := func() (pv any) {
		defer func() { pv = recover() }()
		rfs, err = reports.Render(ctx, rp.plan)
		return nil
	}()
	if pv != nil {
		res.Label("panic:render")
		res.Label("panic:render:" + panicClass(pv))
		return
	}
	if err != nil || rfs == nil {
		// no report, nothing leaked; the statement does not promise that every plan renders
		res.Label("render:error")
		return
	}
	res.Label("render:ok")

	type file struct {
		name  string
		parts [][]byte
	}
	var files []file
	werr := fs.WalkDir(rfs, ".", func(path string, d fs.DirEntry, err error) error {
		if err != nil {
			return err
		}
		if d.IsDir() {
			return nil
		}
		b, err := rfs.ReadFile(path)
		if err != nil {
			return err
		}
		files = append(files, file{path, scanParts(b)})
		return nil
	})
	if werr != nil {
		res.Skip = true
		res.Label("render:unreadable-fs")
		return
	}
	vprop.Count("report_files", int64(len(files)))
	// the report of a stored plan has plan.html, one file per sequence and one per action
	want := 1 + len(rp.plan.Blocks[0].Sequences)
	for range allActions(rp.plan) {
		want++
	}
	if len(files) != want {
		res.Label("render:unexpected-file-count")
	}
	inFiles := func(c Canary) string {
		for _, fl := range files {
			for _, part := range fl.parts {
				if textHas(part, c) {
					return fl.name
				}
			}
		}
		return ""
	}

	// which carriers can the template show? (action.tmpl: `jsonMarshal .Req`, and `jsonMarshal .Resp` of attempts
	// without Err, encoded with go-json-experiment) — presence is asserted only if that encoder accepts the value.
	encodable := make([]bool, len(rp.carriers))
	ref := buildPlan(lc)
	for i, bc := range ref.carriers {
		var v any = bc.action.Req
		if bc.isResp {
			v = bc.action.Attempts[len(bc.action.Attempts)-1].Resp
		}
		_, e := jsonexp.Marshal(v)
		encodable[i] = e == nil
	}

	after := scanAny(rp.plan)
	foundUntagged, missingUntagged := 0, 0
	for _, c := range rp.canaries {
		if c.Secret {
			// (4) "... nor in any file of a rendered HTML report"
			if name := inFiles(c); name != "" {
				f.fail("C17/report-leak:"+classOf(c), "reports.Render: secure canary %v (%s) occurs in report file %s", c, describe(c, rp), name)
			}
			continue
		}
		// "while untagged data ... [is] left intact": still in the caller's plan
		if !c.Ignored && !after.has(c) {
			f.fail("C17/render-untagged-lost-in-plan:"+classOf(c), "reports.Render removed untagged canary %v (%s) from the plan it was given", c, describe(c, rp))
		}
		// What a report prints is not part of the statement (it may leave responses out, summarise blobs, ...): an
		// untagged value that is not shown is NO violation. The untagged canaries that ARE found are counted, as
		// evidence that the text scan can see planted values at all; conf/C17.json puts a floor on the label so that a
		// scan that sees nothing makes the run INCONCLUSIVE instead of green.
		if inFiles(c) != "" {
			foundUntagged++
		} else if encodable[c.Carrier] {
			missingUntagged++
		}
	}
	if foundUntagged > 0 {
		res.Label("report:untagged-canary-found")
	}
	if missingUntagged > 0 {
		res.Label("report:untagged-canary-not-shown")
	}
	vprop.Count("report_untagged_canaries_found", int64(foundUntagged))
	vprop.Count("report_untagged_canaries_not_shown", int64(missingUntagged))
}

func allActions(p *workflow.Plan) []*workflow.Action {
	var out []*workflow.Action
	groups := func(gs ...*workflow.Checks) {
		for _, g := range gs {
			if g != nil {
				out = append(out, g.Actions...)
			}
		}
	}
	groups(p.BypassChecks, p.PreChecks, p.ContChecks, p.PostChecks, p.DeferredChecks)
	for _, b := range p.Blocks {
		groups(b.BypassChecks, b.PreChecks, b.ContChecks, b.PostChecks, b.DeferredChecks)
		for _, s := range b.Sequences {
			out = append(out, s.Actions...)
		}
	}
	return out
}

// sample renders a compact description of a case for the evidence file.
func sampleOf(c Case) any {
	if c.Leak == nil {
		return c
	}
	var parts []string
	for i := range c.Leak.Carriers {
		k := &c.Leak.Carriers[i]
		parts = append(parts, fmt.Sprintf("slot=%d resp=%v top*=%v type=%s", k.Slot, k.Resp, k.TopPtr, typeOf(&k.T)))
	}
	sort.Strings(parts)
	return map[string]any{"state": stateNames[c.Leak.State], "carriers": parts}
}

func TestC17(t *testing.T) {
	vprop.Run(t, vprop.Spec[Case]{
		ID:  "C17",
		Gen: genCase,
		Check: func(c Case) vprop.Result {
			r := checkCase(c)
			// a label counts cases, not occurrences inside a case
			seen := map[string]bool{}
			uniq := r.Labels[:0]
			for _, l := range r.Labels {
				if !seen[l] {
					seen[l] = true
					uniq = append(uniq, l)
				}
			}
			r.Labels = uniq
			if os.Getenv("PC17_CENSUS") != "" {
				// diagnostic aid (never set by the driver): keep generating behind violations so that the label
				// histogram (panicking shapes, violated rules) of a whole run can be read from the stats file
				for _, v := range r.Violations {
					r.Label("census:" + v.Rule)
				}
				r.Violations = nil
			}
			if c.Leak != nil && !r.Skip {
				func() {
					defer func() { _ = recover() }()
					r.Sample = sampleOf(c)
				}()
			}
			return r
		},
	})
}
