package pc17

// Native fuzzing entry (thorough tier): the same generator and oracle, driven by go's coverage-guided mutator through
// rapid.MakeFuzz. A failing execution writes a replay file in the usual format before failing.

import (
	"encoding/json"
	"os"
	"path/filepath"
	"testing"

	"pgregory.net/rapid"

	"verifharness/vprop"
)

func FuzzC17(f *testing.F) {
	// rapid consumes 8 input bytes per drawn word and skips an execution whose input runs out, so the seed corpus has
	// to be long: eight fixed 4 KiB byte strings (a constant xorshift sequence; this is corpus data, not a source of
	// randomness of the check — every choice of a case is still a rapid draw from the fuzzer's input).
	for seed := uint64(1); seed <= 8; seed++ {
		x := seed * 0x9E3779B97F4A7C15
		b := make([]byte, 4096)
		for i := range b {
			x ^= x << 13
			x ^= x >> 7
			x ^= x << 17
			b[i] = byte(x >> 32)
		}
		f.Add(b)
	}
	f.Fuzz(rapid.MakeFuzz(func(t *rapid.T) {
		c := genCase(t)
		res := checkCase(c)
		for _, v := range res.Violations {
			if vprop.IsKnown("C17", v.Rule) {
				continue
			}
			dir := os.Getenv("VERIF_REPLAY_OUT_DIR")
			if dir == "" {
				dir = os.TempDir()
			}
			p := filepath.Join(dir, "C17-fuzz.json")
			cb, _ := json.Marshal(c)
			out, _ := json.MarshalIndent(map[string]any{
				"property": "C17", "rule": v.Rule, "message": v.Msg, "case": json.RawMessage(cb),
			}, "", " ")
			_ = os.WriteFile(p, out, 0o644)
			t.Fatalf("VERIF-FAIL property=C17 rule=%s replay=%s :: %s", v.Rule, p, v.Msg)
		}
	}))
}
