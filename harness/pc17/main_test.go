package pc17

import (
	"testing"

	"verifharness/vprop"
)

func TestMain(m *testing.M) { vprop.Main(m) }
