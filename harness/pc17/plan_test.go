package pc17

// Construction of the plan that carries the generated requests / responses. The plan is a pure function of the case:
// building it twice gives two deep-equal plans that share no memory (the second one is the "pre-call snapshot").

import (
	"fmt"
	"time"

	"github.com/google/uuid"

	"github.com/element-of-surprise/coercion/plugins"
	"github.com/element-of-surprise/coercion/workflow"
)

// Plan states of a leak case.
const (
	stFresh     = 0 // as written by a user: no ids, no State, no attempts
	stRunning   = 1 // as read from storage while running
	stCompleted = 2
	stFailed    = 3
)

var stateNames = []string{"fresh", "running", "completed", "failed"}

// Slots: where the action of a carrier sits.
const (
	slotSeq       = 0 // action of a sequence of block 0
	slotPlanFirst = 1 // 1..5: plan-level bypass, pre, cont, post, deferred checks
	slotBlockFrst = 6 // 6..10: the same groups of block 0
	slotMax       = 10
)

var groupNames = []string{"bypass", "pre", "cont", "post", "deferred"}

// Carrier is one generated request / response type with its placement.
type Carrier struct {
	T Shape `json:"t"`
	// TopPtr: the Req / Resp interface holds a pointer to the struct instead of the struct value.
	TopPtr bool `json:"topptr,omitempty"`
	Slot   int  `json:"slot"`
	// Resp: the value is the response of the action's successful attempt (only in non-fresh plans); otherwise it is
	// the request of the action.
	Resp bool `json:"resp,omitempty"`
	// FailedBefore failed attempts (with an Err and no response) precede the attempt carrying the response.
	FailedBefore int `json:"failedbefore,omitempty"`
	// Status of the action in a stored plan: 0 = the plan's status, else workflow.Status (100 NotStarted, 200 Running,
	// 300 Completed, 400 Failed ...) given as 1 NotStarted, 2 Running, 3 Completed, 4 Failed. The status of the holding
	// sequence / check group is derived from its actions. This is what WithRemoveCompletedSequences looks at.
	Status int `json:"status,omitempty"`
}

// LeakCase is the clone / report half of C17.
type LeakCase struct {
	Carriers []Carrier `json:"carriers"`
	State    int       `json:"state"`
	// FillGroups (stored plans): every non-bypass plan-level check group that no carrier sits in is added with one
	// action that has no request, in status FillStatus (coded like Carrier.Status). clone.Plan with
	// WithRemoveCompletedSequences reads the State of all four groups once no block is left.
	FillGroups bool `json:"fillgroups,omitempty"`
	FillStatus int  `json:"fillstatus,omitempty"`
}

// statusOf decodes Carrier.Status / LeakCase.FillStatus; 0 and unknown codes give the fallback.
func statusOf(code int, fallback workflow.Status) workflow.Status {
	switch code {
	case 1:
		return workflow.NotStarted
	case 2:
		return workflow.Running
	case 3:
		return workflow.Completed
	case 4:
		return workflow.Failed
	}
	return fallback
}

// derivedStatus is the status of a sequence / check group whose actions have the given statuses.
func derivedStatus(acts []*workflow.Action) workflow.Status {
	completed, started := 0, false
	for _, a := range acts {
		switch a.State.Status {
		case workflow.Failed:
			return workflow.Failed
		case workflow.Completed:
			completed++
			started = true
		case workflow.Running:
			started = true
		}
	}
	switch {
	case len(acts) > 0 && completed == len(acts):
		return workflow.Completed
	case started:
		return workflow.Running
	}
	return workflow.NotStarted
}

type builtCarrier struct {
	action *workflow.Action
	isResp bool
	// container is the *workflow.Sequence or *workflow.Checks holding the action.
	seq    *workflow.Sequence
	checks *workflow.Checks
	inPlan bool // plan-level check group (not inside block 0)
}

type builtPlan struct {
	plan     *workflow.Plan
	carriers []builtCarrier
	canaries []Canary
}

var t0 = time.Date(2024, 5, 6, 7, 8, 9, 0, time.UTC)

type idGen struct{ n int }

// next returns a deterministic version-7-shaped UUID (hex digits only from a counter; no canary text can occur in it).
func (g *idGen) next() uuid.UUID {
	g.n++
	var u uuid.UUID
	u[0], u[1] = 0x01, 0x8f
	u[6] = 0x70
	u[8] = 0x80
	u[14] = byte(g.n >> 8)
	u[15] = byte(g.n)
	return u
}

func buildPlan(lc *LeakCase) *builtPlan {
	bp := &builtPlan{}
	ids := &idGen{}
	stored := lc.State != stFresh
	status := workflow.NotStarted
	switch lc.State {
	case stRunning:
		status = workflow.Running
	case stCompleted:
		status = workflow.Completed
	case stFailed:
		status = workflow.Failed
	}
	state := func() *workflow.State {
		if !stored {
			return nil
		}
		return &workflow.State{Status: status, Start: t0, End: t0.Add(time.Minute)}
	}
	id := func() uuid.UUID {
		if !stored {
			return uuid.Nil
		}
		return ids.next()
	}

	vb := &valueBuilder{}
	p := &workflow.Plan{Name: "plan", Descr: "plan descr", Meta: []byte("meta"), ID: id(), State: state()}
	if stored {
		p.SubmitTime = t0
		if lc.State == stFailed {
			p.Reason = workflow.FRBlock
		}
	}
	blk := &workflow.Block{Name: "block0", Descr: "block descr", Concurrency: 1, ID: id(), State: state()}
	p.Blocks = []*workflow.Block{blk}

	planGroups := make([]*workflow.Checks, 5)
	blockGroups := make([]*workflow.Checks, 5)
	var seqs []*workflow.Sequence

	for i := range lc.Carriers {
		c := &lc.Carriers[i]
		vb.carrier = i
		act := &workflow.Action{
			Name: fmt.Sprintf("action%d", i), Descr: "action descr", Plugin: "plug", Timeout: 30 * time.Second,
			ID: id(), State: state(),
		}
		isResp := c.Resp && stored
		if lc.State == stRunning || lc.State == stFailed { // a Completed plan has nothing but Completed objects
			act.State.Status = statusOf(c.Status, status)
			if isResp && act.State.Status == workflow.NotStarted {
				act.State.Status = workflow.Running // an action with an attempt has been started
			}
		}
		val := vb.top(&c.T, c.TopPtr)
		if isResp {
			for k := 0; k < c.FailedBefore; k++ {
				act.Attempts = append(act.Attempts, &workflow.Attempt{
					Err:   &plugins.Error{Code: 1, Message: "attempt failed"},
					Start: t0, End: t0.Add(time.Second),
				})
			}
			act.Attempts = append(act.Attempts, &workflow.Attempt{Resp: val, Start: t0, End: t0.Add(time.Second)})
		} else {
			act.Req = val
		}
		bc := builtCarrier{action: act, isResp: isResp}
		switch {
		case c.Slot == slotSeq:
			// two actions per sequence
			if len(seqs) == 0 || len(seqs[len(seqs)-1].Actions) >= 2 {
				seqs = append(seqs, &workflow.Sequence{
					Name: fmt.Sprintf("seq%d", len(seqs)), Descr: "seq descr", ID: id(), State: state(),
				})
			}
			s := seqs[len(seqs)-1]
			s.Actions = append(s.Actions, act)
			bc.seq = s
		case c.Slot >= slotPlanFirst && c.Slot < slotBlockFrst:
			g := c.Slot - slotPlanFirst
			if planGroups[g] == nil {
				planGroups[g] = &workflow.Checks{ID: id(), State: state()}
			}
			planGroups[g].Actions = append(planGroups[g].Actions, act)
			bc.checks, bc.inPlan = planGroups[g], true
		default:
			g := c.Slot - slotBlockFrst
			if blockGroups[g] == nil {
				blockGroups[g] = &workflow.Checks{ID: id(), State: state()}
			}
			blockGroups[g].Actions = append(blockGroups[g].Actions, act)
			bc.checks = blockGroups[g]
		}
		bp.carriers = append(bp.carriers, bc)
	}
	if len(seqs) == 0 {
		// a block needs a sequence with an action; this one carries no request
		seqs = append(seqs, &workflow.Sequence{
			Name: "seqfill", Descr: "seq descr", ID: id(), State: state(),
			Actions: []*workflow.Action{{
				Name: "fill", Descr: "action descr", Plugin: "plug", Timeout: 30 * time.Second, ID: id(), State: state(),
			}},
		})
	}
	if stored && lc.FillGroups {
		for g := 1; g < 5; g++ { // pre, cont, post, deferred
			if planGroups[g] != nil {
				continue
			}
			st := state()
			if lc.State == stRunning || lc.State == stFailed {
				st.Status = statusOf(lc.FillStatus, status)
			}
			planGroups[g] = &workflow.Checks{ID: id(), State: state(), Actions: []*workflow.Action{{
				Name: "fill-" + groupNames[g], Descr: "action descr", Plugin: "plug", Timeout: 30 * time.Second, ID: id(), State: st,
			}}}
		}
	}
	if stored {
		// the status of a sequence / check group follows from its actions
		for _, sq := range seqs {
			sq.State.Status = derivedStatus(sq.Actions)
		}
		for _, g := range append(append([]*workflow.Checks(nil), planGroups...), blockGroups...) {
			if g != nil {
				g.State.Status = derivedStatus(g.Actions)
			}
		}
	}
	blk.Sequences = seqs
	p.BypassChecks, p.PreChecks, p.ContChecks, p.PostChecks, p.DeferredChecks =
		planGroups[0], planGroups[1], planGroups[2], planGroups[3], planGroups[4]
	blk.BypassChecks, blk.PreChecks, blk.ContChecks, blk.PostChecks, blk.DeferredChecks =
		blockGroups[0], blockGroups[1], blockGroups[2], blockGroups[3], blockGroups[4]

	bp.plan = p
	bp.canaries = vb.canaries
	return bp
}
