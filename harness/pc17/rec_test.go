package pc17

// A small family of statically declared, (mutually) recursive request / response types. reflect.StructOf cannot build
// recursive types, so the generated shapes (shape_test.go) never contain a type that refers back to itself; this file
// adds that class. Only the TYPES are cyclic: the generated VALUES are finite trees (depth <= 3, fan-out <= 2, at most
// recMaxNodes structs), every leaf a unique canary as everywhere else.
//
// The family mixes: a holder whose back reference comes BEFORE its secure field with a pure container that reaches
// secrets only through the back reference (Host/Rack, X/Y/Z, Owner/Thing), the same with the secure field FIRST
// (Node/Group), a pair in which both types have secure fields (A/B), and a self-recursive type (Tree); links by
// pointer, slice of pointers, map of pointers, slice of values and map of values.
//
// Code under test may keep state per reflect.Type (caches of type inspections) that depends on which type of a cycle it
// meets first. Therefore (a) the root of a value may be ANY type of the family, and (b) every type is generic over a
// phantom parameter and instantiated recInstances times: a case names the instantiation it uses, so that the many
// cases of one process start from different types on types the process has not scrubbed before.

import (
	"fmt"
	"reflect"

	"pgregory.net/rapid"
)

type RecHost[P any] struct {
	Name     string
	Rack     *RecRack[P]
	Password string `coerce:"secure"`
}

type RecRack[P any] struct {
	Label string
	Hosts []*RecHost[P]
}

type RecA[P any] struct {
	Name   string
	B      *RecB[P]
	Kids   []*RecA[P]
	Secret string `coerce:"secure"`
}

type RecB[P any] struct {
	As     []*RecA[P]
	ByName map[string]*RecA[P]
	Token  []byte `coerce:"secure"`
	Note   string
}

type RecNode[P any] struct {
	Pin   int `coerce:"secure"`
	Group *RecGroup[P]
	Name  string
}

type RecGroup[P any] struct {
	Members map[string]*RecNode[P]
	Note    string
}

type RecTree[P any] struct {
	Name string
	Kids []*RecTree[P]
	Left *RecTree[P]
	Key  int `coerce:"secure"`
}

type RecX[P any] struct {
	Name string
	Y    *RecY[P]
	S    string `coerce:"secure"`
}

type RecY[P any] struct {
	Zs   []RecZ[P]
	Note string
}

type RecZ[P any] struct {
	X     *RecX[P]
	Label []byte
}

type RecOwner[P any] struct {
	Things map[string]RecThing[P]
	Pin    []byte `coerce:"secure"`
}

type RecThing[P any] struct {
	Owner *RecOwner[P]
	Label string
}

// recTypeNames are the family members in the order of recFamily.types; the holders whose back reference precedes
// their secure field come first (rapid shrinks an index towards 0).
var recTypeNames = []string{"Host", "X", "Owner", "Tree", "A", "Node", "Rack", "Y", "Z", "Thing", "B", "Group"}

type recFamily struct {
	types []reflect.Type
}

func famOf[P any]() recFamily {
	return recFamily{types: []reflect.Type{
		reflect.TypeOf(RecHost[P]{}), reflect.TypeOf(RecX[P]{}), reflect.TypeOf(RecOwner[P]{}), reflect.TypeOf(RecTree[P]{}),
		reflect.TypeOf(RecA[P]{}), reflect.TypeOf(RecNode[P]{}), reflect.TypeOf(RecRack[P]{}), reflect.TypeOf(RecY[P]{}),
		reflect.TypeOf(RecZ[P]{}), reflect.TypeOf(RecThing[P]{}), reflect.TypeOf(RecB[P]{}), reflect.TypeOf(RecGroup[P]{}),
	}}
}

const (
	recInstances = 256
	recMaxDepth  = 3
	recMaxNodes  = 7
	recLeafCost  = 3 // what a recursive value costs of the <= 12 leaves budget of a shape
)

// recFamilies: the instantiations of the family (phantom parameter [n]byte).
var recFamilies = [recInstances]recFamily{
	famOf[[0]byte](), famOf[[1]byte](), famOf[[2]byte](), famOf[[3]byte](), famOf[[4]byte](), famOf[[5]byte](), famOf[[6]byte](), famOf[[7]byte](),
	famOf[[8]byte](), famOf[[9]byte](), famOf[[10]byte](), famOf[[11]byte](), famOf[[12]byte](), famOf[[13]byte](), famOf[[14]byte](), famOf[[15]byte](),
	famOf[[16]byte](), famOf[[17]byte](), famOf[[18]byte](), famOf[[19]byte](), famOf[[20]byte](), famOf[[21]byte](), famOf[[22]byte](), famOf[[23]byte](),
	famOf[[24]byte](), famOf[[25]byte](), famOf[[26]byte](), famOf[[27]byte](), famOf[[28]byte](), famOf[[29]byte](), famOf[[30]byte](), famOf[[31]byte](),
	famOf[[32]byte](), famOf[[33]byte](), famOf[[34]byte](), famOf[[35]byte](), famOf[[36]byte](), famOf[[37]byte](), famOf[[38]byte](), famOf[[39]byte](),
	famOf[[40]byte](), famOf[[41]byte](), famOf[[42]byte](), famOf[[43]byte](), famOf[[44]byte](), famOf[[45]byte](), famOf[[46]byte](), famOf[[47]byte](),
	famOf[[48]byte](), famOf[[49]byte](), famOf[[50]byte](), famOf[[51]byte](), famOf[[52]byte](), famOf[[53]byte](), famOf[[54]byte](), famOf[[55]byte](),
	famOf[[56]byte](), famOf[[57]byte](), famOf[[58]byte](), famOf[[59]byte](), famOf[[60]byte](), famOf[[61]byte](), famOf[[62]byte](), famOf[[63]byte](),
	famOf[[64]byte](), famOf[[65]byte](), famOf[[66]byte](), famOf[[67]byte](), famOf[[68]byte](), famOf[[69]byte](), famOf[[70]byte](), famOf[[71]byte](),
	famOf[[72]byte](), famOf[[73]byte](), famOf[[74]byte](), famOf[[75]byte](), famOf[[76]byte](), famOf[[77]byte](), famOf[[78]byte](), famOf[[79]byte](),
	famOf[[80]byte](), famOf[[81]byte](), famOf[[82]byte](), famOf[[83]byte](), famOf[[84]byte](), famOf[[85]byte](), famOf[[86]byte](), famOf[[87]byte](),
	famOf[[88]byte](), famOf[[89]byte](), famOf[[90]byte](), famOf[[91]byte](), famOf[[92]byte](), famOf[[93]byte](), famOf[[94]byte](), famOf[[95]byte](),
	famOf[[96]byte](), famOf[[97]byte](), famOf[[98]byte](), famOf[[99]byte](), famOf[[100]byte](), famOf[[101]byte](), famOf[[102]byte](), famOf[[103]byte](),
	famOf[[104]byte](), famOf[[105]byte](), famOf[[106]byte](), famOf[[107]byte](), famOf[[108]byte](), famOf[[109]byte](), famOf[[110]byte](), famOf[[111]byte](),
	famOf[[112]byte](), famOf[[113]byte](), famOf[[114]byte](), famOf[[115]byte](), famOf[[116]byte](), famOf[[117]byte](), famOf[[118]byte](), famOf[[119]byte](),
	famOf[[120]byte](), famOf[[121]byte](), famOf[[122]byte](), famOf[[123]byte](), famOf[[124]byte](), famOf[[125]byte](), famOf[[126]byte](), famOf[[127]byte](),
	famOf[[128]byte](), famOf[[129]byte](), famOf[[130]byte](), famOf[[131]byte](), famOf[[132]byte](), famOf[[133]byte](), famOf[[134]byte](), famOf[[135]byte](),
	famOf[[136]byte](), famOf[[137]byte](), famOf[[138]byte](), famOf[[139]byte](), famOf[[140]byte](), famOf[[141]byte](), famOf[[142]byte](), famOf[[143]byte](),
	famOf[[144]byte](), famOf[[145]byte](), famOf[[146]byte](), famOf[[147]byte](), famOf[[148]byte](), famOf[[149]byte](), famOf[[150]byte](), famOf[[151]byte](),
	famOf[[152]byte](), famOf[[153]byte](), famOf[[154]byte](), famOf[[155]byte](), famOf[[156]byte](), famOf[[157]byte](), famOf[[158]byte](), famOf[[159]byte](),
	famOf[[160]byte](), famOf[[161]byte](), famOf[[162]byte](), famOf[[163]byte](), famOf[[164]byte](), famOf[[165]byte](), famOf[[166]byte](), famOf[[167]byte](),
	famOf[[168]byte](), famOf[[169]byte](), famOf[[170]byte](), famOf[[171]byte](), famOf[[172]byte](), famOf[[173]byte](), famOf[[174]byte](), famOf[[175]byte](),
	famOf[[176]byte](), famOf[[177]byte](), famOf[[178]byte](), famOf[[179]byte](), famOf[[180]byte](), famOf[[181]byte](), famOf[[182]byte](), famOf[[183]byte](),
	famOf[[184]byte](), famOf[[185]byte](), famOf[[186]byte](), famOf[[187]byte](), famOf[[188]byte](), famOf[[189]byte](), famOf[[190]byte](), famOf[[191]byte](),
	famOf[[192]byte](), famOf[[193]byte](), famOf[[194]byte](), famOf[[195]byte](), famOf[[196]byte](), famOf[[197]byte](), famOf[[198]byte](), famOf[[199]byte](),
	famOf[[200]byte](), famOf[[201]byte](), famOf[[202]byte](), famOf[[203]byte](), famOf[[204]byte](), famOf[[205]byte](), famOf[[206]byte](), famOf[[207]byte](),
	famOf[[208]byte](), famOf[[209]byte](), famOf[[210]byte](), famOf[[211]byte](), famOf[[212]byte](), famOf[[213]byte](), famOf[[214]byte](), famOf[[215]byte](),
	famOf[[216]byte](), famOf[[217]byte](), famOf[[218]byte](), famOf[[219]byte](), famOf[[220]byte](), famOf[[221]byte](), famOf[[222]byte](), famOf[[223]byte](),
	famOf[[224]byte](), famOf[[225]byte](), famOf[[226]byte](), famOf[[227]byte](), famOf[[228]byte](), famOf[[229]byte](), famOf[[230]byte](), famOf[[231]byte](),
	famOf[[232]byte](), famOf[[233]byte](), famOf[[234]byte](), famOf[[235]byte](), famOf[[236]byte](), famOf[[237]byte](), famOf[[238]byte](), famOf[[239]byte](),
	famOf[[240]byte](), famOf[[241]byte](), famOf[[242]byte](), famOf[[243]byte](), famOf[[244]byte](), famOf[[245]byte](), famOf[[246]byte](), famOf[[247]byte](),
	famOf[[248]byte](), famOf[[249]byte](), famOf[[250]byte](), famOf[[251]byte](), famOf[[252]byte](), famOf[[253]byte](), famOf[[254]byte](), famOf[[255]byte](),
}

// RecVal is one struct of the value tree: for every link field of its type (fields that lead to a family struct, in
// field order) the child values: at most one for a pointer, at most two for a slice / map (keys "k0", "k1").
type RecVal struct {
	L [][]RecVal `json:"l,omitempty"`
}

// RecRoot describes a value of a recursive type: instantiation, root type (index into recTypeNames), value tree.
type RecRoot struct {
	Inst int    `json:"inst"`
	Type int    `json:"type"`
	V    RecVal `json:"v"`
}

// recElemStruct returns the family struct type a field type leads to (through one pointer / slice / map level and an
// optional pointer), or nil for a leaf field.
func recElemStruct(t reflect.Type) reflect.Type {
	switch t.Kind() {
	case reflect.Pointer:
		if t.Elem().Kind() == reflect.Struct {
			return t.Elem()
		}
	case reflect.Slice, reflect.Map:
		e := t.Elem()
		if e.Kind() == reflect.Pointer {
			e = e.Elem()
		}
		if e.Kind() == reflect.Struct {
			return e
		}
	}
	return nil
}

func recLinkFields(t reflect.Type) []reflect.StructField {
	var out []reflect.StructField
	for i := 0; i < t.NumField(); i++ {
		if recElemStruct(t.Field(i).Type) != nil {
			out = append(out, t.Field(i))
		}
	}
	return out
}

func genRecVal(t *rapid.T, typ reflect.Type, depth int, nodes *int) RecVal {
	*nodes++
	v := RecVal{}
	for _, lf := range recLinkFields(typ) {
		maxN := 2
		if lf.Type.Kind() == reflect.Pointer {
			maxN = 1
		}
		n := 0
		if depth < recMaxDepth && *nodes < recMaxNodes {
			// mostly present: the interesting values are the ones that go round the cycle
			n = rapid.SampledFrom([]int{1, 1, 1, 2, 0}).Draw(t, "reckids")
			n = min(n, maxN, recMaxNodes-*nodes)
		}
		kids := make([]RecVal, 0, n)
		for i := 0; i < n && *nodes < recMaxNodes; i++ {
			kids = append(kids, genRecVal(t, recElemStruct(lf.Type), depth+1, nodes))
		}
		v.L = append(v.L, kids)
	}
	return v
}

func genRec(t *rapid.T) Shape {
	r := &RecRoot{}
	r.Type = rapid.IntRange(0, len(recTypeNames)-1).Draw(t, "rectype")
	r.Inst = rapid.IntRange(0, recInstances-1).Draw(t, "recinst")
	nodes := 0
	r.V = genRecVal(t, recFamilies[0].types[r.Type], 0, &nodes)
	return Shape{K: kRec, R: r}
}

func validRecVal(v *RecVal, typ reflect.Type, depth int, nodes *int) error {
	*nodes++
	if depth > recMaxDepth || *nodes > recMaxNodes {
		return fmt.Errorf("recursive value too large")
	}
	lfs := recLinkFields(typ)
	if len(v.L) > len(lfs) {
		return fmt.Errorf("more link lists than link fields")
	}
	for i := range v.L {
		maxN := 2
		if lfs[i].Type.Kind() == reflect.Pointer {
			maxN = 1
		}
		if len(v.L[i]) > maxN {
			return fmt.Errorf("too many children")
		}
		for k := range v.L[i] {
			if err := validRecVal(&v.L[i][k], recElemStruct(lfs[i].Type), depth+1, nodes); err != nil {
				return err
			}
		}
	}
	return nil
}

func validRec(r *RecRoot) error {
	if r == nil || r.Inst < 0 || r.Inst >= recInstances || r.Type < 0 || r.Type >= len(recTypeNames) {
		return fmt.Errorf("bad recursive root")
	}
	nodes := 0
	return validRecVal(&r.V, recFamilies[r.Inst].types[r.Type], 0, &nodes)
}

func recTypeOf(r *RecRoot) reflect.Type { return recFamilies[r.Inst].types[r.Type] }

func kindName(t reflect.Type) string {
	switch t.Kind() {
	case reflect.Pointer:
		return kPtr
	case reflect.Slice:
		if t.Elem().Kind() == reflect.Uint8 {
			return kBytes
		}
		return kSlice
	case reflect.Map:
		return kMap
	case reflect.Struct:
		return kStruct
	case reflect.String:
		return kString
	case reflect.Int:
		return kInt
	}
	return t.Kind().String()
}

// recValue builds the struct value of typ from the value tree; p.kinds already ends with the kind of this struct.
func (b *valueBuilder) recValue(typ reflect.Type, v *RecVal, p pathInfo) reflect.Value {
	out := reflect.New(typ).Elem()
	link := 0
	for i := 0; i < typ.NumField(); i++ {
		sf := typ.Field(i)
		q := p.push(kindName(sf.Type))
		if sf.Tag.Get("coerce") == "secure" && !q.secret {
			q.secret = true
			q.frozenPath, q.frozenDepth, q.frozenBehind = joinKinds(q.kinds), len(q.kinds)-1, behind(q.kinds)
		}
		fv := out.Field(i)
		elem := recElemStruct(sf.Type)
		if elem == nil {
			switch kindName(sf.Type) {
			case kString:
				fv.SetString(b.plant('s', q).str())
			case kInt:
				fv.SetInt(int64(b.plant('i', q).int()))
			case kBytes:
				fv.SetBytes(b.plant('b', q).bytes())
			default:
				panic("pc17: unexpected leaf field " + sf.Name)
			}
			continue
		}
		var kids []RecVal
		if link < len(v.L) {
			kids = v.L[link]
		}
		link++
		child := func(k *RecVal, pp pathInfo, et reflect.Type) reflect.Value {
			// et is the element type of the pointer / slice / map: the struct or a pointer to it
			if et.Kind() == reflect.Pointer {
				ptr := reflect.New(elem)
				ptr.Elem().Set(b.recValue(elem, k, pp.push(kPtr).push(kStruct)))
				return ptr
			}
			return b.recValue(elem, k, pp.push(kStruct))
		}
		switch sf.Type.Kind() {
		case reflect.Pointer:
			if len(kids) > 0 {
				ptr := reflect.New(elem)
				ptr.Elem().Set(b.recValue(elem, &kids[0], q.push(kStruct)))
				fv.Set(ptr)
			}
		case reflect.Slice:
			sl := reflect.MakeSlice(sf.Type, len(kids), len(kids))
			for k := range kids {
				sl.Index(k).Set(child(&kids[k], q, sf.Type.Elem()))
			}
			fv.Set(sl)
		case reflect.Map:
			m := reflect.MakeMapWithSize(sf.Type, len(kids))
			for k := range kids {
				m.SetMapIndex(reflect.ValueOf(fmt.Sprintf("k%d", k)), child(&kids[k], q, sf.Type.Elem()))
			}
			fv.Set(m)
		}
	}
	return out
}
