package pc17

// Registry half of C17:
//
//	"The registry refuses to register a plugin whose request or response type has a secret-looking field name without
//	 an explicit secure or ignore tag."
//
// Types are generated from two unambiguous lexicons (secret-looking / benign); borderline names are never generated, so
// the oracle does not depend on where the package draws the line. Nesting is by value and by pointer (nil pointers
// included: Request() / Response() return *empty* objects), depth <= 3.

import (
	"context"
	"fmt"
	"reflect"

	"github.com/gostdlib/base/retry/exponential"
	"pgregory.net/rapid"

	"github.com/element-of-surprise/coercion/plugins"
	"github.com/element-of-surprise/coercion/plugins/registry"

	"verifharness/vprop"
)

var secretNames = []string{"Password", "APIToken", "ClientSecret", "PrivateKey", "BearerToken", "SigningKey", "CertPEM",
	"Credentials", "PassPhrase", "JWT", "AuthCode", "HashSalt"}

var benignNames = []string{"Name", "Count", "Addr", "Enabled", "Region", "Size", "Path", "Owner", "Level", "Note"}

const (
	tagNone   = 0
	tagSecure = 1
	tagIgnore = 2

	rkString = 0
	rkInt    = 1
	rkBool   = 2
	rkBytes  = 3
	rkStruct = 4 // nested by value
	rkPtr    = 5 // nested by pointer to struct

	regMaxDepth = 3
)

// RegField is one field of a generated plugin request / response type.
type RegField struct {
	Secret bool `json:"secret,omitempty"` // name taken from the secret-looking lexicon, else from the benign one
	Idx    int  `json:"idx"`
	Tag    int  `json:"tag,omitempty"`
	Kind   int  `json:"kind,omitempty"`
	// NilPtr: the pointer is nil in the empty object returned by Request() / Response().
	NilPtr bool       `json:"nilptr,omitempty"`
	Sub    []RegField `json:"sub,omitempty"`
}

// RegCase is the registry half of a case.
type RegCase struct {
	Req     []RegField `json:"req"`
	Resp    []RegField `json:"resp"`
	ReqPtr  bool       `json:"reqptr,omitempty"` // Request() returns a pointer to the struct
	RespPtr bool       `json:"respptr,omitempty"`
}

func genRegFields(t *rapid.T, depth int, compliantOnly bool) []RegField {
	n := rapid.IntRange(1, 3).Draw(t, "nfields")
	out := make([]RegField, 0, n)
	for i := 0; i < n; i++ {
		f := RegField{}
		f.Secret = rapid.IntRange(0, 9).Draw(t, "secretname") < 4
		if f.Secret {
			f.Idx = rapid.IntRange(0, len(secretNames)-1).Draw(t, "idx")
		} else {
			f.Idx = rapid.IntRange(0, len(benignNames)-1).Draw(t, "idx")
		}
		f.Tag = rapid.SampledFrom([]int{tagNone, tagNone, tagSecure, tagSecure, tagSecure, tagIgnore, tagIgnore}).Draw(t, "tag")
		if f.Secret && compliantOnly && f.Tag == tagNone {
			f.Tag = tagSecure
		}
		if !f.Secret && rapid.IntRange(0, 3).Draw(t, "benigntag") > 0 {
			f.Tag = tagNone // benign names mostly carry no tag
		}
		kinds := []int{rkString, rkString, rkInt, rkBool, rkBytes}
		if depth < regMaxDepth {
			kinds = append(kinds, rkStruct, rkStruct, rkPtr, rkPtr, rkPtr)
		}
		f.Kind = rapid.SampledFrom(kinds).Draw(t, "kind")
		if f.Kind == rkStruct || f.Kind == rkPtr {
			if f.Kind == rkPtr {
				f.NilPtr = rapid.Bool().Draw(t, "nilptr")
			}
			// Whether a secret-looking name *beneath* a field that is itself tagged secure/ignore must be refused is
			// not settled by the statement; that class is not generated (see regVerdict).
			f.Sub = genRegFields(t, depth+1, compliantOnly || f.Tag != tagNone)
		}
		out = append(out, f)
	}
	return out
}

func genRegCase(t *rapid.T) *RegCase {
	return &RegCase{
		Req:     genRegFields(t, 1, false),
		Resp:    genRegFields(t, 1, false),
		ReqPtr:  rapid.Bool().Draw(t, "reqptr"),
		RespPtr: rapid.Bool().Draw(t, "respptr"),
	}
}

func (f *RegField) name() string {
	if f.Secret {
		return secretNames[((f.Idx%len(secretNames))+len(secretNames))%len(secretNames)]
	}
	return benignNames[((f.Idx%len(benignNames))+len(benignNames))%len(benignNames)]
}

func validRegFields(fs []RegField, depth int) error {
	if len(fs) == 0 || len(fs) > 4 {
		return fmt.Errorf("struct with %d fields", len(fs))
	}
	for i := range fs {
		f := &fs[i]
		if f.Tag < tagNone || f.Tag > tagIgnore || f.Kind < rkString || f.Kind > rkPtr {
			return fmt.Errorf("bad tag/kind")
		}
		if f.Kind == rkStruct || f.Kind == rkPtr {
			if depth >= regMaxDepth {
				return fmt.Errorf("nesting deeper than %d", regMaxDepth)
			}
			if err := validRegFields(f.Sub, depth+1); err != nil {
				return err
			}
		}
	}
	return nil
}

func regStructType(fs []RegField) reflect.Type {
	sf := make([]reflect.StructField, len(fs))
	used := map[string]int{}
	for i := range fs {
		f := &fs[i]
		name := f.name()
		used[name]++
		if used[name] > 1 {
			// a second "Password" in the same struct becomes "Password2": still unambiguously in its lexicon
			name = fmt.Sprintf("%s%d", name, used[name])
		}
		var t reflect.Type
		switch f.Kind {
		case rkString:
			t = reflect.TypeOf("")
		case rkInt:
			t = reflect.TypeOf(0)
		case rkBool:
			t = reflect.TypeOf(false)
		case rkBytes:
			t = reflect.TypeOf([]byte(nil))
		case rkStruct:
			t = regStructType(f.Sub)
		case rkPtr:
			t = reflect.PointerTo(regStructType(f.Sub))
		}
		sf[i] = reflect.StructField{Name: name, Type: t}
		switch f.Tag {
		case tagSecure:
			sf[i].Tag = `coerce:"secure"`
		case tagIgnore:
			sf[i].Tag = `coerce:"ignore"`
		}
	}
	return reflect.StructOf(sf)
}

// regEmptyValue builds the "empty object": zero leaves, nested pointers nil or pointing at an empty struct.
func regEmptyValue(fs []RegField) reflect.Value {
	v := reflect.New(regStructType(fs)).Elem()
	for i := range fs {
		f := &fs[i]
		switch f.Kind {
		case rkStruct:
			v.Field(i).Set(regEmptyValue(f.Sub))
		case rkPtr:
			if !f.NilPtr {
				sub := regEmptyValue(f.Sub)
				p := reflect.New(sub.Type())
				p.Elem().Set(sub)
				v.Field(i).Set(p)
			}
		}
	}
	return v
}

func regObject(fs []RegField, ptr bool) any {
	v := regEmptyValue(fs)
	if ptr {
		p := reflect.New(v.Type())
		p.Elem().Set(v)
		return p.Interface()
	}
	return v.Interface()
}

// regVerdict walks the type tree "through struct and pointer-to-struct nesting".
// offender: a secret-looking field with neither secure nor ignore, not beneath a tagged field.
// ambiguous: such a field beneath a field that is itself tagged secure/ignore (not judged).
func regVerdict(fs []RegField, underTagged bool, path string, st *regStats) (offender string, ambiguous bool) {
	for i := range fs {
		f := &fs[i]
		p := path + "." + f.name()
		if f.Secret && f.Tag == tagNone {
			if underTagged {
				ambiguous = true
			} else if offender == "" {
				offender = p
				st.offenderDepth = max(st.offenderDepth, len(splitDots(p)))
				if st.behindNil {
					st.offenderBehindNil = true
				}
			}
		}
		if f.Kind == rkStruct || f.Kind == rkPtr {
			saved := st.behindNil
			if f.Kind == rkPtr && f.NilPtr {
				st.behindNil = true
				st.nilPtrs++
			}
			o, a := regVerdict(f.Sub, underTagged || f.Tag != tagNone, p, st)
			st.behindNil = saved
			if offender == "" {
				offender = o
			}
			ambiguous = ambiguous || a
			st.nested++
		}
	}
	return offender, ambiguous
}

func splitDots(p string) []string {
	var out []string
	cur := ""
	for _, r := range p {
		if r == '.' {
			if cur != "" {
				out = append(out, cur)
			}
			cur = ""
			continue
		}
		cur += string(r)
	}
	if cur != "" {
		out = append(out, cur)
	}
	return out
}

type regStats struct {
	behindNil         bool
	offenderBehindNil bool
	offenderDepth     int
	nilPtrs           int
	nested            int
}

type fakePlugin struct {
	req, resp any
}

func (p *fakePlugin) Name() string { return "verif/pc17/plugin" }
func (p *fakePlugin) Execute(ctx context.Context, req any) (any, *plugins.Error) {
	return p.resp, nil
}
func (p *fakePlugin) ValidateReq(req any) error       { return nil }
func (p *fakePlugin) Request() any                    { return p.req }
func (p *fakePlugin) Response() any                   { return p.resp }
func (p *fakePlugin) IsCheck() bool                   { return false }
func (p *fakePlugin) RetryPolicy() exponential.Policy { return plugins.FastRetryPolicy() }
func (p *fakePlugin) Init() error                     { return nil }

var _ plugins.Plugin = (*fakePlugin)(nil)

func checkRegistry(rc *RegCase, res *vprop.Result) {
	res.Label("mode:registry")
	if err := validRegFields(rc.Req, 1); err != nil {
		res.Skip = true
		res.Label("invalid-case")
		return
	}
	if err := validRegFields(rc.Resp, 1); err != nil {
		res.Skip = true
		res.Label("invalid-case")
		return
	}
	st := &regStats{}
	offReq, ambReq := regVerdict(rc.Req, false, "req", st)
	offResp, ambResp := regVerdict(rc.Resp, false, "resp", st)
	offender := offReq
	if offender == "" {
		offender = offResp
	}
	if offender == "" && (ambReq || ambResp) {
		// only replayed / hand-written cases get here; the generator does not produce the class
		res.Skip = true
		res.Label("reg:ambiguous-under-tagged-parent")
		return
	}
	// non-trivial: nesting present and an offender below the top level, or behind a nil pointer
	res.NonTrivial = st.nested > 0 && (st.offenderDepth >= 3 || st.nilPtrs > 0)
	if offender != "" {
		res.Label("reg:expect-refuse")
		if st.offenderBehindNil {
			res.Label("reg:offender-behind-nil-pointer")
		}
		if st.offenderDepth >= 3 {
			res.Label("reg:offender-nested")
		}
	} else {
		res.Label("reg:expect-accept")
	}

	plug := &fakePlugin{req: regObject(rc.Req, rc.ReqPtr), resp: regObject(rc.Resp, rc.RespPtr)}
	reg := registry.New() // fresh registry per case
	var err error
	panicked := func() (p any) {
		defer func() { p = recover() }()
		err = reg.Register(plug)
		return nil
	}()
	if panicked != nil {
		// The statement speaks of refusing; a panic is neither a registration nor a leak. Counted, not alarmed.
		res.Label("panic:register")
		return
	}
	switch {
	case offender != "" && err == nil:
		cls := "top-level"
		switch {
		case st.offenderBehindNil:
			cls = "behind-nil-pointer"
		case st.offenderDepth >= 3:
			cls = "nested"
		}
		// "The registry refuses to register a plugin whose request or response type has a secret-looking field name
		//  without an explicit secure or ignore tag."
		res.Fail("C17/registry-accepted-untagged-secret:"+cls, "Register accepted a plugin although field %s is secret-looking and has neither coerce:\"secure\" nor coerce:\"ignore\" (request %T, response %T)", offender, plug.req, plug.resp)
	case offender == "" && err != nil:
		// converse ("refuses ... whose type has ..." read as exactly those): every secret-looking field is tagged and
		// nothing else about the plugin is wrong (unique name, valid retry policy), so the refusal has no ground.
		res.Fail("C17/registry-refused-compliant-type", "Register refused a plugin whose request/response types have no untagged secret-looking field: %v (request %T, response %T)", err, plug.req, plug.resp)
	}
}
