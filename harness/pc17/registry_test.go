package pc17

// Registry half of C17:
//
//	"The registry refuses to register a plugin whose request or response type has a secret-looking field name without
//	 an explicit secure or ignore tag."
//
// Types are generated from two lexicons. Only the secret-looking one carries a verdict (one direction, as in the
// statement): a type with an untagged name of that lexicon must be refused. Names of the benign lexicon are expected to
// pass, but their refusal is only counted (with a floor on accepted compliant types), because the statement does not
// say where the package draws the line on that side. Nesting is by value and by pointer (nil pointers
// included: Request() / Response() return *empty* objects).
//
// A case is ONE *registry.Register and a SEQUENCE of 2-5 Register calls. Nested struct types are drawn from a small
// per-case pool of type descriptions, so the same reflect.Type (reflect.StructOf returns identical types for identical
// field lists) is frequently shared between calls: as a nested field (by value / by pointer), as the whole request or
// the whole response, and by re-registering a plugin that was refused before. The oracle is per call and independent
// of history: the statement speaks about "a plugin whose request or response type has ...", not about what the
// registry has seen earlier. Plugin names are distinct except for the retry of a *refused* plugin (whose name is not
// in the registry), so the documented duplicate-name error cannot occur.

import (
	"context"
	"fmt"
	"reflect"

	"github.com/gostdlib/base/retry/exponential"
	"pgregory.net/rapid"

	"github.com/element-of-surprise/coercion/plugins"
	"github.com/element-of-surprise/coercion/plugins/registry"

	"verifharness/vprop"
)

var secretNames = []string{"Password", "APIToken", "ClientSecret", "PrivateKey", "BearerToken", "SigningKey", "CertPEM",
	"Credentials", "PassPhrase", "JWT", "AuthCode", "HashSalt"}

var benignNames = []string{"Name", "Count", "Addr", "Enabled", "Region", "Size", "Path", "Owner", "Level", "Note"}

const (
	tagNone   = 0
	tagSecure = 1
	tagIgnore = 2

	rkString = 0
	rkInt    = 1
	rkBool   = 2
	rkBytes  = 3
	rkStruct = 4 // nested by value
	rkPtr    = 5 // nested by pointer to struct

	regMaxDepth = 3
)

// RegField is one field of a generated plugin request / response type.
type RegField struct {
	Secret bool `json:"secret,omitempty"` // name taken from the secret-looking lexicon, else from the benign one
	Idx    int  `json:"idx"`
	Tag    int  `json:"tag,omitempty"`
	Kind   int  `json:"kind,omitempty"`
	// NilPtr: the pointer is nil in the empty object returned by Request() / Response().
	NilPtr bool `json:"nilptr,omitempty"`
	// Pool > 0 (struct / pointer kinds only): the nested struct type is entry Pool-1 of the case's pool instead of Sub.
	Pool int        `json:"pool,omitempty"`
	Sub  []RegField `json:"sub,omitempty"`
}

// RegCall is one Register call: a plugin with its own name and its request / response types.
type RegCall struct {
	Req     []RegField `json:"req,omitempty"`
	Resp    []RegField `json:"resp,omitempty"`
	ReqPtr  bool       `json:"reqptr,omitempty"` // Request() returns a pointer to the struct
	RespPtr bool       `json:"respptr,omitempty"`
	// ReqPool / RespPool > 0: the whole request / response type is pool entry ReqPool-1 / RespPool-1.
	ReqPool  int `json:"reqpool,omitempty"`
	RespPool int `json:"resppool,omitempty"`
	// RetryOf > 0: register the plugin of call RetryOf-1 again (same types; same name if that call had to be refused,
	// a new name otherwise, so that the duplicate-name error never occurs). The other fields are ignored.
	RetryOf int `json:"retryof,omitempty"`
}

// RegCase is the registry half of a case: one Register, a pool of shared nested types, a sequence of calls.
type RegCase struct {
	Pool  [][]RegField `json:"pool,omitempty"`
	Calls []RegCall    `json:"calls,omitempty"`

	// legacy single-call form (regression files written before the sequence form): treated as one call
	Req     []RegField `json:"req,omitempty"`
	Resp    []RegField `json:"resp,omitempty"`
	ReqPtr  bool       `json:"reqptr,omitempty"`
	RespPtr bool       `json:"respptr,omitempty"`
}

const (
	regMaxCalls = 5
	regMaxPool  = 3
)

// regGen carries what the field generator may refer to.
type regGen struct {
	pool      [][]RegField
	compliant []bool // pool entry has no untagged secret-looking field anywhere
}

func hasUntaggedSecret(fs []RegField) bool {
	for i := range fs {
		if fs[i].Secret && fs[i].Tag == tagNone {
			return true
		}
		if (fs[i].Kind == rkStruct || fs[i].Kind == rkPtr) && hasUntaggedSecret(fs[i].Sub) {
			return true
		}
	}
	return false
}

func genRegFields(t *rapid.T, g *regGen, depth int, compliantOnly bool) []RegField {
	n := rapid.IntRange(1, 3).Draw(t, "nfields")
	out := make([]RegField, 0, n)
	for i := 0; i < n; i++ {
		f := RegField{}
		f.Secret = rapid.IntRange(0, 9).Draw(t, "secretname") < 4
		if f.Secret {
			f.Idx = rapid.IntRange(0, len(secretNames)-1).Draw(t, "idx")
		} else {
			f.Idx = rapid.IntRange(0, len(benignNames)-1).Draw(t, "idx")
		}
		f.Tag = rapid.SampledFrom([]int{tagNone, tagNone, tagSecure, tagSecure, tagSecure, tagIgnore, tagIgnore}).Draw(t, "tag")
		if f.Secret && compliantOnly && f.Tag == tagNone {
			f.Tag = tagSecure
		}
		if !f.Secret && rapid.IntRange(0, 3).Draw(t, "benigntag") > 0 {
			f.Tag = tagNone // benign names mostly carry no tag
		}
		kinds := []int{rkString, rkString, rkInt, rkBool, rkBytes}
		if depth < regMaxDepth {
			kinds = append(kinds, rkStruct, rkStruct, rkPtr, rkPtr, rkPtr)
		}
		f.Kind = rapid.SampledFrom(kinds).Draw(t, "kind")
		if f.Kind == rkStruct || f.Kind == rkPtr {
			if f.Kind == rkPtr {
				f.NilPtr = rapid.Bool().Draw(t, "nilptr")
			}
			// Whether a secret-looking name *beneath* a field that is itself tagged secure/ignore must be refused is
			// not settled by the statement; that class is not generated (see regVerdict).
			subCompliant := compliantOnly || f.Tag != tagNone
			var usable []int
			if g != nil {
				for pi := range g.pool {
					if !subCompliant || g.compliant[pi] {
						usable = append(usable, pi+1)
					}
				}
			}
			if len(usable) > 0 && rapid.IntRange(0, 2).Draw(t, "usepool") > 0 {
				f.Pool = rapid.SampledFrom(usable).Draw(t, "pool") // shared nested type
			} else {
				f.Sub = genRegFields(t, g, depth+1, subCompliant)
			}
		}
		out = append(out, f)
	}
	return out
}

func genRegCase(t *rapid.T) *RegCase {
	rc := &RegCase{}
	g := &regGen{}
	np := rapid.SampledFrom([]int{0, 1, 1, 2, 2, 2, 3, 3}).Draw(t, "pool")
	for i := 0; i < np; i++ {
		// pool entries do not refer to the pool themselves (no recursive types)
		fs := genRegFields(t, nil, 2, false)
		if rapid.IntRange(0, 2).Draw(t, "pooloffender") == 2 {
			// make "a shared type that gets a registration refused" frequent
			fs = append(fs, RegField{Secret: true, Idx: rapid.IntRange(0, len(secretNames)-1).Draw(t, "idx"), Tag: tagNone, Kind: rkString})
		}
		g.pool = append(g.pool, fs)
		g.compliant = append(g.compliant, !hasUntaggedSecret(fs))
	}
	rc.Pool = g.pool
	nc := rapid.IntRange(2, regMaxCalls).Draw(t, "calls")
	for i := 0; i < nc; i++ {
		c := RegCall{}
		mode := rapid.SampledFrom([]int{0, 0, 0, 1, 1, 2, 2, 3, 3}).Draw(t, "callmode")
		if (mode == 3 && i == 0) || ((mode == 1 || mode == 2) && np == 0) {
			mode = 0
		}
		switch mode {
		case 0: // own types, nested fields often from the pool
			c.Req = genRegFields(t, g, 1, false)
			c.Resp = genRegFields(t, g, 1, false)
		case 1: // the whole request is a shared type
			c.ReqPool = rapid.IntRange(1, np).Draw(t, "reqpool")
			c.Resp = genRegFields(t, g, 1, true)
		case 2: // the whole response is a shared type
			c.Req = genRegFields(t, g, 1, true)
			c.RespPool = rapid.IntRange(1, np).Draw(t, "resppool")
		case 3: // the plugin of an earlier call again
			c.RetryOf = rapid.IntRange(1, i).Draw(t, "retryof")
		}
		if mode != 3 {
			c.ReqPtr = rapid.Bool().Draw(t, "reqptr")
			c.RespPtr = rapid.Bool().Draw(t, "respptr")
		}
		rc.Calls = append(rc.Calls, c)
	}
	return rc
}

// resolveRegFields returns a copy of fs in which every pool reference is replaced by the pool entry's fields.
func resolveRegFields(fs []RegField, pool [][]RegField) ([]RegField, error) {
	out := make([]RegField, len(fs))
	for i := range fs {
		out[i] = fs[i]
		f := &out[i]
		if f.Kind != rkStruct && f.Kind != rkPtr {
			f.Pool, f.Sub = 0, nil
			continue
		}
		src, subPool := f.Sub, pool
		if f.Pool != 0 {
			if f.Pool < 1 || f.Pool > len(pool) {
				return nil, fmt.Errorf("pool reference %d out of range", f.Pool)
			}
			src, subPool = pool[f.Pool-1], nil // pool entries hold no pool references themselves
			f.Pool = 0
		}
		sub, err := resolveRegFields(src, subPool)
		if err != nil {
			return nil, err
		}
		f.Sub = sub
	}
	return out, nil
}

func (f *RegField) name() string {
	if f.Secret {
		return secretNames[((f.Idx%len(secretNames))+len(secretNames))%len(secretNames)]
	}
	return benignNames[((f.Idx%len(benignNames))+len(benignNames))%len(benignNames)]
}

func validRegFields(fs []RegField, depth int) error {
	if len(fs) == 0 || len(fs) > 4 {
		return fmt.Errorf("struct with %d fields", len(fs))
	}
	for i := range fs {
		f := &fs[i]
		if f.Tag < tagNone || f.Tag > tagIgnore || f.Kind < rkString || f.Kind > rkPtr {
			return fmt.Errorf("bad tag/kind")
		}
		if f.Kind == rkStruct || f.Kind == rkPtr {
			if depth >= regMaxDepth+2 { // a pool type (itself up to 2 levels) may hang below a depth-3 field
				return fmt.Errorf("nesting deeper than %d", regMaxDepth+2)
			}
			if f.Pool != 0 {
				return fmt.Errorf("unresolved pool reference")
			}
			if err := validRegFields(f.Sub, depth+1); err != nil {
				return err
			}
		}
	}
	return nil
}

func regStructType(fs []RegField) reflect.Type {
	sf := make([]reflect.StructField, len(fs))
	used := map[string]int{}
	for i := range fs {
		f := &fs[i]
		name := f.name()
		used[name]++
		if used[name] > 1 {
			// a second "Password" in the same struct becomes "Password2": still unambiguously in its lexicon
			name = fmt.Sprintf("%s%d", name, used[name])
		}
		var t reflect.Type
		switch f.Kind {
		case rkString:
			t = reflect.TypeOf("")
		case rkInt:
			t = reflect.TypeOf(0)
		case rkBool:
			t = reflect.TypeOf(false)
		case rkBytes:
			t = reflect.TypeOf([]byte(nil))
		case rkStruct:
			t = regStructType(f.Sub)
		case rkPtr:
			t = reflect.PointerTo(regStructType(f.Sub))
		}
		sf[i] = reflect.StructField{Name: name, Type: t}
		switch f.Tag {
		case tagSecure:
			sf[i].Tag = `coerce:"secure"`
		case tagIgnore:
			sf[i].Tag = `coerce:"ignore"`
		}
	}
	return reflect.StructOf(sf)
}

// regEmptyValue builds the "empty object": zero leaves, nested pointers nil or pointing at an empty struct.
func regEmptyValue(fs []RegField) reflect.Value {
	v := reflect.New(regStructType(fs)).Elem()
	for i := range fs {
		f := &fs[i]
		switch f.Kind {
		case rkStruct:
			v.Field(i).Set(regEmptyValue(f.Sub))
		case rkPtr:
			if !f.NilPtr {
				sub := regEmptyValue(f.Sub)
				p := reflect.New(sub.Type())
				p.Elem().Set(sub)
				v.Field(i).Set(p)
			}
		}
	}
	return v
}

func regObject(fs []RegField, ptr bool) any {
	v := regEmptyValue(fs)
	if ptr {
		p := reflect.New(v.Type())
		p.Elem().Set(v)
		return p.Interface()
	}
	return v.Interface()
}

// regVerdict walks the type tree "through struct and pointer-to-struct nesting".
// offender: a secret-looking field with neither secure nor ignore, not beneath a tagged field.
// ambiguous: such a field beneath a field that is itself tagged secure/ignore (not judged).
func regVerdict(fs []RegField, underTagged bool, path string, st *regStats) (offender string, ambiguous bool) {
	for i := range fs {
		f := &fs[i]
		p := path + "." + f.name()
		if f.Secret && f.Tag == tagNone {
			if underTagged {
				ambiguous = true
			} else if offender == "" {
				offender = p
				st.offenderDepth = max(st.offenderDepth, len(splitDots(p)))
				if st.behindNil {
					st.offenderBehindNil = true
				}
			}
		}
		if f.Kind == rkStruct || f.Kind == rkPtr {
			saved := st.behindNil
			if f.Kind == rkPtr && f.NilPtr {
				st.behindNil = true
				st.nilPtrs++
			}
			o, a := regVerdict(f.Sub, underTagged || f.Tag != tagNone, p, st)
			st.behindNil = saved
			if offender == "" {
				offender = o
			}
			ambiguous = ambiguous || a
			st.nested++
		}
	}
	return offender, ambiguous
}

func splitDots(p string) []string {
	var out []string
	cur := ""
	for _, r := range p {
		if r == '.' {
			if cur != "" {
				out = append(out, cur)
			}
			cur = ""
			continue
		}
		cur += string(r)
	}
	if cur != "" {
		out = append(out, cur)
	}
	return out
}

type regStats struct {
	behindNil         bool
	offenderBehindNil bool
	offenderDepth     int
	nilPtrs           int
	nested            int
}

type fakePlugin struct {
	name      string
	req, resp any
}

func (p *fakePlugin) Name() string { return p.name }
func (p *fakePlugin) Execute(ctx context.Context, req any) (any, *plugins.Error) {
	return p.resp, nil
}
func (p *fakePlugin) ValidateReq(req any) error       { return nil }
func (p *fakePlugin) Request() any                    { return p.req }
func (p *fakePlugin) Response() any                   { return p.resp }
func (p *fakePlugin) IsCheck() bool                   { return false }
func (p *fakePlugin) RetryPolicy() exponential.Policy { return plugins.FastRetryPolicy() }
func (p *fakePlugin) Init() error                     { return nil }

var _ plugins.Plugin = (*fakePlugin)(nil)

// structTypes collects the struct types of a (resolved) type tree: all of them, and those that lie on the way to an
// offender (an untagged secret-looking field that is not beneath a tagged field), the directly containing one included.
func structTypes(fs []RegField, underTagged bool, all, offending map[reflect.Type]bool) (hasOffender bool) {
	t := regStructType(fs)
	all[t] = true
	for i := range fs {
		f := &fs[i]
		if f.Secret && f.Tag == tagNone && !underTagged {
			hasOffender = true
		}
		if f.Kind == rkStruct || f.Kind == rkPtr {
			if structTypes(f.Sub, underTagged || f.Tag != tagNone, all, offending) {
				hasOffender = true
			}
		}
	}
	if hasOffender {
		offending[t] = true
	}
	return hasOffender
}

// nestedByPointer reports whether one of the given struct types occurs in the tree behind a pointer field.
func nestedByPointer(fs []RegField, types map[reflect.Type]bool) bool {
	for i := range fs {
		f := &fs[i]
		if f.Kind == rkPtr && types[regStructType(f.Sub)] {
			return true
		}
		if (f.Kind == rkStruct || f.Kind == rkPtr) && nestedByPointer(f.Sub, types) {
			return true
		}
	}
	return false
}

// resolvedCall is a call with pool references and retries resolved.
type resolvedCall struct {
	name      string
	req, resp []RegField
	reqPtr    bool
	respPtr   bool
	retryOf   int // index of the call that is repeated, -1 if none
}

func resolveRegCase(rc *RegCase) ([]resolvedCall, error) {
	calls := rc.Calls
	if len(calls) == 0 && len(rc.Req) > 0 {
		calls = []RegCall{{Req: rc.Req, Resp: rc.Resp, ReqPtr: rc.ReqPtr, RespPtr: rc.RespPtr}} // legacy form
	}
	if len(calls) == 0 || len(calls) > regMaxCalls || len(rc.Pool) > regMaxPool {
		return nil, fmt.Errorf("%d calls, %d pool entries", len(calls), len(rc.Pool))
	}
	for _, pe := range rc.Pool {
		r, err := resolveRegFields(pe, nil)
		if err != nil {
			return nil, err
		}
		if err := validRegFields(r, 2); err != nil {
			return nil, err
		}
	}
	side := func(fs []RegField, pool int) ([]RegField, error) {
		if pool != 0 {
			if pool < 1 || pool > len(rc.Pool) {
				return nil, fmt.Errorf("pool reference %d out of range", pool)
			}
			fs = rc.Pool[pool-1]
		}
		r, err := resolveRegFields(fs, rc.Pool)
		if err != nil {
			return nil, err
		}
		return r, validRegFields(r, 1)
	}
	out := make([]resolvedCall, 0, len(calls))
	for i := range calls {
		c := &calls[i]
		if c.RetryOf != 0 {
			if c.RetryOf < 1 || c.RetryOf > i {
				return nil, fmt.Errorf("call %d retries call %d", i, c.RetryOf-1)
			}
			prev := out[c.RetryOf-1]
			prev.retryOf = c.RetryOf - 1
			prev.name = "" // decided by the caller, once it is known whether the earlier call had to be refused
			out = append(out, prev)
			continue
		}
		req, err := side(c.Req, c.ReqPool)
		if err != nil {
			return nil, err
		}
		resp, err := side(c.Resp, c.RespPool)
		if err != nil {
			return nil, err
		}
		out = append(out, resolvedCall{name: fmt.Sprintf("verif/pc17/plugin%d", i), req: req, resp: resp,
			reqPtr: c.ReqPtr, respPtr: c.RespPtr, retryOf: -1})
	}
	return out, nil
}

func checkRegistry(rc *RegCase, res *vprop.Result) {
	res.Label("mode:registry")
	calls, err := resolveRegCase(rc)
	if err != nil {
		res.Skip = true
		res.Label("invalid-case")
		return
	}
	res.Label(fmt.Sprintf("reg:calls:%d", len(calls)))
	f := &failer{res: res, seen: map[string]bool{}}

	reg := registry.New() // one registry per case, fresh for every case
	type past struct {
		refuse        bool
		all           map[reflect.Type]bool // struct types of the call's request and response trees
		offending     map[reflect.Type]bool // those on the way to an offender
		reqOffending  map[reflect.Type]bool
		respOffending map[reflect.Type]bool
	}
	var history []past

	for i := range calls {
		c := &calls[i]
		st := &regStats{}
		offReq, ambReq := regVerdict(c.req, false, "req", st)
		offResp, ambResp := regVerdict(c.resp, false, "resp", st)
		offender := offReq
		if offender == "" {
			offender = offResp
		}
		judged := true
		if offender == "" && (ambReq || ambResp) {
			// only replayed / hand-written cases get here; the generator does not produce the class. The call is
			// still made (it is part of the history of the later calls) but not judged.
			judged = false
			res.Label("reg:ambiguous-under-tagged-parent")
		}
		refuse := offender != ""
		if c.retryOf >= 0 {
			if history[c.retryOf].refuse {
				c.name = calls[c.retryOf].name // a refused plugin is not in the registry: its name is free
				res.Label("reg:retry-of-refused-plugin")
			} else {
				c.name = fmt.Sprintf("verif/pc17/plugin%d", i)
				res.Label("reg:same-types-new-name")
			}
		}

		all, offending := map[reflect.Type]bool{}, map[reflect.Type]bool{}
		reqOff, respOff := map[reflect.Type]bool{}, map[reflect.Type]bool{}
		structTypes(c.req, false, all, reqOff)
		structTypes(c.resp, false, all, respOff)
		for t := range reqOff {
			offending[t] = true
		}
		for t := range respOff {
			offending[t] = true
		}

		// classification against the history
		sharedAny, sharedRefused := false, false
		refusedTypes := map[reflect.Type]bool{} // this call's offending types that an earlier refused call contained
		for _, h := range history {
			for t := range all {
				if h.all[t] {
					sharedAny = true
				}
			}
			if !h.refuse {
				continue
			}
			for t := range offending {
				if h.all[t] {
					sharedRefused = true
					refusedTypes[t] = true
				}
			}
			// "a refused type reused as a response": offending in an earlier request, now offending in the response
			for t := range respOff {
				if h.reqOffending[t] && !h.respOffending[t] {
					res.Label("reg:refused-request-type-reused-in-response")
				}
			}
		}
		if sharedAny {
			res.Label("reg:type-shared-with-earlier-call")
			res.NonTrivial = true
		}
		if sharedRefused && refuse {
			res.Label("reg:type-shared-with-earlier-refused-registration")
			if nestedByPointer(c.req, refusedTypes) || nestedByPointer(c.resp, refusedTypes) {
				res.Label("reg:refused-type-nested-by-pointer")
			}
		}
		// non-trivial (single-call rule): nesting present and an offender below the top level, or a nil pointer
		if st.nested > 0 && (st.offenderDepth >= 3 || st.nilPtrs > 0) {
			res.NonTrivial = true
		}
		if judged {
			if refuse {
				res.Label("reg:expect-refuse")
				if st.offenderBehindNil {
					res.Label("reg:offender-behind-nil-pointer")
				}
				if st.offenderDepth >= 3 {
					res.Label("reg:offender-nested")
				}
			} else {
				res.Label("reg:expect-accept")
			}
		}
		history = append(history, past{refuse: refuse || !judged, all: all, offending: offending, reqOffending: reqOff, respOffending: respOff})

		plug := &fakePlugin{name: c.name, req: regObject(c.req, c.reqPtr), resp: regObject(c.resp, c.respPtr)}
		var err error
		panicked := func() (p any) {
			defer func() { p = recover() }()
			err = reg.Register(plug)
			return nil
		}()
		if panicked != nil {
			// The statement speaks of refusing; a panic is neither a registration nor a leak. Counted, not alarmed.
			res.Label("panic:register")
			return
		}
		if !judged {
			continue
		}
		switch {
		case refuse && err == nil:
			// Signature: does the wrong answer depend on the history? The same plugin is offered to a fresh registry;
			// if that one refuses it, the acceptance above is owed to the earlier calls of the case.
			freshRefuses := func() (refused bool) {
				defer func() { _ = recover() }()
				return registry.New().Register(&fakePlugin{name: c.name, req: regObject(c.req, c.reqPtr), resp: regObject(c.resp, c.respPtr)}) != nil
			}()
			cls := "top-level"
			switch {
			case freshRefuses && sharedRefused:
				// the same offending struct type was part of an earlier registration that had to be refused
				cls = "type-shared-with-earlier-refused-registration"
			case freshRefuses:
				cls = "depends-on-earlier-registrations"
			case st.offenderBehindNil:
				cls = "behind-nil-pointer"
			case st.offenderDepth >= 3:
				cls = "nested"
			}
			// "The registry refuses to register a plugin whose request or response type has a secret-looking field
			//  name without an explicit secure or ignore tag." — for every such plugin, whatever the registry was asked
			//  to register before.
			f.fail("C17/registry-accepted-untagged-secret:"+cls, "Register call #%d (plugin %q) accepted a plugin although field %s is secret-looking and has neither coerce:\"secure\" nor coerce:\"ignore\" (request %T, response %T)", i, c.name, offender, plug.req, plug.resp)
			return
		case !refuse && err != nil:
			// The statement is one-directional ("refuses ... a plugin whose ... type has a secret-looking field name
			// without ... tag"): a registry that also refuses a name of the benign lexicon (a wider pattern; the remedy
			// is coerce:"ignore") does not break it. Counted only; conf/C17.json puts a floor on the accepted compliant
			// types, so that a registry that refuses everything makes the run INCONCLUSIVE instead of green.
			res.Label("reg:compliant-type-refused")
			vprop.Count("reg_compliant_calls_refused", 1)
		case !refuse:
			res.Label("reg:compliant-type-accepted")
			vprop.Count("reg_compliant_calls_accepted", 1)
		case refuse && reg.Plugin(c.name) != nil:
			// "refuses to register": an error return with the plugin in the registry all the same is no refusal
			// (the name of a refused plugin is never registered by another call of the case)
			f.fail("C17/registry-refused-but-registered", "Register call #%d returned %v but plugin %q is in the registry", i, err, c.name)
			return
		}
	}
}
