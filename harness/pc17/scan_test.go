package pc17

// Canary scanning: a reflective walk over every exported, reachable value of a clone, and text scans of JSON
// documents / report files.

import (
	"bytes"
	"reflect"
	"strings"
	"sync"
)

// found is everything a reflective walk has seen.
type found struct {
	strs  []string
	ints  map[int64]bool
	bytes []string
}

func newFound() *found { return &found{ints: map[int64]bool{}} }

func scanValue(v reflect.Value, f *found) {
	if !v.IsValid() {
		return
	}
	switch v.Kind() {
	case reflect.String:
		f.strs = append(f.strs, v.String())
	case reflect.Int, reflect.Int8, reflect.Int16, reflect.Int32, reflect.Int64:
		f.ints[v.Int()] = true
	case reflect.Pointer, reflect.Interface:
		if !v.IsNil() {
			scanValue(v.Elem(), f)
		}
	case reflect.Struct:
		t := v.Type()
		for i := 0; i < v.NumField(); i++ {
			if !t.Field(i).IsExported() {
				continue // "only exported data matters": unexported fields are not encodable and not part of a request
			}
			scanValue(v.Field(i), f)
		}
	case reflect.Slice:
		if v.Type().Elem().Kind() == reflect.Uint8 {
			if v.Len() > 0 {
				f.bytes = append(f.bytes, string(v.Bytes()))
			}
			return
		}
		for i := 0; i < v.Len(); i++ {
			scanValue(v.Index(i), f)
		}
	case reflect.Array:
		if v.Type().Elem().Kind() == reflect.Uint8 {
			return // uuid.UUID
		}
		for i := 0; i < v.Len(); i++ {
			scanValue(v.Index(i), f)
		}
	case reflect.Map:
		it := v.MapRange()
		for it.Next() {
			scanValue(it.Key(), f)
			scanValue(it.Value(), f)
		}
	}
}

func scanAny(v any) *found {
	f := newFound()
	scanValue(reflect.ValueOf(v), f)
	return f
}

// has reports whether the canary occurs in the walked value (as a whole value or inside a larger string / []byte).
func (f *found) has(c Canary) bool {
	switch c.Kind {
	case 's':
		s := c.str()
		for _, x := range f.strs {
			if strings.Contains(x, s) {
				return true
			}
		}
		// a string canary copied into a []byte would still be a leak
		for _, x := range f.bytes {
			if strings.Contains(x, s) {
				return true
			}
		}
	case 'i':
		return f.ints[int64(c.int())]
	case 'b':
		s := string(c.bytes())
		for _, x := range f.bytes {
			if strings.Contains(x, s) {
				return true
			}
		}
		for _, x := range f.strs {
			if strings.Contains(x, s) {
				return true
			}
		}
	}
	return false
}

// textHas reports whether any textual form of the canary occurs in the document.
func textHas(doc []byte, c Canary) bool {
	for _, n := range c.needles() {
		if bytes.Contains(doc, []byte(n)) {
			return true
		}
	}
	return false
}

// ---------------------------------------------------------------------------------------------------------------------
// report files: every file embeds the same 1.6 MB banner image; it is compared byte-wise with the banner of the first
// file seen in this process (which is checked once not to contain any canary prefix) and skipped in the text scans.

const (
	bannerStart = `<div id="banner"`
	bannerEnd   = `<span style="margin-left:20px">`
)

var (
	bannerMu   sync.Mutex
	bannerRef  []byte
	bannerOK   bool
	bannerInit bool
)

var canaryPrefixes = []string{strCanaryPrefix, intCanaryPrefix, bytesCanaryPrefix, "Q05SWUJT", "Q05SWUJV"}

// scanParts returns the parts of a report file that have to be searched for canaries.
func scanParts(content []byte) [][]byte {
	i := bytes.Index(content, []byte(bannerStart))
	if i < 0 {
		return [][]byte{content}
	}
	j := bytes.Index(content[i:], []byte(bannerEnd))
	if j < 0 {
		return [][]byte{content}
	}
	j += i
	region := content[i:j]
	bannerMu.Lock()
	if !bannerInit {
		bannerInit = true
		bannerOK = true
		for _, p := range canaryPrefixes {
			if bytes.Contains(region, []byte(p)) {
				bannerOK = false // the first file had canary-like text in its banner region: never skip anything
			}
		}
		bannerRef = append([]byte(nil), region...)
	}
	ok := bannerOK && bytes.Equal(region, bannerRef)
	bannerMu.Unlock()
	if !ok {
		return [][]byte{content}
	}
	const overlap = 48
	return [][]byte{content[:min(i+overlap, len(content))], content[max(j-overlap, 0):]}
}
