package pc17

// Type-shape grammar of C17: the case is a plain-data tree (JSON round-trippable); the Go types are built at run time
// with reflect.StructOf / PointerTo / SliceOf / MapOf and every leaf is filled with a unique canary.
//
//	Shape := Struct{fields: [{secure bool, type Shape}]}   field i is named "F<i>", tag `coerce:"secure"` when secure
//	       | Ptr{elem, nil?} | Slice{elem, n} | Map{string -> elem, n}
//	       | Iface{dynamic value: struct | pointer-to-struct | slice | map | string | int, nil?}   (static type `any`)
//	       | String | Int | Bytes ([]byte) | Bool (filler only, cannot carry a canary)
//	       | Rec (rec_test.go) | Twin{pair, instantiation, secret?} (twin_test.go): values of statically declared types
//
// Go arrays are never generated ("Go arrays excepted, as documented").

import (
	"encoding/base64"
	"fmt"
	"reflect"
	"strconv"
	"strings"

	"pgregory.net/rapid"
)

const (
	kStruct = "struct"
	kPtr    = "ptr"
	kSlice  = "slice"
	kMap    = "map"
	kIface  = "iface"
	kString = "string"
	kInt    = "int"
	kBytes  = "bytes"
	kBool   = "bool"
	kRec    = "rec" // a value of a statically declared recursive type (rec_test.go)

	maxDepth  = 5
	maxLeaves = 12
)

// Shape is one node of the type tree (and of the value that is built from it).
type Shape struct {
	K string  `json:"k"`
	F []Field `json:"f,omitempty"` // struct fields
	E *Shape  `json:"e,omitempty"` // element of ptr / slice / map / iface
	// N is the number of elements of a slice or map value (0..2); every element is built from E with its own canaries.
	N int `json:"n,omitempty"`
	// MK is the key type of a map: "" = string, or "int", "int64", "uint8" (legal in request / response types; both JSON
	// encoders write such maps as objects with quoted keys).
	MK string `json:"mk,omitempty"`
	// Dup (slice or map of pointers with N == 2): both elements are the SAME pointer, so one object is reachable twice.
	Dup bool `json:"dup,omitempty"`
	// Nil makes the pointer / interface value nil.
	Nil bool `json:"nil,omitempty"`
	// R describes the value of a "rec" node.
	R *RecRoot `json:"r,omitempty"`
	// W describes the value of a "twin" node (twin_test.go).
	W *TwinRef `json:"w,omitempty"`
}

// Field is a struct field; its name is "F<position>".
type Field struct {
	S bool `json:"s,omitempty"` // tagged `coerce:"secure"`
	// I: tagged `coerce:"ignore"` (never together with S). The registry demands a tag on every field with a
	// secret-looking name, so `ignore` on a container ("Credentials") with `secure` on leaves below it is how such
	// types are written; the leaves below stay secret, whatever the tag of the container says about the container.
	I bool  `json:"i,omitempty"`
	T Shape `json:"t"`
	// V (with S): which spelling of the secure tag the field carries (index into secureSpellings; 0 = `coerce:"secure"`).
	// A spelling other than 0 is used only if this tree's own registry recognises it as tagging the field (tagwitness).
	V int `json:"v,omitempty"`
}

func isLeafKind(k string) bool { return k == kString || k == kInt || k == kBytes || k == kBool }

// ---------------------------------------------------------------------------------------------------------------------
// generator

func genLeaf(t *rapid.T) Shape {
	// strings are the common case in real requests; bool is filler
	k := rapid.SampledFrom([]string{kString, kString, kString, kInt, kInt, kBytes, kBytes, kBool}).Draw(t, "leaf")
	return Shape{K: k}
}

// genShape draws a shape that uses at most `allow` (>= 1) leaves and returns it with the number of leaves used.
func genShape(t *rapid.T, depth, allow int, inIface bool) (Shape, int) {
	if depth >= maxDepth || allow <= 0 {
		if inIface {
			return Shape{K: rapid.SampledFrom([]string{kString, kInt}).Draw(t, "ileaf")}, 1
		}
		return genLeaf(t), 1
	}
	var kinds []string
	if inIface {
		// "Iface{holding struct or pointer(-to-struct) or slice/map}" (+ plain string / int, as in map[string]any)
		kinds = []string{kString, kInt, kStruct, kStruct, kStruct, kPtr, kPtr, kPtr, kSlice, kSlice, kMap, kMap}
		if allow >= recLeafCost {
			kinds = append(kinds, kRec, kRec)
		}
	} else {
		// leaves first: rapid shrinks a SampledFrom draw towards the front of the list (and also favours it a little
		// when generating, hence the weight of the composite kinds)
		kinds = []string{kString, kInt, kBytes, kBool,
			kStruct, kStruct, kStruct, kPtr, kPtr, kPtr, kSlice, kSlice, kSlice, kMap, kMap, kMap,
			kIface, kIface, kIface, kIface}
		if allow >= recLeafCost {
			kinds = append(kinds, kRec)
		}
	}
	k := rapid.SampledFrom(kinds).Draw(t, "kind")
	switch k {
	case kStruct:
		return genStruct(t, depth, allow, 3)
	case kRec:
		return genRec(t), recLeafCost
	case kPtr:
		s := Shape{K: kPtr}
		var e Shape
		var used int
		if inIface && depth+1 < maxDepth && rapid.IntRange(0, 3).Draw(t, "ifaceptr") > 0 {
			e, used = genStruct(t, depth+1, allow, 3) // the usual case: an interface holding a pointer to a struct
		} else {
			e, used = genShape(t, depth+1, allow, false)
		}
		s.E = &e
		s.Nil = rapid.IntRange(0, 9).Draw(t, "nilptr") == 9
		return s, used
	case kSlice, kMap:
		s := Shape{K: k}
		var e Shape
		var used int
		// secure-tagged fields sit in structs: make "a struct (or a pointer to one) behind a slice / map" frequent
		if depth+2 < maxDepth && rapid.IntRange(0, 2).Draw(t, "elemstruct") == 2 {
			if rapid.Bool().Draw(t, "elemptr") {
				var st Shape
				st, used = genStruct(t, depth+2, allow, 3)
				e = Shape{K: kPtr, E: &st}
			} else {
				e, used = genStruct(t, depth+1, allow, 3)
			}
		} else {
			e, used = genShape(t, depth+1, allow, false)
		}
		s.E = &e
		s.N = rapid.SampledFrom([]int{1, 1, 1, 1, 2, 2, 2, 0}).Draw(t, "n")
		if s.N == 2 && e.K == kPtr && !e.Nil && rapid.IntRange(0, 2).Draw(t, "duppointer") == 2 {
			s.Dup = true
		}
		if k == kMap && rapid.IntRange(0, 3).Draw(t, "mapkey") == 3 {
			s.MK = rapid.SampledFrom([]string{"int", "int64", "uint8"}).Draw(t, "mapkeykind")
		}
		return s, used
	case kIface:
		s := Shape{K: kIface}
		e, used := genShape(t, depth+1, allow, true)
		s.E = &e
		s.Nil = rapid.IntRange(0, 9).Draw(t, "niliface") == 9
		return s, used
	}
	return Shape{K: k}, 1
}

func genStruct(t *rapid.T, depth, allow, maxFields int) (Shape, int) {
	if allow < 1 {
		allow = 1
	}
	nf := rapid.IntRange(1, min(maxFields, allow)).Draw(t, "nfields")
	s := Shape{K: kStruct}
	used := 0
	for i := 0; i < nf; i++ {
		// every later field keeps at least one leaf of allowance
		a := allow - used - (nf - 1 - i)
		var ft Shape
		var u int
		if depth+1 >= maxDepth {
			ft, u = genLeaf(t), 1
		} else {
			ft, u = genShape(t, depth+1, a, false)
		}
		used += u
		// a tag on a composite near the root makes everything beneath it secret at once; keep most tags on leaves
		secP := 2
		if isLeafKind(ft.K) {
			secP = 5
		}
		sec := rapid.IntRange(0, 9).Draw(t, "secure") < secP
		ign := false
		if !sec {
			// ignore tags mostly on containers (with secure-tagged leaves below them, by the secure draws further down)
			ignP := 1
			if !isLeafKind(ft.K) && ft.K != kRec {
				ignP = 4
			}
			ign = rapid.IntRange(0, 9).Draw(t, "ignore") < ignP
		}
		f := Field{S: sec, I: ign, T: ft}
		if sec && rapid.IntRange(0, 7).Draw(t, "tagspelling") == 7 {
			f.V = rapid.IntRange(1, len(secureSpellings)-1).Draw(t, "tagspellingkind")
		}
		s.F = append(s.F, f)
	}
	return s, used
}

// genTop draws the type of a request / response: always a struct at the top.
func genTop(t *rapid.T) Shape {
	if rapid.IntRange(0, 6).Draw(t, "toprec") == 6 {
		return genRec(t) // the request / response type itself is one of the recursive family
	}
	allow := rapid.IntRange(1, maxLeaves).Draw(t, "leaves")
	s, _ := genStruct(t, 0, allow, 4)
	return s
}

// ---------------------------------------------------------------------------------------------------------------------
// shape validation (replayed / fuzzed cases must obey the grammar too)

func validShape(s *Shape, depth int, inIface bool, leaves *int) error {
	if depth > maxDepth {
		return fmt.Errorf("depth > %d", maxDepth)
	}
	switch s.K {
	case kStruct:
		if len(s.F) == 0 || len(s.F) > 4 {
			return fmt.Errorf("struct with %d fields", len(s.F))
		}
		for i := range s.F {
			if s.F[i].S && s.F[i].I {
				return fmt.Errorf("field tagged secure and ignore")
			}
			if s.F[i].V < 0 || s.F[i].V >= len(secureSpellings) || (s.F[i].V != 0 && !s.F[i].S) {
				return fmt.Errorf("bad tag spelling %d", s.F[i].V)
			}
			if err := validShape(&s.F[i].T, depth+1, false, leaves); err != nil {
				return err
			}
		}
	case kPtr:
		if s.E == nil {
			return fmt.Errorf("ptr without elem")
		}
		return validShape(s.E, depth+1, false, leaves)
	case kSlice, kMap:
		if s.E == nil || s.N < 0 || s.N > 2 {
			return fmt.Errorf("bad %s", s.K)
		}
		if _, ok := mapKeyTypes[s.MK]; !ok || (s.MK != "" && s.K != kMap) {
			return fmt.Errorf("bad map key kind %q", s.MK)
		}
		if s.Dup && (s.N != 2 || s.E.K != kPtr || s.E.Nil) {
			return fmt.Errorf("dup on something that is not a pair of non-nil pointers")
		}
		return validShape(s.E, depth+1, false, leaves)
	case kIface:
		if s.E == nil || inIface {
			return fmt.Errorf("bad iface")
		}
		if s.E.K == kIface || s.E.K == kBytes || s.E.K == kBool {
			return fmt.Errorf("interface holding %s", s.E.K)
		}
		return validShape(s.E, depth+1, true, leaves)
	case kRec:
		*leaves += recLeafCost
		return validRec(s.R)
	case kTwin:
		*leaves += twinLeafCost
		return validTwin(s.W)
	case kString, kInt, kBytes, kBool:
		*leaves++
	default:
		return fmt.Errorf("unknown kind %q", s.K)
	}
	return nil
}

// ---------------------------------------------------------------------------------------------------------------------
// run-time types

var anyType = reflect.TypeOf((*any)(nil)).Elem()

// mapKeyTypes: the key types of generated maps by Shape.MK.
var mapKeyTypes = map[string]reflect.Type{
	"": reflect.TypeOf(""), "int": reflect.TypeOf(int(0)), "int64": reflect.TypeOf(int64(0)), "uint8": reflect.TypeOf(uint8(0)),
}

// hasDup reports whether the shape contains a slice or map whose two elements are one shared pointer.
func hasDup(s *Shape) bool {
	if s == nil {
		return false
	}
	if s.Dup {
		return true
	}
	for i := range s.F {
		if hasDup(&s.F[i].T) {
			return true
		}
	}
	return hasDup(s.E)
}

// hasSpelledTag reports whether a secure tag of the shape uses a spelling other than the plain one.
func hasSpelledTag(s *Shape) bool {
	if s == nil {
		return false
	}
	for i := range s.F {
		if (s.F[i].S && secureSpelling(s.F[i].V) != "secure") || hasSpelledTag(&s.F[i].T) {
			return true
		}
	}
	return hasSpelledTag(s.E)
}

// hasNonStringMap reports whether the shape contains a map whose key is not a string.
func hasNonStringMap(s *Shape) bool {
	if s == nil {
		return false
	}
	if s.K == kMap && s.MK != "" {
		return true
	}
	for i := range s.F {
		if hasNonStringMap(&s.F[i].T) {
			return true
		}
	}
	return hasNonStringMap(s.E)
}

func typeOf(s *Shape) reflect.Type {
	switch s.K {
	case kStruct:
		fs := make([]reflect.StructField, len(s.F))
		for i := range s.F {
			fs[i] = reflect.StructField{Name: "F" + strconv.Itoa(i), Type: typeOf(&s.F[i].T)}
			if s.F[i].S {
				fs[i].Tag = reflect.StructTag(`coerce:"` + secureSpelling(s.F[i].V) + `"`)
			} else if s.F[i].I {
				fs[i].Tag = `coerce:"ignore"`
			}
		}
		return reflect.StructOf(fs)
	case kPtr:
		return reflect.PointerTo(typeOf(s.E))
	case kSlice:
		return reflect.SliceOf(typeOf(s.E))
	case kMap:
		return reflect.MapOf(mapKeyTypes[s.MK], typeOf(s.E))
	case kIface:
		return anyType
	case kRec:
		return recTypeOf(s.R)
	case kTwin:
		return twinTypeOf(s.W)
	case kString:
		return reflect.TypeOf("")
	case kInt:
		return reflect.TypeOf(int(0))
	case kBytes:
		return reflect.TypeOf([]byte(nil))
	case kBool:
		return reflect.TypeOf(false)
	}
	panic("pc17: unknown kind " + s.K)
}

// ---------------------------------------------------------------------------------------------------------------------
// canaries

const (
	strCanaryPrefix   = "CANARY-"
	intCanaryBase     = 7301900000 // + n, n < 10000: ten digits "730190nnnn"
	intCanaryPrefix   = "730190"
	bytesCanaryPrefix = "CNRYB" // 12 bytes in all -> 16 base64 characters, no padding
)

// Canary is one planted leaf value.
type Canary struct {
	Kind   byte // 's' string, 'i' int, 'b' []byte
	N      int
	Secret bool // sits in or beneath a field tagged `coerce:"secure"`
	// Path is the chain of kinds from the root of the request/response type down to the secure-tagged field that makes
	// the canary secret (or to the leaf for untagged canaries), e.g. "struct>slice>iface>struct>string".
	Path string
	// Depth is the depth of the tagged field's type node (root struct = 0).
	Depth int
	// Behind is true when an interface, map or slice lies on the path.
	Behind bool
	// Carrier is the index of the carrier (request/response) the canary was planted in.
	Carrier int
	// IgnoreAbove lists the kinds of the ignore-tagged fields above the canary (above the secure-tagged field for a
	// secret one), outermost first, e.g. "map" or "struct>slice". Empty when no ignore tag lies above it.
	IgnoreAbove string
	// Ignored: a non-secret canary in or below an ignore-tagged field. Whether "untagged data ... left intact" covers
	// data tagged ignore is not settled by the statement, so its presence is not asserted.
	Ignored bool
}

func (c Canary) str() string {
	tag := "U"
	if c.Secret {
		tag = "S"
	}
	return fmt.Sprintf("%s%s-%04d-E", strCanaryPrefix, tag, c.N)
}

func (c Canary) int() int { return intCanaryBase + c.N }

func (c Canary) bytes() []byte {
	tag := "U"
	if c.Secret {
		tag = "S"
	}
	return []byte(fmt.Sprintf("%s%s%06d", bytesCanaryPrefix, tag, c.N)) // 5+1+6 = 12 bytes
}

// needles are the texts by which the canary would show in a JSON document / HTML file.
func (c Canary) needles() []string {
	switch c.Kind {
	case 's':
		return []string{c.str()}
	case 'i':
		return []string{strconv.Itoa(c.int())}
	default:
		b := c.bytes()
		return []string{string(b), base64.StdEncoding.EncodeToString(b), base64.URLEncoding.EncodeToString(b)}
	}
}

func (c Canary) String() string {
	switch c.Kind {
	case 's':
		return fmt.Sprintf("%q", c.str())
	case 'i':
		return strconv.Itoa(c.int())
	default:
		return fmt.Sprintf("[]byte(%q)", c.bytes())
	}
}

// valueBuilder builds the value of a shape; construction is deterministic, so building the same case twice yields
// deep-equal, memory-disjoint values.
type valueBuilder struct {
	next     int
	carrier  int
	canaries []Canary
}

type pathInfo struct {
	kinds  []string
	secret bool
	// frozen* describe the secure-tagged field once one has been passed
	frozenPath   string
	frozenDepth  int
	frozenBehind bool
	// ignoreAbove: kinds of the ignore-tagged fields passed so far (frozen with the secure-tagged field)
	ignoreAbove []string
}

func (p pathInfo) push(k string) pathInfo {
	q := p
	q.kinds = append(append([]string(nil), p.kinds...), k)
	return q
}

func behind(kinds []string) bool {
	for _, k := range kinds[:max(len(kinds)-1, 0)] {
		if k == kIface || k == kMap || k == kSlice {
			return true
		}
	}
	return false
}

func (b *valueBuilder) plant(kind byte, p pathInfo) Canary {
	c := Canary{Kind: kind, N: b.next, Secret: p.secret, Carrier: b.carrier}
	b.next++
	if p.secret {
		c.Path, c.Depth, c.Behind = p.frozenPath, p.frozenDepth, p.frozenBehind
	} else {
		c.Path, c.Depth, c.Behind = strings.Join(p.kinds, ">"), len(p.kinds)-1, behind(p.kinds)
		c.Ignored = len(p.ignoreAbove) > 0
	}
	c.IgnoreAbove = strings.Join(p.ignoreAbove, ">")
	b.canaries = append(b.canaries, c)
	return c
}

// value builds the value for s; p.kinds already ends with s.K.
func (b *valueBuilder) value(s *Shape, p pathInfo) reflect.Value {
	t := typeOf(s)
	switch s.K {
	case kStruct:
		v := reflect.New(t).Elem()
		for i := range s.F {
			f := &s.F[i]
			q := p.push(f.T.K)
			if f.S && !q.secret {
				// "everything beneath a secure-tagged field is secret"
				q.secret = true
				q.frozenPath, q.frozenDepth, q.frozenBehind = strings.Join(q.kinds, ">"), len(q.kinds)-1, behind(q.kinds)
			}
			if f.I && !q.secret {
				// an ignore tag says something about this field only: a secure-tagged field below it stays secret
				q.ignoreAbove = append(append([]string(nil), q.ignoreAbove...), f.T.K)
			}
			v.Field(i).Set(b.value(&f.T, q))
		}
		return v
	case kPtr:
		if s.Nil {
			return reflect.Zero(t)
		}
		ptr := reflect.New(t.Elem())
		ptr.Elem().Set(b.value(s.E, p.push(s.E.K)))
		return ptr
	case kSlice:
		v := reflect.MakeSlice(t, s.N, s.N)
		if s.Dup && s.N == 2 {
			shared := b.value(s.E, p.push(s.E.K))
			v.Index(0).Set(shared)
			v.Index(1).Set(shared)
			return v
		}
		for i := 0; i < s.N; i++ {
			v.Index(i).Set(b.value(s.E, p.push(s.E.K)))
		}
		return v
	case kMap:
		v := reflect.MakeMapWithSize(t, s.N)
		var shared reflect.Value
		if s.Dup && s.N == 2 {
			shared = b.value(s.E, p.push(s.E.K))
		}
		for i := 0; i < s.N; i++ {
			key := reflect.ValueOf("k" + strconv.Itoa(i))
			if s.MK != "" {
				key = reflect.ValueOf(i + 1).Convert(t.Key())
			}
			if shared.IsValid() {
				v.SetMapIndex(key, shared)
				continue
			}
			v.SetMapIndex(key, b.value(s.E, p.push(s.E.K)))
		}
		return v
	case kIface:
		v := reflect.New(t).Elem()
		if !s.Nil {
			v.Set(b.value(s.E, p.push(s.E.K)))
		}
		return v
	case kRec:
		return b.recValue(t, &s.R.V, p)
	case kTwin:
		return b.staticValue(t, p)
	case kString:
		return reflect.ValueOf(b.plant('s', p).str())
	case kInt:
		return reflect.ValueOf(b.plant('i', p).int())
	case kBytes:
		return reflect.ValueOf(b.plant('b', p).bytes())
	case kBool:
		return reflect.ValueOf(true)
	}
	panic("pc17: unknown kind " + s.K)
}

// top builds the request / response value of a carrier: the struct itself or a pointer to it, as an `any`.
func (b *valueBuilder) top(s *Shape, ptr bool) any {
	v := b.value(s, pathInfo{kinds: []string{s.K}})
	if ptr {
		p := reflect.New(v.Type())
		p.Elem().Set(v)
		return p.Interface()
	}
	return v.Interface()
}

// hardEdges are the constructs behind which a reflective scrubber most plausibly stops; the first one on the path from
// the root to the secure-tagged field is the structural class of a leak signature.
var hardEdges = map[string]bool{
	"ptr>ptr": true, "ptr>slice": true, "ptr>map": true, "ptr>iface": true,
	"slice>iface": true, "map>iface": true,
}

// pathClass maps "struct>slice>iface>struct>string" to "slice>iface"; paths without such a construct are "plain";
// paths through a value of the recursive family are "recursive-type".
func joinKinds(ks []string) string { return strings.Join(ks, ">") }

// classOf is the structural class of a canary for a rule signature: pathClass, and for otherwise plain paths
// "below-ignore-tagged-field" when an ignore-tagged field lies above the (secure-tagged field of the) canary; the
// suffix ":twin-type" when the path runs through a value of a twin type.
func classOf(c Canary) string {
	cls := pathClass(c.Path)
	if cls == "plain" && c.IgnoreAbove != "" {
		cls = "below-ignore-tagged-field"
	}
	for _, k := range strings.Split(c.Path, ">") {
		if k == kTwin {
			// the canary sits in a value of a twin type (twin_test.go): the verdict may depend on the primer
			return cls + ":twin-type"
		}
	}
	return cls
}

func pathClass(path string) string {
	ks := strings.Split(path, ">")
	for _, k := range ks {
		if k == kRec {
			return "recursive-type" // the canary sits in a value of a (mutually) recursive static type
		}
	}
	for i := 0; i+1 < len(ks); i++ {
		if e := ks[i] + ">" + ks[i+1]; hardEdges[e] {
			return e
		}
	}
	return "plain"
}

// edges lists the parent>child kind pairs of a shape (evidence labels; "which constructs did the generator reach").
func edges(s *Shape, out map[string]bool) {
	add := func(c *Shape) {
		out[s.K+">"+c.K] = true
		edges(c, out)
	}
	switch s.K {
	case kStruct:
		for i := range s.F {
			add(&s.F[i].T)
		}
	case kPtr, kSlice, kMap, kIface:
		add(s.E)
	}
}
