package pc17

// Spellings of the secure tag.
//
// The statement speaks of fields "tagged secure". How the tag may be spelled inside `coerce:"..."` (upper case, padding,
// a comma separated list) is not in the statement, so the plain `coerce:"secure"` is the only spelling the harness takes
// for granted. Every other spelling is used only if the tree under test ITSELF treats it as tagging the field: its
// registry refuses a request type with an untagged field named Password, and accepts the same type once the field
// carries the spelling, while still refusing it with the spelling's other list elements alone. A spelling that this
// witness does not recognise is replaced by the plain one (so a tree that is strict about spellings cannot be accused
// of leaking a field it does not regard as tagged).

import (
	"reflect"
	"strings"
	"sync"

	"github.com/element-of-surprise/coercion/plugins/registry"
)

// secureSpellings[0] is the plain spelling.
var secureSpellings = []string{"secure", "Secure", "SECURE", " secure", "secure ", "note,secure", "note, secure", "secure,note", "secure , note"}

var (
	spellingOnce       sync.Once
	spellingRecognised []bool
)

func registryAcceptsPasswordTagged(tag string) bool {
	f := reflect.StructField{Name: "Password", Type: reflect.TypeOf("")}
	if tag != "" {
		f.Tag = reflect.StructTag(`coerce:"` + tag + `"`)
	}
	t := reflect.StructOf([]reflect.StructField{{Name: "Name", Type: reflect.TypeOf("")}, f})
	defer func() { _ = recover() }()
	return registry.New().Register(&fakePlugin{name: "verif/pc17.tagwitness", req: reflect.New(t).Elem().Interface(), resp: struct{ Name string }{}}) == nil
}

func witnessSpellings() {
	spellingRecognised = make([]bool, len(secureSpellings))
	spellingRecognised[0] = true
	if registryAcceptsPasswordTagged("") || !registryAcceptsPasswordTagged("secure") {
		return // the registry does not behave like a witness at all: only the plain spelling is used
	}
	for i, sp := range secureSpellings[1:] {
		// the spelling without its "secure" element (what is left must not be what satisfies the registry)
		var rest []string
		for _, el := range strings.Split(sp, ",") {
			if strings.ToLower(strings.TrimSpace(el)) != "secure" {
				rest = append(rest, el)
			}
		}
		spellingRecognised[i+1] = registryAcceptsPasswordTagged(sp) && !registryAcceptsPasswordTagged(strings.Join(rest, ","))
	}
}

// secureSpelling returns the text of the coerce tag for spelling v: the spelling itself if the tree's registry recognises
// it, the plain "secure" otherwise.
func secureSpelling(v int) string {
	spellingOnce.Do(witnessSpellings)
	if v <= 0 || v >= len(secureSpellings) || !spellingRecognised[v] {
		return "secure"
	}
	return secureSpellings[v]
}
