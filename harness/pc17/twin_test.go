package pc17

// "Twin types": pairs of DISTINCT Go struct types that print the same reflect.Type.String().
//
// Two types declared with the same name inside different functions of one package are different types, yet both print
// "pc17.Twin0Req[...]". Code under test that keeps per-type state keyed by Type.String() (a cache of parsed `coerce`
// tags, say) confuses the two. Each pair below has a "benign" member, in which one field is tagged `coerce:"ignore"` or
// carries no tag, and a "secret" member, in which the field at the SAME index (of the type itself or of a struct type
// nested in it) is tagged `coerce:"secure"`; all other fields, names and field types (by String()) agree.
//
// A case that holds a twin value first runs a PRIMER in the same process: the same request with the OTHER member of the
// pair goes through clone.Plan (default options) and reports.Render, results ignored. Only then is the case judged, by
// the unchanged oracle: with the secret member in the case (primer = benign member) a stale "not secure" answer shows as
// a leak; with the benign member in the case (primer = secret member) a stale "secure" answer shows as lost untagged data.
//
// Such state is process-wide and a pair can be primed only once per process; therefore every type is generic over a
// phantom parameter and instantiated twinInstances times (as in rec_test.go); the case names the instantiation.

import (
	"encoding/json"
	"fmt"
	"reflect"

	"pgregory.net/rapid"
)

const (
	kTwin = "twin" // a value of a twin type

	twinPairs     = 9
	twinInstances = 256
	twinLeafCost  = 3 // what a twin value costs of the <= 12 leaves budget of a shape
)

// twinFam holds one instantiation of all pairs: [pair][0] is the benign member, [pair][1] the secret member.
type twinFam [twinPairs][2]reflect.Type

// twinPairNames describes the differing field of each pair (labels only).
var twinPairNames = [twinPairs]string{
	"string:ignore", "bytes:untagged", "int:untagged", "struct:ignore", "ptr-to-struct:inner-untagged",
	"slice-of-struct:inner-ignore", "map-of-struct:untagged", "slice-of-ptr:inner-untagged", "map-of-ptr:ignore",
}

// pair 0: a string leaf, ignore / secure
func twin0Benign[P any]() reflect.Type {
	type Twin0Req struct {
		Name  string
		Token string `coerce:"ignore"`
	}
	return reflect.TypeOf(Twin0Req{})
}

func twin0Secret[P any]() reflect.Type {
	type Twin0Req struct {
		Name  string
		Token string `coerce:"secure"`
	}
	return reflect.TypeOf(Twin0Req{})
}

// pair 1: a []byte leaf in first position, untagged / secure
func twin1Benign[P any]() reflect.Type {
	type Twin1Req struct {
		Key  []byte
		Note string
	}
	return reflect.TypeOf(Twin1Req{})
}

func twin1Secret[P any]() reflect.Type {
	type Twin1Req struct {
		Key  []byte `coerce:"secure"`
		Note string
	}
	return reflect.TypeOf(Twin1Req{})
}

// pair 2: an int leaf in the middle, untagged / secure
func twin2Benign[P any]() reflect.Type {
	type Twin2Req struct {
		Name string
		Pin  int
		Note string
	}
	return reflect.TypeOf(Twin2Req{})
}

func twin2Secret[P any]() reflect.Type {
	type Twin2Req struct {
		Name string
		Pin  int `coerce:"secure"`
		Note string
	}
	return reflect.TypeOf(Twin2Req{})
}

// pair 3: a nested struct by value, ignore / secure on the struct field
func twin3Benign[P any]() reflect.Type {
	type Twin3Creds struct {
		User string
		Pass string
	}
	type Twin3Req struct {
		Name  string
		Creds Twin3Creds `coerce:"ignore"`
	}
	return reflect.TypeOf(Twin3Req{})
}

func twin3Secret[P any]() reflect.Type {
	type Twin3Creds struct {
		User string
		Pass string
	}
	type Twin3Req struct {
		Name  string
		Creds Twin3Creds `coerce:"secure"`
	}
	return reflect.TypeOf(Twin3Req{})
}

// pair 4: a pointer to a struct; the outer types have the same tags, the INNER types are the twins (untagged / secure)
func twin4Benign[P any]() reflect.Type {
	type Twin4Inner struct {
		Label string
		V     string
	}
	type Twin4Req struct {
		Name string
		In   *Twin4Inner
	}
	return reflect.TypeOf(Twin4Req{})
}

func twin4Secret[P any]() reflect.Type {
	type Twin4Inner struct {
		Label string
		V     string `coerce:"secure"`
	}
	type Twin4Req struct {
		Name string
		In   *Twin4Inner
	}
	return reflect.TypeOf(Twin4Req{})
}

// pair 5: a slice of structs; the element types are the twins (ignore / secure)
func twin5Benign[P any]() reflect.Type {
	type Twin5Item struct {
		ID     int
		Secret string `coerce:"ignore"`
	}
	type Twin5Req struct {
		Items []Twin5Item
		Note  string
	}
	return reflect.TypeOf(Twin5Req{})
}

func twin5Secret[P any]() reflect.Type {
	type Twin5Item struct {
		ID     int
		Secret string `coerce:"secure"`
	}
	type Twin5Req struct {
		Items []Twin5Item
		Note  string
	}
	return reflect.TypeOf(Twin5Req{})
}

// pair 6: a map of structs, untagged / secure on the map field
func twin6Benign[P any]() reflect.Type {
	type Twin6Entry struct {
		V string
		N int
	}
	type Twin6Req struct {
		ByName map[string]Twin6Entry
		Name   string
	}
	return reflect.TypeOf(Twin6Req{})
}

func twin6Secret[P any]() reflect.Type {
	type Twin6Entry struct {
		V string
		N int
	}
	type Twin6Req struct {
		ByName map[string]Twin6Entry `coerce:"secure"`
		Name   string
	}
	return reflect.TypeOf(Twin6Req{})
}

// pair 7: a slice of pointers to structs; the element types are the twins ([]byte in first position, untagged / secure)
func twin7Benign[P any]() reflect.Type {
	type Twin7Kid struct {
		Tok   []byte
		Label string
	}
	type Twin7Req struct {
		Name string
		Kids []*Twin7Kid
	}
	return reflect.TypeOf(Twin7Req{})
}

func twin7Secret[P any]() reflect.Type {
	type Twin7Kid struct {
		Tok   []byte `coerce:"secure"`
		Label string
	}
	type Twin7Req struct {
		Name string
		Kids []*Twin7Kid
	}
	return reflect.TypeOf(Twin7Req{})
}

// pair 8: a map of pointers to structs, ignore / secure on the map field
func twin8Benign[P any]() reflect.Type {
	type Twin8Elem struct {
		V string
	}
	type Twin8Req struct {
		M     map[string]*Twin8Elem `coerce:"ignore"`
		Count int
	}
	return reflect.TypeOf(Twin8Req{})
}

func twin8Secret[P any]() reflect.Type {
	type Twin8Elem struct {
		V string
	}
	type Twin8Req struct {
		M     map[string]*Twin8Elem `coerce:"secure"`
		Count int
	}
	return reflect.TypeOf(Twin8Req{})
}

func twinFamOf[P any]() twinFam {
	return twinFam{
		{twin0Benign[P](), twin0Secret[P]()}, {twin1Benign[P](), twin1Secret[P]()}, {twin2Benign[P](), twin2Secret[P]()},
		{twin3Benign[P](), twin3Secret[P]()}, {twin4Benign[P](), twin4Secret[P]()}, {twin5Benign[P](), twin5Secret[P]()},
		{twin6Benign[P](), twin6Secret[P]()}, {twin7Benign[P](), twin7Secret[P]()}, {twin8Benign[P](), twin8Secret[P]()},
	}
}

// twinFamilies: the instantiations of the pairs (phantom parameter [n]int8).
var twinFamilies = [twinInstances]twinFam{
	twinFamOf[[0]int8](), twinFamOf[[1]int8](), twinFamOf[[2]int8](), twinFamOf[[3]int8](), twinFamOf[[4]int8](), twinFamOf[[5]int8](), twinFamOf[[6]int8](), twinFamOf[[7]int8](),
	twinFamOf[[8]int8](), twinFamOf[[9]int8](), twinFamOf[[10]int8](), twinFamOf[[11]int8](), twinFamOf[[12]int8](), twinFamOf[[13]int8](), twinFamOf[[14]int8](), twinFamOf[[15]int8](),
	twinFamOf[[16]int8](), twinFamOf[[17]int8](), twinFamOf[[18]int8](), twinFamOf[[19]int8](), twinFamOf[[20]int8](), twinFamOf[[21]int8](), twinFamOf[[22]int8](), twinFamOf[[23]int8](),
	twinFamOf[[24]int8](), twinFamOf[[25]int8](), twinFamOf[[26]int8](), twinFamOf[[27]int8](), twinFamOf[[28]int8](), twinFamOf[[29]int8](), twinFamOf[[30]int8](), twinFamOf[[31]int8](),
	twinFamOf[[32]int8](), twinFamOf[[33]int8](), twinFamOf[[34]int8](), twinFamOf[[35]int8](), twinFamOf[[36]int8](), twinFamOf[[37]int8](), twinFamOf[[38]int8](), twinFamOf[[39]int8](),
	twinFamOf[[40]int8](), twinFamOf[[41]int8](), twinFamOf[[42]int8](), twinFamOf[[43]int8](), twinFamOf[[44]int8](), twinFamOf[[45]int8](), twinFamOf[[46]int8](), twinFamOf[[47]int8](),
	twinFamOf[[48]int8](), twinFamOf[[49]int8](), twinFamOf[[50]int8](), twinFamOf[[51]int8](), twinFamOf[[52]int8](), twinFamOf[[53]int8](), twinFamOf[[54]int8](), twinFamOf[[55]int8](),
	twinFamOf[[56]int8](), twinFamOf[[57]int8](), twinFamOf[[58]int8](), twinFamOf[[59]int8](), twinFamOf[[60]int8](), twinFamOf[[61]int8](), twinFamOf[[62]int8](), twinFamOf[[63]int8](),
	twinFamOf[[64]int8](), twinFamOf[[65]int8](), twinFamOf[[66]int8](), twinFamOf[[67]int8](), twinFamOf[[68]int8](), twinFamOf[[69]int8](), twinFamOf[[70]int8](), twinFamOf[[71]int8](),
	twinFamOf[[72]int8](), twinFamOf[[73]int8](), twinFamOf[[74]int8](), twinFamOf[[75]int8](), twinFamOf[[76]int8](), twinFamOf[[77]int8](), twinFamOf[[78]int8](), twinFamOf[[79]int8](),
	twinFamOf[[80]int8](), twinFamOf[[81]int8](), twinFamOf[[82]int8](), twinFamOf[[83]int8](), twinFamOf[[84]int8](), twinFamOf[[85]int8](), twinFamOf[[86]int8](), twinFamOf[[87]int8](),
	twinFamOf[[88]int8](), twinFamOf[[89]int8](), twinFamOf[[90]int8](), twinFamOf[[91]int8](), twinFamOf[[92]int8](), twinFamOf[[93]int8](), twinFamOf[[94]int8](), twinFamOf[[95]int8](),
	twinFamOf[[96]int8](), twinFamOf[[97]int8](), twinFamOf[[98]int8](), twinFamOf[[99]int8](), twinFamOf[[100]int8](), twinFamOf[[101]int8](), twinFamOf[[102]int8](), twinFamOf[[103]int8](),
	twinFamOf[[104]int8](), twinFamOf[[105]int8](), twinFamOf[[106]int8](), twinFamOf[[107]int8](), twinFamOf[[108]int8](), twinFamOf[[109]int8](), twinFamOf[[110]int8](), twinFamOf[[111]int8](),
	twinFamOf[[112]int8](), twinFamOf[[113]int8](), twinFamOf[[114]int8](), twinFamOf[[115]int8](), twinFamOf[[116]int8](), twinFamOf[[117]int8](), twinFamOf[[118]int8](), twinFamOf[[119]int8](),
	twinFamOf[[120]int8](), twinFamOf[[121]int8](), twinFamOf[[122]int8](), twinFamOf[[123]int8](), twinFamOf[[124]int8](), twinFamOf[[125]int8](), twinFamOf[[126]int8](), twinFamOf[[127]int8](),
	twinFamOf[[128]int8](), twinFamOf[[129]int8](), twinFamOf[[130]int8](), twinFamOf[[131]int8](), twinFamOf[[132]int8](), twinFamOf[[133]int8](), twinFamOf[[134]int8](), twinFamOf[[135]int8](),
	twinFamOf[[136]int8](), twinFamOf[[137]int8](), twinFamOf[[138]int8](), twinFamOf[[139]int8](), twinFamOf[[140]int8](), twinFamOf[[141]int8](), twinFamOf[[142]int8](), twinFamOf[[143]int8](),
	twinFamOf[[144]int8](), twinFamOf[[145]int8](), twinFamOf[[146]int8](), twinFamOf[[147]int8](), twinFamOf[[148]int8](), twinFamOf[[149]int8](), twinFamOf[[150]int8](), twinFamOf[[151]int8](),
	twinFamOf[[152]int8](), twinFamOf[[153]int8](), twinFamOf[[154]int8](), twinFamOf[[155]int8](), twinFamOf[[156]int8](), twinFamOf[[157]int8](), twinFamOf[[158]int8](), twinFamOf[[159]int8](),
	twinFamOf[[160]int8](), twinFamOf[[161]int8](), twinFamOf[[162]int8](), twinFamOf[[163]int8](), twinFamOf[[164]int8](), twinFamOf[[165]int8](), twinFamOf[[166]int8](), twinFamOf[[167]int8](),
	twinFamOf[[168]int8](), twinFamOf[[169]int8](), twinFamOf[[170]int8](), twinFamOf[[171]int8](), twinFamOf[[172]int8](), twinFamOf[[173]int8](), twinFamOf[[174]int8](), twinFamOf[[175]int8](),
	twinFamOf[[176]int8](), twinFamOf[[177]int8](), twinFamOf[[178]int8](), twinFamOf[[179]int8](), twinFamOf[[180]int8](), twinFamOf[[181]int8](), twinFamOf[[182]int8](), twinFamOf[[183]int8](),
	twinFamOf[[184]int8](), twinFamOf[[185]int8](), twinFamOf[[186]int8](), twinFamOf[[187]int8](), twinFamOf[[188]int8](), twinFamOf[[189]int8](), twinFamOf[[190]int8](), twinFamOf[[191]int8](),
	twinFamOf[[192]int8](), twinFamOf[[193]int8](), twinFamOf[[194]int8](), twinFamOf[[195]int8](), twinFamOf[[196]int8](), twinFamOf[[197]int8](), twinFamOf[[198]int8](), twinFamOf[[199]int8](),
	twinFamOf[[200]int8](), twinFamOf[[201]int8](), twinFamOf[[202]int8](), twinFamOf[[203]int8](), twinFamOf[[204]int8](), twinFamOf[[205]int8](), twinFamOf[[206]int8](), twinFamOf[[207]int8](),
	twinFamOf[[208]int8](), twinFamOf[[209]int8](), twinFamOf[[210]int8](), twinFamOf[[211]int8](), twinFamOf[[212]int8](), twinFamOf[[213]int8](), twinFamOf[[214]int8](), twinFamOf[[215]int8](),
	twinFamOf[[216]int8](), twinFamOf[[217]int8](), twinFamOf[[218]int8](), twinFamOf[[219]int8](), twinFamOf[[220]int8](), twinFamOf[[221]int8](), twinFamOf[[222]int8](), twinFamOf[[223]int8](),
	twinFamOf[[224]int8](), twinFamOf[[225]int8](), twinFamOf[[226]int8](), twinFamOf[[227]int8](), twinFamOf[[228]int8](), twinFamOf[[229]int8](), twinFamOf[[230]int8](), twinFamOf[[231]int8](),
	twinFamOf[[232]int8](), twinFamOf[[233]int8](), twinFamOf[[234]int8](), twinFamOf[[235]int8](), twinFamOf[[236]int8](), twinFamOf[[237]int8](), twinFamOf[[238]int8](), twinFamOf[[239]int8](),
	twinFamOf[[240]int8](), twinFamOf[[241]int8](), twinFamOf[[242]int8](), twinFamOf[[243]int8](), twinFamOf[[244]int8](), twinFamOf[[245]int8](), twinFamOf[[246]int8](), twinFamOf[[247]int8](),
	twinFamOf[[248]int8](), twinFamOf[[249]int8](), twinFamOf[[250]int8](), twinFamOf[[251]int8](), twinFamOf[[252]int8](), twinFamOf[[253]int8](), twinFamOf[[254]int8](), twinFamOf[[255]int8](),
}

// twinTypesAgree: the two types are distinct, print the same String(), and agree field by field in name and in the
// String() of the field type (recursively for the struct types they lead to); tags may differ.
func twinTypesAgree(a, b reflect.Type) error {
	if a.String() != b.String() {
		return fmt.Errorf("%s and %s print differently", a, b)
	}
	switch a.Kind() {
	case reflect.Pointer, reflect.Slice, reflect.Map:
		if a.Kind() != b.Kind() {
			return fmt.Errorf("%s: kinds differ", a)
		}
		return twinTypesAgree(a.Elem(), b.Elem())
	case reflect.Struct:
		if b.Kind() != reflect.Struct || a.NumField() != b.NumField() {
			return fmt.Errorf("%s: layouts differ", a)
		}
		for i := 0; i < a.NumField(); i++ {
			if a.Field(i).Name != b.Field(i).Name {
				return fmt.Errorf("%s: field %d is named differently", a, i)
			}
			if err := twinTypesAgree(a.Field(i).Type, b.Field(i).Type); err != nil {
				return err
			}
		}
	default:
		if a != b {
			return fmt.Errorf("%s: leaf types differ", a)
		}
	}
	return nil
}

// twinTagsDiffer reports whether some field (at the same index) carries a different tag in the two types.
func twinTagsDiffer(a, b reflect.Type) bool {
	switch a.Kind() {
	case reflect.Pointer, reflect.Slice, reflect.Map:
		return twinTagsDiffer(a.Elem(), b.Elem())
	case reflect.Struct:
		for i := 0; i < a.NumField(); i++ {
			if a.Field(i).Tag != b.Field(i).Tag || twinTagsDiffer(a.Field(i).Type, b.Field(i).Type) {
				return true
			}
		}
	}
	return false
}

// The premise of the class, asserted once per process: the members of a pair are distinct types with one String(),
// and no two pairs / instantiations share a String().
func init() {
	names := map[string]bool{}
	for inst := range twinFamilies {
		for pair := range twinFamilies[inst] {
			ben, sec := twinFamilies[inst][pair][0], twinFamilies[inst][pair][1]
			if ben == sec {
				panic(fmt.Sprintf("pc17: twin pair %d/%d: the members are the same type", pair, inst))
			}
			if err := twinTypesAgree(ben, sec); err != nil {
				panic(fmt.Sprintf("pc17: twin pair %d/%d: %v", pair, inst, err))
			}
			if !twinTagsDiffer(ben, sec) {
				panic(fmt.Sprintf("pc17: twin pair %d/%d: no tag differs", pair, inst))
			}
			if names[ben.String()] {
				panic(fmt.Sprintf("pc17: twin pair %d/%d: %s is also the name of another pair", pair, inst, ben))
			}
			names[ben.String()] = true
		}
	}
}

// TwinRef describes a "twin" node: pair, instantiation, and which member the case holds.
type TwinRef struct {
	Pair   int  `json:"pair"`
	Inst   int  `json:"inst"`
	Secret bool `json:"secret,omitempty"`
}

func validTwin(w *TwinRef) error {
	if w == nil || w.Pair < 0 || w.Pair >= twinPairs || w.Inst < 0 || w.Inst >= twinInstances {
		return fmt.Errorf("bad twin reference")
	}
	return nil
}

func twinTypeOf(w *TwinRef) reflect.Type {
	m := 0
	if w.Secret {
		m = 1
	}
	return twinFamilies[w.Inst][w.Pair][m]
}

// genTwinTop draws a request / response type that holds a twin value: the twin type itself, or a generated struct
// with the twin value in a field, behind a pointer, in a slice / map, or in an interface (by value or by pointer).
func genTwinTop(t *rapid.T) Shape {
	w := &TwinRef{}
	w.Pair = rapid.IntRange(0, twinPairs-1).Draw(t, "twinpair")
	w.Inst = rapid.IntRange(0, twinInstances-1).Draw(t, "twininst")
	// mostly the order "benign first, secret second" (a stale 'not secure' is the leak); the reverse order can only be
	// judged for the pairs whose benign field carries no tag at all
	w.Secret = rapid.IntRange(0, 3).Draw(t, "twinsecret") > 0
	tw := Shape{K: kTwin, W: w}
	wrap := rapid.SampledFrom([]string{"", "", kStruct, kPtr, kSlice, kMap, kIface, kIface + kPtr}).Draw(t, "twinwrap")
	if wrap == "" {
		return tw
	}
	var ft Shape
	switch wrap {
	case kStruct:
		ft = tw
	case kPtr:
		ft = Shape{K: kPtr, E: &tw}
	case kSlice, kMap:
		ft = Shape{K: wrap, E: &tw, N: rapid.IntRange(1, 2).Draw(t, "twinn")}
	case kIface:
		ft = Shape{K: kIface, E: &tw}
	default:
		ft = Shape{K: kIface, E: &Shape{K: kPtr, E: &tw}}
	}
	s := Shape{K: kStruct}
	if rapid.Bool().Draw(t, "twinlead") {
		s.F = append(s.F, Field{T: Shape{K: kString}})
	}
	s.F = append(s.F, Field{I: rapid.IntRange(0, 4).Draw(t, "twinignore") == 0, T: ft})
	return s
}

// twinRefs lists the twin nodes of a shape.
func twinRefs(s *Shape, out []*TwinRef) []*TwinRef {
	if s == nil {
		return out
	}
	if s.K == kTwin {
		return append(out, s.W)
	}
	for i := range s.F {
		out = twinRefs(&s.F[i].T, out)
	}
	return twinRefs(s.E, out)
}

// twinPrimerCase returns the primer of a carrier that holds twin values: a Completed plan with one sequence action
// whose request has the same shape, with every twin node replaced by the OTHER member of its pair.
func twinPrimerCase(c *Carrier) *LeakCase {
	var cp Carrier
	b, err := json.Marshal(c)
	if err != nil {
		panic("pc17: carrier does not encode: " + err.Error())
	}
	if err := json.Unmarshal(b, &cp); err != nil {
		panic("pc17: carrier does not decode: " + err.Error())
	}
	for _, w := range twinRefs(&cp.T, nil) {
		w.Secret = !w.Secret
	}
	cp.Slot, cp.Resp, cp.FailedBefore, cp.Status = slotSeq, false, 0, 0
	return &LeakCase{State: stCompleted, Carriers: []Carrier{cp}}
}

// staticValue builds a value of a statically declared struct type (twin types): every leaf a canary, pointers
// allocated, slices with two elements, maps with one ("k0"); the `coerce` tags are read from the type. p.kinds already
// ends with the kind of this struct.
func (b *valueBuilder) staticValue(typ reflect.Type, p pathInfo) reflect.Value {
	out := reflect.New(typ).Elem()
	for i := 0; i < typ.NumField(); i++ {
		sf := typ.Field(i)
		k := kindName(sf.Type)
		q := p.push(k)
		switch sf.Tag.Get("coerce") {
		case "secure":
			if !q.secret {
				q.secret = true
				q.frozenPath, q.frozenDepth, q.frozenBehind = joinKinds(q.kinds), len(q.kinds)-1, behind(q.kinds)
			}
		case "ignore":
			if !q.secret {
				q.ignoreAbove = append(append([]string(nil), q.ignoreAbove...), k)
			}
		}
		out.Field(i).Set(b.staticAny(sf.Type, q))
	}
	return out
}

// staticAny builds a value of t; p.kinds already ends with kindName(t).
func (b *valueBuilder) staticAny(t reflect.Type, p pathInfo) reflect.Value {
	switch kindName(t) {
	case kString:
		return reflect.ValueOf(b.plant('s', p).str())
	case kInt:
		return reflect.ValueOf(b.plant('i', p).int())
	case kBytes:
		return reflect.ValueOf(b.plant('b', p).bytes())
	case kStruct:
		return b.staticValue(t, p)
	case kPtr:
		ptr := reflect.New(t.Elem())
		ptr.Elem().Set(b.staticAny(t.Elem(), p.push(kindName(t.Elem()))))
		return ptr
	case kSlice:
		sl := reflect.MakeSlice(t, 2, 2)
		for i := 0; i < 2; i++ {
			sl.Index(i).Set(b.staticAny(t.Elem(), p.push(kindName(t.Elem()))))
		}
		return sl
	case kMap:
		m := reflect.MakeMapWithSize(t, 1)
		m.SetMapIndex(reflect.ValueOf("k0"), b.staticAny(t.Elem(), p.push(kindName(t.Elem()))))
		return m
	}
	panic("pc17: unexpected field type " + t.String() + " in a twin type")
}
