package pc18

// Deterministic construction of the workflow objects (and of the execution state) from the plain case data.
// Nothing here runs the engine: the states are synthesised the way a plan read back from storage looks
// (ids on every object, State on every object, attempts on executed actions, no register on actions).

import (
	"encoding/binary"
	"fmt"
	"time"

	"github.com/element-of-surprise/coercion/plugins"
	"github.com/element-of-surprise/coercion/workflow"
	"github.com/google/uuid"
)

func cloneBytes(b []byte) []byte {
	if b == nil {
		return nil
	}
	out := make([]byte, len(b))
	copy(out, b)
	return out
}

func cloneMap(m map[string]string) map[string]string {
	if m == nil {
		return nil
	}
	out := make(map[string]string, len(m))
	for k, v := range m {
		out[k] = v
	}
	return out
}

func buildSub(d SubData) Sub {
	s := Sub{Label: d.Label, Count: d.Count, Blob: cloneBytes(d.Blob), Tags: cloneMap(d.Tags), Pin: d.Pin}
	if d.WhenSec != 0 {
		s.When = time.Unix(d.WhenSec, 0).UTC()
	}
	return s
}

// extraTime is the (never zero) time that the Extra kinds 6-8 hold behind an interface.
func extraTime(sd SubData) time.Time {
	return time.Unix(1_700_000_000+sd.WhenSec%1_000_000, 0).UTC()
}

func buildReqStruct(d ReqData) Req {
	r := Req{
		Text: d.Text, Num: d.Num, Flag: d.Flag, Raw: cloneBytes(d.Raw),
		Inner: buildSub(d.Inner), Attrs: cloneMap(d.Attrs),
		Hidden: d.Hidden, HiddenRaw: cloneBytes(d.HiddenRaw),
	}
	if d.Ref != nil {
		s := buildSub(*d.Ref)
		r.Ref = &s
	}
	if d.Stamps != nil {
		r.Stamps = make([]time.Time, 0, len(d.Stamps))
		for _, sec := range d.Stamps {
			r.Stamps = append(r.Stamps, time.Unix(sec, 0).UTC())
		}
	}
	if d.Subs != nil {
		r.Subs = make(map[string]Sub, len(d.Subs))
		for k, sd := range d.Subs {
			r.Subs[k] = buildSub(sd)
		}
	}
	if d.Opt != nil {
		o := append([]string{}, (*d.Opt)...)
		r.Opt = &o
	}
	if d.OptAttrs != nil {
		m := cloneMap(*d.OptAttrs)
		if m == nil {
			m = map[string]string{}
		}
		r.OptAttrs = &m
	}
	switch d.Extra {
	case 1:
		r.Extra = buildSub(d.ExtraSub)
	case 2:
		v := buildSub(d.ExtraSub)
		r.Extra = &v
	case 3:
		v := buildSub(d.ExtraSub)
		r.Extra = []any{buildSub(d.ExtraSub), &v, d.ExtraSub.Label, d.ExtraSub.Count}
	case 4:
		r.Extra = map[string]any{"s": buildSub(d.ExtraSub), "n": d.ExtraSub.Count, "l": []string{d.ExtraSub.Label}}
	case 5:
		r.Extra = []Sub{buildSub(d.ExtraSub), buildSub(d.ExtraSub)}
	case 6: // a time held directly behind the interface
		r.Extra = extraTime(d.ExtraSub)
	case 7: // times as elements of a []any
		r.Extra = []any{extraTime(d.ExtraSub), d.ExtraSub.Label, extraTime(d.ExtraSub).Add(time.Hour)}
	case 8: // a time as a value of a map[string]any
		r.Extra = map[string]any{"notBefore": extraTime(d.ExtraSub), "n": d.ExtraSub.Count}
	}
	if d.Marks != nil {
		r.Marks = make(map[string]time.Time, len(d.Marks))
		for k, sec := range d.Marks {
			r.Marks[k] = time.Unix(sec, 0).UTC()
		}
	}
	if d.List != nil {
		r.List = make([]Sub, 0, len(d.List))
		for _, s := range d.List {
			r.List = append(r.List, buildSub(s))
		}
	}
	if d.Refs != nil {
		r.Refs = make([]*Sub, 0, len(d.Refs))
		for _, s := range d.Refs {
			v := buildSub(s)
			r.Refs = append(r.Refs, &v)
		}
	}
	return r
}

func buildMid(n NestData) Mid {
	m := Mid{Title: n.Title, Rank: n.Rank, Leaf: Leaf{Notes: cloneMap(n.Notes), Pin: n.Pin}}
	if n.Items != nil {
		m.Leaf.Items = append([]string{}, n.Items...)
	}
	if n.Ptr != nil {
		s := buildSub(*n.Ptr)
		m.Leaf.Ptr = &s
	}
	if n.Subs != nil {
		m.Leaf.Subs = make([]Sub, 0, len(n.Subs))
		for _, s := range n.Subs {
			m.Leaf.Subs = append(m.Leaf.Subs, buildSub(s))
		}
	}
	return m
}

func buildN1(d ReqData) N1Req { return N1Req{Text: d.Text, Num: d.Num, Inner: buildSub(d.Inner)} }
func buildN2(d ReqData) N2Req { return N2Req{Text: d.Text, Num: d.Num, Mid: buildMid(d.Nest)} }
func buildN3(d ReqData) N3Req {
	return N3Req{Text: d.Text, Num: d.Num, Pair: [2]Sub{buildSub(d.Nest.Pair[0]), buildSub(d.Nest.Pair[1])}}
}

// buildReq returns the request value of the kind (see the req* constants), nil for reqNil.
func buildReq(d ReqData) any {
	switch d.Kind {
	case reqValue:
		return buildReqStruct(d)
	case reqPointer:
		r := buildReqStruct(d)
		return &r
	case reqN1Value:
		return buildN1(d)
	case reqN1Ptr:
		r := buildN1(d)
		return &r
	case reqN2Value:
		return buildN2(d)
	case reqN2Ptr:
		r := buildN2(d)
		return &r
	case reqN3Value:
		return buildN3(d)
	case reqN3Ptr:
		r := buildN3(d)
		return &r
	}
	return nil
}

// buildResp returns the response value of the kind, nil for reqNil.
func buildResp(d ReqData) any {
	switch d.Kind {
	case reqValue:
		return Resp(buildReqStruct(d))
	case reqPointer:
		r := Resp(buildReqStruct(d))
		return &r
	case reqN1Value:
		return N1Resp(buildN1(d))
	case reqN1Ptr:
		r := N1Resp(buildN1(d))
		return &r
	case reqN2Value:
		return N2Resp(buildN2(d))
	case reqN2Ptr:
		r := N2Resp(buildN2(d))
		return &r
	case reqN3Value:
		return N3Resp(buildN3(d))
	case reqN3Ptr:
		r := N3Resp(buildN3(d))
		return &r
	}
	return nil
}

func buildErr(chain []ErrData) *plugins.Error {
	var head *plugins.Error
	for i := len(chain) - 1; i >= 0; i-- {
		head = &plugins.Error{Code: plugins.ErrCode(chain[i].Code), Message: chain[i].Msg, Permanent: chain[i].Perm, Wrapped: head}
	}
	return head
}

func ms(n int64) time.Duration { return time.Duration(n) * time.Millisecond }

func buildAction(d ActionData, check bool) *workflow.Action {
	return &workflow.Action{
		Name:    d.Name,
		Descr:   d.Descr,
		Plugin:  pluginName(check, d.Req.Kind),
		Timeout: ms(d.TimeoutMs),
		Retries: d.Retries,
		Req:     buildReq(d.Req),
	}
}

func buildChecks(d *ChecksData) *workflow.Checks {
	if d == nil {
		return nil
	}
	c := &workflow.Checks{Delay: ms(d.DelayMs)}
	for _, a := range d.Actions {
		c.Actions = append(c.Actions, buildAction(a, true))
	}
	return c
}

// groupsOfPlan / groupsOfBlock give the five check-group slots in the fixed order bypass, pre, cont, post, deferred.
func groupsOfPlan(p *workflow.Plan) [5]**workflow.Checks {
	return [5]**workflow.Checks{&p.BypassChecks, &p.PreChecks, &p.ContChecks, &p.PostChecks, &p.DeferredChecks}
}

func groupsOfBlock(b *workflow.Block) [5]**workflow.Checks {
	return [5]**workflow.Checks{&b.BypassChecks, &b.PreChecks, &b.ContChecks, &b.PostChecks, &b.DeferredChecks}
}

var groupNames = [5]string{"BypassChecks", "PreChecks", "ContChecks", "PostChecks", "DeferredChecks"}

// execution order of the group slots around the body (blocks / sequences): bypass, pre, cont, BODY, post, deferred
const (
	gBypass = 0
	gPre    = 1
	gCont   = 2
	gPost   = 3
	gDefer  = 4
)

// buildFresh builds the plan exactly as a user would: definition only.
func buildFresh(pd PlanData) *workflow.Plan {
	p := &workflow.Plan{Name: pd.Name, Descr: pd.Descr, Meta: cloneBytes(pd.Meta)}
	if pd.Group != 0 {
		p.GroupID = mkID(0, uint32(pd.Group), 0xfff)
	}
	for g, slot := range groupsOfPlan(p) {
		*slot = buildChecks(pd.Groups[g])
	}
	for _, bd := range pd.Blocks {
		b := &workflow.Block{
			Name: bd.Name, Descr: bd.Descr,
			EntranceDelay: ms(bd.EntranceDelayMs), ExitDelay: ms(bd.ExitDelayMs),
			Concurrency: bd.Concurrency, ToleratedFailures: bd.Tolerated,
		}
		for g, slot := range groupsOfBlock(b) {
			*slot = buildChecks(bd.Groups[g])
		}
		for _, sd := range bd.Seqs {
			s := &workflow.Sequence{Name: sd.Name, Descr: sd.Descr}
			for _, ad := range sd.Actions {
				s.Actions = append(s.Actions, buildAction(ad, false))
			}
			b.Sequences = append(b.Sequences, s)
		}
		p.Blocks = append(p.Blocks, b)
	}
	return p
}

// mkID builds a deterministic, well-formed version-7 UUID: 48 bit millisecond timestamp, version nibble 7,
// 12 bit counter, variant 10, 32 bit seed, 30 bit counter again.
func mkID(unixMs int64, seed uint32, n uint32) uuid.UUID {
	var u uuid.UUID
	var ts [8]byte
	binary.BigEndian.PutUint64(ts[:], uint64(unixMs))
	copy(u[0:6], ts[2:8])
	u[6] = 0x70 | byte((n>>8)&0x0f)
	u[7] = byte(n)
	u[8] = 0x80 | byte((n>>24)&0x3f)
	u[9] = byte(n >> 16)
	binary.BigEndian.PutUint32(u[10:14], seed)
	u[14] = byte(n >> 8)
	u[15] = byte(n)
	return u
}

// leaf is an action in execution order with the objects above it.
type leaf struct {
	a *workflow.Action
	d ActionData
	// planSlot is the group slot at plan level (gBypass..gDefer) the action belongs to, or -1 when it is inside a block.
	planSlot int
	bypass   bool // inside a bypass group (plan or block level)
}

type stateBuilder struct {
	st   StateData
	n    uint32
	tick int64
}

func (sb *stateBuilder) at(tick int64) time.Time {
	t := time.Unix(sb.st.T0Sec, sb.st.T0Nano).Add(time.Duration(tick) * ms(sb.st.StepMs))
	if sb.st.UTC {
		return t.UTC()
	}
	return t
}

func (sb *stateBuilder) id() uuid.UUID {
	sb.n++
	return mkID(sb.st.T0Sec*1000, sb.st.Seed, sb.n)
}

// build builds the plan of the case in its execution state. It is a pure function of the case data: two calls give
// deep-equal plans that share no memory (this is what the "snapshot by rebuilding" of the oracle relies on).
func build(c Case) *workflow.Plan {
	p := buildFresh(c.Plan)
	if c.State.Class == stFresh {
		return p
	}
	sb := &stateBuilder{st: c.State}

	// 1. what Submit does: ids and NotStarted states on every object, defaults, submit time
	var leaves []leaf
	newState := func() *workflow.State { return &workflow.State{Status: workflow.NotStarted} }
	p.ID = sb.id()
	p.State = newState()
	p.SubmitTime = sb.at(0)
	addChecks := func(cd *ChecksData, ch *workflow.Checks, planSlot int, bypass bool) {
		if ch == nil {
			return
		}
		ch.ID = sb.id()
		ch.State = newState()
		for i, a := range ch.Actions {
			submitDefaults(a, sb)
			leaves = append(leaves, leaf{a: a, d: cd.Actions[i], planSlot: planSlot, bypass: bypass})
		}
	}
	pg := groupsOfPlan(p)
	for _, g := range []int{gBypass, gPre, gCont} {
		addChecks(c.Plan.Groups[g], *pg[g], g, g == gBypass)
	}
	for bi, b := range p.Blocks {
		bd := c.Plan.Blocks[bi]
		b.ID = sb.id()
		b.State = newState()
		if b.Concurrency < 1 {
			b.Concurrency = 1 // Block.Defaults
		}
		bg := groupsOfBlock(b)
		for _, g := range []int{gBypass, gPre, gCont} {
			addChecks(bd.Groups[g], *bg[g], -1, g == gBypass)
		}
		for si, s := range b.Sequences {
			s.ID = sb.id()
			s.State = newState()
			for ai, a := range s.Actions {
				submitDefaults(a, sb)
				leaves = append(leaves, leaf{a: a, d: bd.Seqs[si].Actions[ai], planSlot: -1})
			}
		}
		for _, g := range []int{gPost, gDefer} {
			addChecks(bd.Groups[g], *bg[g], -1, false)
		}
	}
	for _, g := range []int{gPost, gDefer} {
		addChecks(c.Plan.Groups[g], *pg[g], g, false)
	}
	if c.State.Class == stSubmitted {
		return p
	}

	// 2. execution: a prefix of the actions (in execution order) has completed, then one is Running / Failed
	cut := len(leaves) // completed: everything ran
	switch c.State.Class {
	case stRunning:
		cut = c.State.Cut % (len(leaves) + 1)
	case stFailed:
		// a failing bypass check does not fail anything: pick the failing action among the others
		var cand []int
		for i, l := range leaves {
			if !l.bypass {
				cand = append(cand, i)
			}
		}
		cut = cand[c.State.Cut%len(cand)]
	}
	sb.tick = 1
	p.State.Status = workflow.Running
	p.State.Start = sb.at(sb.tick)
	for i, l := range leaves {
		switch {
		case i < cut:
			sb.execute(l, workflow.Completed)
		case i == cut && c.State.Class == stRunning:
			sb.execute(l, workflow.Running)
		case i == cut && c.State.Class == stFailed:
			sb.execute(l, workflow.Failed)
		}
	}
	// 3. containers follow their actions
	settle := func(own *workflow.State, acts []*workflow.Action) {
		started, completed, failed := 0, 0, 0
		var first, last time.Time
		for _, a := range acts {
			st := a.State
			if st.Status == workflow.NotStarted {
				continue
			}
			started++
			if first.IsZero() || st.Start.Before(first) {
				first = st.Start
			}
			if st.End.After(last) {
				last = st.End
			}
			switch st.Status {
			case workflow.Completed:
				completed++
			case workflow.Failed:
				failed++
			}
		}
		switch {
		case started == 0:
			return
		case failed > 0:
			own.Status, own.Start, own.End = workflow.Failed, first, last
		case completed == len(acts):
			own.Status, own.Start, own.End = workflow.Completed, first, last
		default:
			own.Status, own.Start = workflow.Running, first
		}
	}
	var allActs []*workflow.Action
	settleChecks := func(ch *workflow.Checks) []*workflow.Action {
		if ch == nil {
			return nil
		}
		settle(ch.State, ch.Actions)
		return ch.Actions
	}
	for _, slot := range pg {
		allActs = append(allActs, settleChecks(*slot)...)
	}
	for _, b := range p.Blocks {
		var blockActs []*workflow.Action
		for _, slot := range groupsOfBlock(b) {
			blockActs = append(blockActs, settleChecks(*slot)...)
		}
		for _, s := range b.Sequences {
			settle(s.State, s.Actions)
			blockActs = append(blockActs, s.Actions...)
		}
		settle(b.State, blockActs)
		allActs = append(allActs, blockActs...)
	}
	switch c.State.Class {
	case stCompleted:
		settle(p.State, allActs)
	case stFailed:
		settle(p.State, allActs)
		l := leaves[cut]
		switch l.planSlot {
		case gPre:
			p.Reason = workflow.FRPreCheck
		case gCont:
			p.Reason = workflow.FRContCheck
		case gPost:
			p.Reason = workflow.FRPostCheck
		case gDefer:
			p.Reason = workflow.FRDeferredCheck
		default:
			p.Reason = workflow.FRBlock
		}
	}
	return p
}

// submitDefaults gives an action what Submit gives it: id, NotStarted state, timeout default, retries floor.
func submitDefaults(a *workflow.Action, sb *stateBuilder) {
	a.ID = sb.id()
	a.State = &workflow.State{Status: workflow.NotStarted}
	if a.Timeout == 0 {
		a.Timeout = 30 * time.Second // Action.validate
	}
	if a.Retries < 0 {
		a.Retries = 0 // Action.validate
	}
}

// execute puts the action in the given status with its attempts: the failed attempts of the case data, then (Completed)
// one successful attempt carrying the response, or (Failed) at least one failed attempt.
func (sb *stateBuilder) execute(l leaf, status workflow.Status) {
	a := l.a
	a.State.Status = status
	a.State.Start = sb.at(sb.tick)
	fails := l.d.Fails
	if status == workflow.Failed && len(fails) == 0 {
		fails = [][]ErrData{{{Code: 1, Msg: "failed: " + l.d.Name, Perm: true}}}
	}
	for _, chain := range fails {
		sb.tick++
		att := &workflow.Attempt{Err: buildErr(chain), Start: sb.at(sb.tick)}
		if l.d.FailResp {
			att.Resp = buildResp(l.d.Resp)
		}
		sb.tick++
		att.End = sb.at(sb.tick)
		a.Attempts = append(a.Attempts, att)
	}
	if status == workflow.Completed {
		sb.tick++
		att := &workflow.Attempt{Resp: buildResp(l.d.Resp), Start: sb.at(sb.tick)}
		sb.tick++
		att.End = sb.at(sb.tick)
		a.Attempts = append(a.Attempts, att)
	}
	if n := len(a.Attempts) - 1; n > a.Retries {
		a.Retries = n // the engine never makes more than Retries+1 attempts
	}
	sb.tick++
	if status != workflow.Running {
		a.State.End = sb.at(sb.tick)
	}
	sb.tick++
}

// resolve finds the target object in a built plan. ok is false when the target does not exist (hand-edited case).
func resolve(p *workflow.Plan, tg TargetData) (obj any, path string, ok bool) {
	defer func() {
		if r := recover(); r != nil {
			obj, ok = nil, false
		}
	}()
	checksAt := func() (*workflow.Checks, string) {
		if tg.Block < 0 {
			return *groupsOfPlan(p)[tg.Group], "Plan." + groupNames[tg.Group]
		}
		return *groupsOfBlock(p.Blocks[tg.Block])[tg.Group], fmt.Sprintf("Plan.Blocks[%d].%s", tg.Block, groupNames[tg.Group])
	}
	switch tg.Kind {
	case tgPlan:
		return p, "Plan", true
	case tgBlock:
		return p.Blocks[tg.Block], fmt.Sprintf("Plan.Blocks[%d]", tg.Block), true
	case tgSequence:
		return p.Blocks[tg.Block].Sequences[tg.Seq], fmt.Sprintf("Plan.Blocks[%d].Sequences[%d]", tg.Block, tg.Seq), true
	case tgChecks:
		ch, pa := checksAt()
		if ch == nil {
			return nil, "", false
		}
		return ch, pa, true
	case tgAction:
		if tg.Group >= 0 {
			ch, pa := checksAt()
			if ch == nil {
				return nil, "", false
			}
			return ch.Actions[tg.Action], fmt.Sprintf("%s.Actions[%d]", pa, tg.Action), true
		}
		return p.Blocks[tg.Block].Sequences[tg.Seq].Actions[tg.Action],
			fmt.Sprintf("Plan.Blocks[%d].Sequences[%d].Actions[%d]", tg.Block, tg.Seq, tg.Action), true
	}
	return nil, "", false
}
