package pc18

// C18 — Clones are deep, definition-preserving and resubmittable.
//
// Statement (fixed): "Cloning a plan, block, sequence, checks group or action yields a copy that shares no mutable
// memory with the original and preserves the whole definition (names, descriptions, plugin, request, timeout, retries,
// delays, concurrency, tolerance, group, meta, order). By default all engine-owned state is stripped, so the clone of
// any plan, even one that has already run, is accepted by Submit; with state retention the ids, statuses, times, reason
// and attempts are all preserved instead."
//
// Rules (each quotes the clause it implements):
//   C18/panic, C18/nil-clone   "yields a copy"
//   C18/def:<type>.<field>     "preserves the whole definition (names, descriptions, plugin, request, timeout, retries,
//                               delays, concurrency, tolerance, group, meta, order)"
//   C18/alias:<class>          "shares no mutable memory with the original" (address sets of everything reachable)
//   C18/mutate:<direction>     "shares no mutable memory with the original" (write through one, observe the other)
//   C18/original-changed       "yields a copy" / "shares no mutable memory" (the call itself wrote into the original)
//   C18/strip:<type>.<field>   "By default all engine-owned state is stripped"
//   C18/submit                 "so the clone of any plan, even one that has already run, is accepted by Submit"
//   C18/keep:<type>.<field>    "with state retention the ids, statuses, times, reason and attempts are all preserved"
//
// Deliberately NOT asserted: anything about Key (not in the statement's list), State.ETag ("for storage
// implementations", not in the statement), nil-versus-empty of Meta and of slices/maps inside requests (weaker reading
// of "preserves"), the value of secure-tagged fields when secrets are not kept (documented behaviour of the option),
// the State of a keep-state clone whose original has no State (nothing to preserve), WithRemoveCompletedSequences.

import (
	"bytes"
	"fmt"
	"reflect"
	"testing"

	"github.com/element-of-surprise/coercion"
	"github.com/element-of-surprise/coercion/plugins"
	"github.com/element-of-surprise/coercion/workflow"
	"github.com/element-of-surprise/coercion/workflow/storage/sqlite"
	"github.com/element-of-surprise/coercion/workflow/utils/clone"
	"github.com/google/uuid"
	"github.com/gostdlib/base/context"
	"pgregory.net/rapid"

	"verifharness/vprop"
)

// doClone clones the target object of plan p with the options of the case. A panic is returned as perr.
func doClone(c Case, p *workflow.Plan) (orig, cl any, path string, ok bool, perr any) {
	orig, path, ok = resolve(p, c.Target)
	if !ok {
		return nil, nil, "", false, nil
	}
	var opts []clone.Option
	if c.KeepState {
		opts = append(opts, clone.WithKeepState())
	}
	if c.KeepSecrets {
		opts = append(opts, clone.WithKeepSecrets())
	}
	defer func() {
		if r := recover(); r != nil {
			perr = r
		}
	}()
	ctx := context.Background()
	switch o := orig.(type) {
	case *workflow.Plan:
		cl = clone.Plan(ctx, o, opts...)
	case *workflow.Block:
		cl = clone.Block(ctx, o, opts...)
	case *workflow.Sequence:
		cl = clone.Sequence(ctx, o, opts...)
	case *workflow.Checks:
		cl = clone.Checks(ctx, o, opts...)
	case *workflow.Action:
		cl = clone.Action(ctx, o, opts...)
	}
	return orig, cl, path, true, nil
}

// judge compares an original subtree with its clone.
type judge struct {
	res         *vprop.Result
	keepState   bool
	keepSecrets bool
}

func (j *judge) fail(rule, format string, a ...any) { j.res.Fail(rule, format, a...) }

// reqOpts: requests/responses are compared structurally; secure-tagged fields are ignored unless secrets are kept
// (WithKeepSecrets: "By default they are wiped when cloning"); nil ≡ empty (weaker reading of "preserves").
func (j *judge) reqOpts() diffOpts {
	return diffOpts{skipSecure: !j.keepSecrets, nilIsEmpty: true}
}

// state implements the clauses about one object's engine-owned id and State.
func (j *judge) state(typ, path string, oid, nid uuid.UUID, os, ns *workflow.State) {
	if !j.keepState {
		// "By default all engine-owned state is stripped"
		if nid != uuid.Nil {
			j.fail("C18/strip:"+typ+".ID", "%s: default clone has ID %s (original %s), want uuid.Nil", path, nid, oid)
		}
		if ns != nil {
			j.fail("C18/strip:"+typ+".State", "%s: default clone has State %+v, want nil", path, *ns)
		}
		return
	}
	// "with state retention the ids, statuses, times ... are all preserved"
	if nid != oid {
		j.fail("C18/keep:"+typ+".ID", "%s: keep-state clone has ID %s, original %s", path, nid, oid)
	}
	if os == nil {
		return // nothing to preserve; the statement says nothing about the clone's State here
	}
	if ns == nil {
		j.fail("C18/keep:"+typ+".State", "%s: keep-state clone has nil State, original %+v", path, *os)
		return
	}
	if ns.Status != os.Status {
		j.fail("C18/keep:"+typ+".State.Status", "%s: status %v, original %v", path, ns.Status, os.Status)
	}
	if !ns.Start.Equal(os.Start) {
		j.fail("C18/keep:"+typ+".State.Start", "%s: start %v, original %v", path, ns.Start, os.Start)
	}
	if !ns.End.Equal(os.End) {
		j.fail("C18/keep:"+typ+".State.End", "%s: end %v, original %v", path, ns.End, os.End)
	}
}

func (j *judge) plan(path string, o, n *workflow.Plan) {
	// definition: "names, descriptions, ... group, meta, order"
	if n.Name != o.Name {
		j.fail("C18/def:plan.Name", "%s: Name %q, original %q", path, n.Name, o.Name)
	}
	if n.Descr != o.Descr {
		j.fail("C18/def:plan.Descr", "%s: Descr %q, original %q", path, n.Descr, o.Descr)
	}
	if n.GroupID != o.GroupID {
		j.fail("C18/def:plan.GroupID", "%s: GroupID %s, original %s", path, n.GroupID, o.GroupID)
	}
	if !bytes.Equal(n.Meta, o.Meta) { // nil ≡ empty
		j.fail("C18/def:plan.Meta", "%s: Meta %q, original %q", path, n.Meta, o.Meta)
	}
	j.state("plan", path, o.ID, n.ID, o.State, n.State)
	if !j.keepState {
		// "By default all engine-owned state is stripped"
		if n.Reason != workflow.FRUnknown {
			j.fail("C18/strip:plan.Reason", "%s: default clone has Reason %v", path, n.Reason)
		}
		if !n.SubmitTime.IsZero() {
			j.fail("C18/strip:plan.SubmitTime", "%s: default clone has SubmitTime %v", path, n.SubmitTime)
		}
	} else {
		// "with state retention the ... times, reason ... are all preserved"
		if n.Reason != o.Reason {
			j.fail("C18/keep:plan.Reason", "%s: Reason %v, original %v", path, n.Reason, o.Reason)
		}
		if !n.SubmitTime.Equal(o.SubmitTime) {
			j.fail("C18/keep:plan.SubmitTime", "%s: SubmitTime %v, original %v", path, n.SubmitTime, o.SubmitTime)
		}
	}
	og, ng := groupsOfPlan(o), groupsOfPlan(n)
	for g := range og {
		j.checks("plan", path+"."+groupNames[g], *og[g], *ng[g])
	}
	if len(n.Blocks) != len(o.Blocks) {
		j.fail("C18/def:plan.Blocks", "%s: %d blocks, original %d", path, len(n.Blocks), len(o.Blocks))
		return
	}
	for i := range o.Blocks {
		bp := fmt.Sprintf("%s.Blocks[%d]", path, i)
		if n.Blocks[i] == nil {
			j.fail("C18/def:plan.Blocks", "%s: nil in the clone", bp)
			continue
		}
		j.block(bp, o.Blocks[i], n.Blocks[i])
	}
}

// checks compares a check-group slot; owner is "plan" or "block" (or "" for a directly cloned group).
func (j *judge) checks(owner, path string, o, n *workflow.Checks) {
	if (o == nil) != (n == nil) {
		j.fail("C18/def:"+owner+".checks-presence", "%s: present in original: %v, in clone: %v", path, o != nil, n != nil)
		return
	}
	if o == nil {
		return
	}
	if n.Delay != o.Delay { // "delays"
		j.fail("C18/def:checks.Delay", "%s: Delay %v, original %v", path, n.Delay, o.Delay)
	}
	j.state("checks", path, o.ID, n.ID, o.State, n.State)
	j.actions("checks", path, o.Actions, n.Actions)
}

func (j *judge) block(path string, o, n *workflow.Block) {
	if n.Name != o.Name {
		j.fail("C18/def:block.Name", "%s: Name %q, original %q", path, n.Name, o.Name)
	}
	if n.Descr != o.Descr {
		j.fail("C18/def:block.Descr", "%s: Descr %q, original %q", path, n.Descr, o.Descr)
	}
	if n.EntranceDelay != o.EntranceDelay { // "delays"
		j.fail("C18/def:block.EntranceDelay", "%s: EntranceDelay %v, original %v", path, n.EntranceDelay, o.EntranceDelay)
	}
	if n.ExitDelay != o.ExitDelay {
		j.fail("C18/def:block.ExitDelay", "%s: ExitDelay %v, original %v", path, n.ExitDelay, o.ExitDelay)
	}
	if n.Concurrency != o.Concurrency { // "concurrency"
		j.fail("C18/def:block.Concurrency", "%s: Concurrency %d, original %d", path, n.Concurrency, o.Concurrency)
	}
	if n.ToleratedFailures != o.ToleratedFailures { // "tolerance"
		j.fail("C18/def:block.ToleratedFailures", "%s: ToleratedFailures %d, original %d", path, n.ToleratedFailures, o.ToleratedFailures)
	}
	j.state("block", path, o.ID, n.ID, o.State, n.State)
	og, ng := groupsOfBlock(o), groupsOfBlock(n)
	for g := range og {
		j.checks("block", path+"."+groupNames[g], *og[g], *ng[g])
	}
	if len(n.Sequences) != len(o.Sequences) { // "order"
		j.fail("C18/def:block.Sequences", "%s: %d sequences, original %d", path, len(n.Sequences), len(o.Sequences))
		return
	}
	for i := range o.Sequences {
		sp := fmt.Sprintf("%s.Sequences[%d]", path, i)
		if n.Sequences[i] == nil {
			j.fail("C18/def:block.Sequences", "%s: nil in the clone", sp)
			continue
		}
		j.sequence(sp, o.Sequences[i], n.Sequences[i])
	}
}

func (j *judge) sequence(path string, o, n *workflow.Sequence) {
	if n.Name != o.Name {
		j.fail("C18/def:sequence.Name", "%s: Name %q, original %q", path, n.Name, o.Name)
	}
	if n.Descr != o.Descr {
		j.fail("C18/def:sequence.Descr", "%s: Descr %q, original %q", path, n.Descr, o.Descr)
	}
	j.state("sequence", path, o.ID, n.ID, o.State, n.State)
	j.actions("sequence", path, o.Actions, n.Actions)
}

func (j *judge) actions(owner, path string, o, n []*workflow.Action) {
	if len(n) != len(o) { // "order"
		j.fail("C18/def:"+owner+".Actions", "%s: %d actions, original %d", path, len(n), len(o))
		return
	}
	for i := range o {
		ap := fmt.Sprintf("%s.Actions[%d]", path, i)
		if n[i] == nil {
			j.fail("C18/def:"+owner+".Actions", "%s: nil in the clone", ap)
			continue
		}
		j.action(ap, o[i], n[i])
	}
}

func (j *judge) action(path string, o, n *workflow.Action) {
	if n.Name != o.Name {
		j.fail("C18/def:action.Name", "%s: Name %q, original %q", path, n.Name, o.Name)
	}
	if n.Descr != o.Descr {
		j.fail("C18/def:action.Descr", "%s: Descr %q, original %q", path, n.Descr, o.Descr)
	}
	if n.Plugin != o.Plugin { // "plugin"
		j.fail("C18/def:action.Plugin", "%s: Plugin %q, original %q", path, n.Plugin, o.Plugin)
	}
	if n.Timeout != o.Timeout { // "timeout"
		j.fail("C18/def:action.Timeout", "%s: Timeout %v, original %v", path, n.Timeout, o.Timeout)
	}
	if n.Retries != o.Retries { // "retries"
		j.fail("C18/def:action.Retries", "%s: Retries %d, original %d", path, n.Retries, o.Retries)
	}
	if d := diffAny(o.Req, n.Req, path+".Req", j.reqOpts()); d != "" { // "request"
		j.fail("C18/def:action.Req", "request differs (original vs clone) at %s", d)
	}
	j.state("action", path, o.ID, n.ID, o.State, n.State)
	if !j.keepState {
		// "By default all engine-owned state is stripped"
		if n.Attempts != nil {
			j.fail("C18/strip:action.Attempts", "%s: default clone has %d attempts (non-nil slice), want nil", path, len(n.Attempts))
		}
		return
	}
	// "with state retention the ... attempts are all preserved"
	if len(n.Attempts) != len(o.Attempts) {
		j.fail("C18/keep:action.Attempts", "%s: %d attempts, original %d", path, len(n.Attempts), len(o.Attempts))
		return
	}
	for i := range o.Attempts {
		tp := fmt.Sprintf("%s.Attempts[%d]", path, i)
		oa, na := o.Attempts[i], n.Attempts[i]
		if na == nil {
			j.fail("C18/keep:action.Attempts", "%s: nil in the clone", tp)
			continue
		}
		if d := diffAny(oa.Resp, na.Resp, tp+".Resp", j.reqOpts()); d != "" {
			j.fail("C18/keep:attempt.Resp", "response differs (original vs clone) at %s", d)
		}
		if d := diffErr(oa.Err, na.Err); d != "" {
			j.fail("C18/keep:attempt.Err", "%s.Err: %s", tp, d)
		}
		if !na.Start.Equal(oa.Start) {
			j.fail("C18/keep:attempt.Start", "%s: Start %v, original %v", tp, na.Start, oa.Start)
		}
		if !na.End.Equal(oa.End) {
			j.fail("C18/keep:attempt.End", "%s: End %v, original %v", tp, na.End, oa.End)
		}
	}
}

// diffErr compares two plugin error chains link by link.
func diffErr(o, n *plugins.Error) string {
	for depth := 0; ; depth++ {
		if (o == nil) != (n == nil) {
			return fmt.Sprintf("chain length differs at depth %d (original has link: %v, clone has link: %v)", depth, o != nil, n != nil)
		}
		if o == nil {
			return ""
		}
		if o.Code != n.Code || o.Message != n.Message || o.Permanent != n.Permanent {
			return fmt.Sprintf("depth %d: clone {%d %q %v}, original {%d %q %v}", depth, n.Code, n.Message, n.Permanent, o.Code, o.Message, o.Permanent)
		}
		o, n = o.Wrapped, n.Wrapped
	}
}

func (j *judge) compare(path string, orig, cl any) {
	switch o := orig.(type) {
	case *workflow.Plan:
		j.plan(path, o, cl.(*workflow.Plan))
	case *workflow.Block:
		j.block(path, o, cl.(*workflow.Block))
	case *workflow.Sequence:
		j.sequence(path, o, cl.(*workflow.Sequence))
	case *workflow.Checks:
		j.checks("", path, o, cl.(*workflow.Checks))
	case *workflow.Action:
		j.action(path, o, cl.(*workflow.Action))
	}
}

func isNilPtr(x any) bool {
	if x == nil {
		return true
	}
	v := reflect.ValueOf(x)
	return v.Kind() == reflect.Ptr && v.IsNil()
}

// harnessBug aborts the test binary without a VERIF-FAIL line: the driver reports INCONCLUSIVE, never a violation.
func harnessBug(format string, a ...any) {
	panic("pc18 harness bug: " + fmt.Sprintf(format, a...))
}

// submit submits the plan on a fresh Workstream (fresh registry, fresh in-memory sqlite vault).
func submit(p *workflow.Plan) (submitErr error, setupErr error) {
	ctx := context.Background()
	reg := newRegistry()
	vault, err := sqlite.New(ctx, "", reg, sqlite.WithInMemory())
	if err != nil {
		return nil, fmt.Errorf("sqlite.New: %w", err)
	}
	defer vault.Close(ctx)
	// recovery of a brand-new empty vault has nothing to do; switched off to keep the shard logs small
	ws, err := coercion.New(ctx, reg, vault, coercion.WithNoRecovery())
	if err != nil {
		return nil, fmt.Errorf("coercion.New: %w", err)
	}
	_, err = ws.Submit(ctx, p)
	return err, nil
}

func checkClone(c Case) (res vprop.Result) {
	if c.Engine.Mode != engOff {
		return checkEngine(c) // the original goes through the real engine first (engine_test.go)
	}
	// ---- classification
	if c.State.Class < stFresh || c.State.Class > stFailed || len(c.Plan.Blocks) == 0 {
		res.Skip = true
		return res
	}
	res.Label("state:" + stateNames[c.State.Class])
	if c.Target.Kind >= 0 && c.Target.Kind < len(targetNames) {
		res.Label("target:" + targetNames[c.Target.Kind])
	}
	res.Label(fmt.Sprintf("opts:keepState=%v,keepSecrets=%v", c.KeepState, c.KeepSecrets))
	res.Label(fmt.Sprintf("blocks:%d", len(c.Plan.Blocks)))

	a := build(c)
	ref := build(c) // never touched: the snapshot of the original "by rebuilding the same case"
	if d := strictDiff(a, ref, "Plan"); d != "" || !reflect.DeepEqual(a, ref) {
		harnessBug("build is not deterministic: %s", d)
	}
	if s := overlap(spansOf(a, "A"), spansOf(ref, "B")); s != "" {
		harnessBug("two builds share memory: %s", s)
	}

	hasAttempts := false
	for _, l := range actionsOf(a) {
		if len(l.Attempts) > 0 {
			hasAttempts = true
			break
		}
	}
	if hasAttempts {
		res.Label("executed:has-attempts")
	}
	countRequests(actionsOf(a))
	// NT (DESIGN §5 C18): an executed plan (has attempts) or >= 2 blocks
	res.NonTrivial = hasAttempts || len(c.Plan.Blocks) >= 2
	// compact evidence sample (the full case is large; failing cases are saved in full in the replay file)
	res.Sample = map[string]any{
		"state": stateNames[c.State.Class], "keepState": c.KeepState, "keepSecrets": c.KeepSecrets,
		"target": c.Target, "blocks": len(c.Plan.Blocks), "actions": len(actionsOf(a)), "hasAttempts": hasAttempts,
		"plan": c.Plan.Name,
	}

	// ---- the clone under test
	orig, cl, path, ok, perr := doClone(c, a)
	if !ok {
		res.Skip = true
		res.Label("bad-target")
		return res
	}
	switch orig.(type) {
	case *workflow.Action:
		if c.Target.Group >= 0 {
			res.Label("target:Action-in-checks")
		} else {
			res.Label("target:Action-in-sequence")
		}
		if k := reqKindOf(orig.(*workflow.Action)); k >= 0 {
			res.Label("target-action-req:" + kinds[k].label)
		}
	case *workflow.Checks:
		res.Label("target:Checks-" + groupNames[c.Target.Group])
	}
	labelNested(&res, orig, c.KeepState)
	if perr != nil {
		// "yields a copy": the inputs are plans as users build them / as storage returns them
		res.Fail("C18/panic", "clone.%s(%s) panicked: %v", targetNames[c.Target.Kind], path, perr)
		return res
	}
	if isNilPtr(cl) {
		res.Fail("C18/nil-clone", "clone.%s(%s) returned nil for a non-nil object", targetNames[c.Target.Kind], path)
		return res
	}

	// ---- the call itself must not have written into the original
	if d := strictDiff(ref, a, "Plan"); d != "" {
		res.Fail("C18/original-changed", "the original was modified by the clone call (snapshot vs original): %s", d)
	}

	// ---- (a) definition, (c) stripping, (d) retention
	j := &judge{res: &res, keepState: c.KeepState, keepSecrets: c.KeepSecrets}
	j.compare(path, orig, cl)

	// ---- (b) no shared mutable memory: address sets. The whole original plan is scanned, not only the cloned subtree.
	if s := overlap(spansOf(a, "original:Plan"), spansOf(cl, "clone:"+path)); s != "" {
		res.Fail("C18/alias:"+aliasClass(s), "%s", s)
	}

	// ---- (b) write through the clone, observe the original
	nMut := mutateAll(reflect.ValueOf(cl), map[visitKey]bool{})
	if nMut == 0 {
		harnessBug("nothing mutated in the clone of %s", path)
	}
	if d := strictDiff(ref, a, "Plan"); d != "" {
		res.Fail("C18/mutate:clone-to-original", "after modifying every leaf of the clone the original changed (snapshot vs original): %s", d)
	}

	// ---- (b) write through the original, observe the clone (fresh objects)
	b := build(c)
	_, cl2, _, _, perr2 := doClone(c, b)
	if perr2 != nil || isNilPtr(cl2) {
		res.Fail("C18/panic", "clone of an identical rebuilt plan did not repeat: panic=%v nil=%v", perr2, isNilPtr(cl2))
		return res
	}
	snap := deepCopy(cl2)
	if d := strictDiff(snap, cl2, path); d != "" || !reflect.DeepEqual(snap, cl2) {
		harnessBug("deepCopy is not faithful: %s", d)
	}
	if s := overlap(spansOf(snap, "snap"), spansOf(cl2, "clone")); s != "" {
		harnessBug("deepCopy shares memory with its source: %s", s)
	}
	mutateAll(reflect.ValueOf(b), map[visitKey]bool{})
	if d := strictDiff(snap, cl2, path); d != "" {
		res.Fail("C18/mutate:original-to-clone", "after modifying every leaf of the original the clone changed (snapshot vs clone): %s", d)
	}

	// ---- (c) "so the clone of any plan, even one that has already run, is accepted by Submit"
	// Only for Plan targets without keep-state (WithKeepState: "You cannot submit an object cloned this way").
	if c.Target.Kind == tgPlan && !c.KeepState && len(res.Violations) == 0 {
		d := build(c)
		_, cl3, _, _, perr3 := doClone(c, d)
		if perr3 != nil || isNilPtr(cl3) {
			res.Fail("C18/panic", "clone of an identical rebuilt plan did not repeat: panic=%v nil=%v", perr3, isNilPtr(cl3))
			return res
		}
		serr, setupErr := submit(cl3.(*workflow.Plan))
		if setupErr != nil {
			res.Skip = true
			res.Label("submit-setup-failed")
			return res
		}
		if serr != nil {
			// control: the definition itself must be acceptable, otherwise the generator is unsound
			fc := c
			fc.State = StateData{Class: stFresh}
			cerr, _ := submit(build(fc))
			if cerr != nil {
				harnessBug("the fresh original is rejected by Submit: %v", cerr)
			}
			res.Fail("C18/submit", "Submit rejected the default clone of a %s plan: %v", stateNames[c.State.Class], serr)
		} else {
			res.Label("submit:accepted:" + stateNames[c.State.Class])
		}
	}
	return res
}

// countRequests feeds the evidence counters that say which request features the generator produced.
func countRequests(acts []*workflow.Action) {
	var total, val, ptr, null, nestVal, nestPtr, ptrColl, timeColl, anyField, attempts int64
	for _, a := range acts {
		total++
		attempts += int64(len(a.Attempts))
		var r *Req
		switch v := a.Req.(type) {
		case Req:
			val++
			r = &v
		case *Req:
			ptr++
			r = v
		case N1Req, N2Req, N3Req:
			nestVal++
			continue
		case *N1Req, *N2Req, *N3Req:
			nestPtr++
			continue
		default:
			null++
			continue
		}
		if r.Opt != nil || r.OptAttrs != nil {
			ptrColl++
		}
		if len(r.Stamps) > 0 || len(r.Marks) > 0 {
			timeColl++
		}
		if r.Extra != nil {
			anyField++
		}
	}
	vprop.Count("actions_total", total)
	vprop.Count("attempts_total", attempts)
	vprop.Count("requests_value_typed", val)
	vprop.Count("requests_pointer_typed", ptr)
	vprop.Count("requests_nil", null)
	vprop.Count("requests_nested_value_typed", nestVal)
	vprop.Count("requests_nested_pointer_typed", nestPtr)
	vprop.Count("requests_with_pointer_to_slice_or_map", ptrColl)
	vprop.Count("requests_with_times_in_slice_or_map", timeColl)
	vprop.Count("requests_with_any_field_set", anyField)
}

func reqKindOf(a *workflow.Action) int { return kindOfValue(a.Req) }

// holdsRefs reports whether a request/response value actually refers to shareable memory (a non-nil map, a pointer, a
// slice with capacity) — only then can a shallow copy be told from a deep one.
func holdsRefs(v any) bool { return v != nil && len(spansOf(v, "")) > 0 }

// actionsUnder lists the actions of a clonable object (plan, block, sequence, checks group or action).
func actionsUnder(obj any) []*workflow.Action {
	switch o := obj.(type) {
	case *workflow.Plan:
		return actionsOf(o)
	case *workflow.Block:
		return actionsOf(&workflow.Plan{Blocks: []*workflow.Block{o}})
	case *workflow.Sequence:
		return o.Actions
	case *workflow.Checks:
		return o.Actions
	case *workflow.Action:
		return []*workflow.Action{o}
	}
	return nil
}

// labelNested classifies what the cloned subtree holds of the "references only below a struct / array field" request
// types: label cloned:<class>-<value|pointer>-req when a request of that type with live references is cloned, and
// cloned:<class>-<value|pointer>-resp-kept when (keep-state) an attempt response of that type is.
func labelNested(res *vprop.Result, orig any, keepState bool) {
	seen := map[string]bool{}
	add := func(v any, suffix string) {
		k := kindOfValue(v)
		if k < 0 || kinds[k].class == "" || !holdsRefs(v) {
			return
		}
		l := "cloned:" + kinds[k].label + suffix
		if !seen[l] {
			seen[l] = true
			res.Label(l)
		}
	}
	for _, a := range actionsUnder(orig) {
		add(a.Req, "-req")
		if keepState {
			for _, att := range a.Attempts {
				add(att.Resp, "-resp-kept")
			}
		}
	}
}

// actionsOf lists every action of a plan.
func actionsOf(p *workflow.Plan) []*workflow.Action {
	var out []*workflow.Action
	for _, slot := range groupsOfPlan(p) {
		if *slot != nil {
			out = append(out, (*slot).Actions...)
		}
	}
	for _, b := range p.Blocks {
		for _, slot := range groupsOfBlock(b) {
			if *slot != nil {
				out = append(out, (*slot).Actions...)
			}
		}
		for _, s := range b.Sequences {
			out = append(out, s.Actions...)
		}
	}
	return out
}

func c18Spec() vprop.Spec[Case] {
	return vprop.Spec[Case]{
		ID:    "C18",
		Gen:   func(t *rapid.T) Case { return genCase(t) },
		Check: checkClone,
	}
}

func TestC18(t *testing.T) { vprop.Run(t, c18Spec()) }

// FuzzC18 is the byte-driven arm (thorough tier), see vprop.Fuzz.
func FuzzC18(f *testing.F) { vprop.Fuzz(f, c18Spec()) }
