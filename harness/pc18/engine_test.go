package pc18

// Originals that went through the real engine (Case.Engine.Mode != 0).
//
// The synthesised states of build() look like plans read back from storage. They never carry what only a real
// Workstream.Submit leaves on the in-memory object: the unexported, engine-owned plugin register on every action (set
// before validation, so also on a plan that Submit then rejects) and the plan id on every sub-object. The statement says
// "By default all engine-owned state is stripped, so the clone of any plan, even one that has already run, is accepted
// by Submit" — and Submit refuses an action whose register is already set. So this class hands the plan to a real
// Workstream first (accepted, or rejected by validation), optionally runs it (Start + Wait, instant plugins), clones
// either the very object that was handed to Submit or the plan the Workstream returns, with every option set and every
// target kind, runs the same oracle as for synthesised originals, and submits the default clone of a Plan both to a
// fresh Workstream and to the Workstream the original lives in.
//
// (Submit's comment says that using the plan object after Submit is "undefined behavior"; cloning it is nevertheless what
// the statement's "clone of any plan" covers, and correct code — which builds the clone's actions from the definition
// fields — passes.)

import (
	"fmt"
	"reflect"
	"strings"
	"time"

	"github.com/element-of-surprise/coercion"
	"github.com/element-of-surprise/coercion/workflow"
	"github.com/element-of-surprise/coercion/workflow/storage/sqlite"
	"github.com/google/uuid"
	"github.com/gostdlib/base/context"

	"verifharness/vprop"
)

// maxRunActions bounds the plans that are really executed. A run takes about 13 ms on average (100 ms for the largest
// shapes), so the bound is above the largest shape the generator makes (67 actions); it is kept as the knob for the
// time budget.
const maxRunActions = 100

func countActions(pd PlanData) int {
	n := 0
	for _, g := range pd.Groups {
		if g != nil {
			n += len(g.Actions)
		}
	}
	for _, b := range pd.Blocks {
		for _, g := range b.Groups {
			if g != nil {
				n += len(g.Actions)
			}
		}
		for _, s := range b.Seqs {
			n += len(s.Actions)
		}
	}
	return n
}

// engineOrig is an original produced by the real engine.
type engineOrig struct {
	ws    *coercion.Workstream
	close func()
	// source is the object that gets cloned.
	source *workflow.Plan
	ran    bool
	// final is the status of the plan Wait returned (ran only).
	final workflow.Status
}

// lastAction is the action the Mode-2 defects 1 and 2 are planted on (and repaired on in the clone).
func lastAction(p *workflow.Plan) *workflow.Action {
	b := p.Blocks[len(p.Blocks)-1]
	s := b.Sequences[len(b.Sequences)-1]
	return s.Actions[len(s.Actions)-1]
}

const unknownPlugin = "verif/pc18.NotRegistered"

// plantDefect makes the definition invalid for Submit (Mode 2).
func plantDefect(p *workflow.Plan, defect int) {
	switch defect {
	case 1:
		lastAction(p).Timeout = time.Second // "timeout must be at least 5 seconds"
	case 2:
		lastAction(p).Plugin = unknownPlugin // "plugin ... not found"
	default:
		p.Descr = "  " // "description is required"
	}
}

// repairDefect undoes plantDefect on a clone of the rejected plan, taking the valid value from the case data.
func repairDefect(cl *workflow.Plan, c Case) {
	good := buildFresh(c.Plan)
	switch c.Engine.Defect {
	case 1:
		lastAction(cl).Timeout = lastAction(good).Timeout
	case 2:
		lastAction(cl).Plugin = lastAction(good).Plugin
	default:
		cl.Descr = good.Descr
	}
}

// makeRunnable turns the definition into one the engine finishes at once: no block delays, a short continuous-check
// interval (a zero Delay makes the engine re-run the checks in a 1 ns loop), and the scripted failure.
func makeRunnable(p *workflow.Plan, failAt int) {
	for _, slot := range groupsOfPlan(p) {
		if *slot != nil {
			(*slot).Delay = 0
		}
	}
	if p.ContChecks != nil {
		p.ContChecks.Delay = 20 * time.Millisecond
	}
	for _, b := range p.Blocks {
		b.EntranceDelay, b.ExitDelay = 0, 0
		if b.ContChecks != nil {
			b.ContChecks.Delay = 20 * time.Millisecond
		}
	}
	if failAt < 0 {
		return
	}
	var withReq []*workflow.Action
	for _, a := range actionsOf(p) {
		if a.Req != nil {
			withReq = append(withReq, a)
		}
	}
	if len(withReq) == 0 {
		return
	}
	a := withReq[failAt%len(withReq)]
	rv := reflect.ValueOf(a.Req)
	if rv.Kind() == reflect.Ptr {
		f := rv.Elem().FieldByName("Text")
		f.SetString(f.String() + failMarker)
		return
	}
	nv := reflect.New(rv.Type()).Elem()
	nv.Set(rv)
	f := nv.FieldByName("Text")
	f.SetString(f.String() + failMarker)
	a.Req = nv.Interface()
}

// makeEngineOrig produces the original of an engine case. A non-empty skip says why the case cannot be judged (the
// engine or the store misbehaved in a way that is not C18's business); it is never a violation.
func makeEngineOrig(c Case) (eo *engineOrig, skip string) {
	ctx := context.Background()
	reg := newRegistry()
	vault, err := sqlite.New(ctx, "", reg, sqlite.WithInMemory())
	if err != nil {
		return nil, "sqlite.New"
	}
	ws, err := coercion.New(ctx, reg, vault, coercion.WithNoRecovery())
	if err != nil {
		vault.Close(ctx)
		return nil, "coercion.New"
	}
	eo = &engineOrig{ws: ws, close: func() { vault.Close(ctx) }}
	made := eo // the skip paths return a nil eo: the deferred clean-up must not go through the named result
	defer func() {
		if skip != "" {
			made.close()
			eo = nil
		}
	}()

	p := buildFresh(c.Plan)
	run := c.Engine.Mode == engAccepted && c.Engine.Run && countActions(c.Plan) <= maxRunActions
	switch c.Engine.Mode {
	case engRejected:
		plantDefect(p, c.Engine.Defect)
		if _, err := ws.Submit(ctx, p); err == nil {
			return nil, "invalid-plan-accepted"
		}
		eo.source = p
		return eo, ""
	case engAccepted:
		if run {
			makeRunnable(p, c.Engine.FailAt)
		}
		id, err := ws.Submit(ctx, p)
		if err != nil {
			return nil, "valid-plan-rejected"
		}
		eo.source = p
		if run {
			if err := ws.Start(ctx, id); err != nil {
				return nil, "start-error"
			}
			wctx, cancel := context.WithTimeout(ctx, 60*time.Second)
			done, err := ws.Wait(wctx, id)
			cancel()
			if err != nil || done == nil || done.State == nil {
				return nil, "wait-error" // a stall or a store error is the engine properties' business, not C18's
			}
			eo.ran = true
			eo.final = done.State.Status
			if c.Engine.ReadBack {
				eo.source = done
			}
		} else if c.Engine.ReadBack {
			got, err := ws.Plan(ctx, id)
			if err != nil || got == nil {
				return nil, "read-error"
			}
			eo.source = got
		}
		// only a plan that came back from the Workstream must carry its id: whether Submit also writes the ids into the
		// caller's object is an implementation detail (soundness audit FA-1 / NM-1)
		if (eo.source != p && eo.source.ID == uuid.Nil) || len(eo.source.Blocks) != len(c.Plan.Blocks) {
			return nil, "read-back-incomplete" // storage defects are C13's business
		}
		return eo, ""
	}
	return nil, "bad-mode"
}

// refClone is the harness's own default clone: new objects made from the definition fields of the statement, requests
// deep-copied by the harness copier. It is only used as the control of the Submit clause (is the original's definition
// itself acceptable?), never as an oracle for clone's output.
func refClone(p *workflow.Plan) *workflow.Plan {
	action := func(a *workflow.Action) *workflow.Action {
		n := &workflow.Action{Name: a.Name, Descr: a.Descr, Plugin: a.Plugin, Timeout: a.Timeout, Retries: a.Retries}
		if a.Req != nil {
			n.Req = deepCopy(a.Req)
		}
		return n
	}
	checks := func(c *workflow.Checks) *workflow.Checks {
		if c == nil {
			return nil
		}
		n := &workflow.Checks{Delay: c.Delay}
		for _, a := range c.Actions {
			n.Actions = append(n.Actions, action(a))
		}
		return n
	}
	n := &workflow.Plan{Name: p.Name, Descr: p.Descr, GroupID: p.GroupID, Meta: cloneBytes(p.Meta)}
	og, ng := groupsOfPlan(p), groupsOfPlan(n)
	for g := range og {
		*ng[g] = checks(*og[g])
	}
	for _, b := range p.Blocks {
		nb := &workflow.Block{Name: b.Name, Descr: b.Descr, EntranceDelay: b.EntranceDelay, ExitDelay: b.ExitDelay,
			Concurrency: b.Concurrency, ToleratedFailures: b.ToleratedFailures}
		obg, nbg := groupsOfBlock(b), groupsOfBlock(nb)
		for g := range obg {
			*nbg[g] = checks(*obg[g])
		}
		for _, s := range b.Sequences {
			ns := &workflow.Sequence{Name: s.Name, Descr: s.Descr}
			for _, a := range s.Actions {
				ns.Actions = append(ns.Actions, action(a))
			}
			nb.Sequences = append(nb.Sequences, ns)
		}
		n.Blocks = append(n.Blocks, nb)
	}
	return n
}

func engineClassName(c Case, eo *engineOrig) string {
	switch {
	case c.Engine.Mode == engRejected:
		return "engine-rejected"
	case eo != nil && eo.ran:
		return "engine-ran"
	default:
		return "engine-submitted"
	}
}

// checkEngine is checkClone for originals that went through the real engine. The original cannot be rebuilt (ids and
// times come from the engine), so the snapshot is a deep copy by the harness copier and every clone is taken from the one
// original before anything is modified.
func checkEngine(c Case) (res vprop.Result) {
	if c.Engine.Mode != engAccepted && c.Engine.Mode != engRejected || len(c.Plan.Blocks) == 0 {
		res.Skip = true
		return res
	}
	res.Label("state:engine")
	if c.Target.Kind >= 0 && c.Target.Kind < len(targetNames) {
		res.Label("target:" + targetNames[c.Target.Kind])
	}
	res.Label(fmt.Sprintf("opts:keepState=%v,keepSecrets=%v", c.KeepState, c.KeepSecrets))
	res.Label(fmt.Sprintf("blocks:%d", len(c.Plan.Blocks)))

	eo, skip := makeEngineOrig(c)
	if skip != "" {
		res.Skip = true
		res.Label("engine-skip:" + skip)
		return res
	}
	defer eo.close()
	class := engineClassName(c, eo)
	a := eo.source
	fromSubmit := c.Engine.Mode == engRejected || !c.Engine.ReadBack
	res.Label("engine:" + class)
	if fromSubmit {
		res.Label("engine-source:object-handed-to-Submit")
	} else {
		res.Label("engine-source:returned-by-Workstream")
	}
	if eo.ran {
		res.Label("engine-ran:" + strings.ToLower(eo.final.String()))
	}

	hasAttempts := false
	hasRegister := false
	for _, act := range actionsOf(a) {
		hasAttempts = hasAttempts || len(act.Attempts) > 0
		hasRegister = hasRegister || act.HasRegister()
	}
	if hasAttempts {
		res.Label("executed:has-attempts")
	}
	if hasRegister {
		res.Label("engine:original-carries-register")
	}
	countRequests(actionsOf(a))
	// NT (DESIGN §5 C18): an executed plan (has attempts) or >= 2 blocks
	res.NonTrivial = hasAttempts || len(c.Plan.Blocks) >= 2
	res.Sample = map[string]any{
		"state": class, "engine": c.Engine, "keepState": c.KeepState, "keepSecrets": c.KeepSecrets,
		"target": c.Target, "blocks": len(c.Plan.Blocks), "actions": len(actionsOf(a)), "hasAttempts": hasAttempts,
		"plan": c.Plan.Name,
	}

	ref := deepCopy(a).(*workflow.Plan) // independent snapshot of the original, never touched
	if d := strictDiff(a, ref, "Plan"); d != "" {
		harnessBug("deepCopy of the engine original is not faithful: %s", d)
	}
	if s := overlap(spansOf(a, "A"), spansOf(ref, "B")); s != "" {
		harnessBug("deepCopy of the engine original shares memory: %s", s)
	}

	// ---- every clone is taken now, from the untouched original
	orig, cl, path, ok, perr := doClone(c, a)
	if !ok {
		res.Skip = true
		res.Label("bad-target")
		return res
	}
	labelNested(&res, orig, c.KeepState)
	if perr != nil {
		res.Fail("C18/panic", "clone.%s(%s) of a %s plan panicked: %v", targetNames[c.Target.Kind], path, class, perr)
		return res
	}
	if isNilPtr(cl) {
		res.Fail("C18/nil-clone", "clone.%s(%s) returned nil for a non-nil object", targetNames[c.Target.Kind], path)
		return res
	}
	_, cl2, _, _, perr2 := doClone(c, a)
	if perr2 != nil || isNilPtr(cl2) {
		res.Fail("C18/panic", "a second clone of the same plan did not repeat: panic=%v nil=%v", perr2, isNilPtr(cl2))
		return res
	}
	submitClause := c.Target.Kind == tgPlan && !c.KeepState
	var forFresh, forSame *workflow.Plan
	if submitClause {
		_, x, _, _, p3 := doClone(c, a)
		_, y, _, _, p4 := doClone(c, a)
		if p3 != nil || p4 != nil || isNilPtr(x) || isNilPtr(y) {
			res.Fail("C18/panic", "a further clone of the same plan did not repeat: panic=%v/%v", p3, p4)
			return res
		}
		forFresh, forSame = x.(*workflow.Plan), y.(*workflow.Plan)
	}

	// ---- the calls must not have written into the original
	if d := strictDiff(ref, a, "Plan"); d != "" {
		res.Fail("C18/original-changed", "the original was modified by the clone call (snapshot vs original): %s", d)
	}

	// ---- (a) definition, (c) stripping, (d) retention — same judge as for synthesised originals
	j := &judge{res: &res, keepState: c.KeepState, keepSecrets: c.KeepSecrets}
	j.compare(path, orig, cl)

	// ---- (c) "By default all engine-owned state is stripped": the plugin register Submit attaches to every action is
	// engine-owned, and observable through the exported Action.HasRegister (Submit refuses such an action).
	if !c.KeepState {
		for _, act := range actionsUnder(cl) {
			if act.HasRegister() {
				res.Fail("C18/strip:action.register", "%s: action %q of the default clone of a %s plan still carries the engine's plugin register (HasRegister() == true)", path, act.Name, class)
				break
			}
		}
	}

	// ---- (b) address sets
	if s := overlap(spansOf(a, "original:Plan"), spansOf(cl, "clone:"+path)); s != "" {
		res.Fail("C18/alias:"+aliasClass(s), "%s", s)
	}
	// ---- (b) write through the clone, observe the original
	if mutateAll(reflect.ValueOf(cl), map[visitKey]bool{}) == 0 {
		harnessBug("nothing mutated in the clone of %s", path)
	}
	if d := strictDiff(ref, a, "Plan"); d != "" {
		res.Fail("C18/mutate:clone-to-original", "after modifying every leaf of the clone the original changed (snapshot vs original): %s", d)
	}
	// ---- (b) write through the original, observe the second clone
	snap := deepCopy(cl2)
	if d := strictDiff(snap, cl2, path); d != "" {
		harnessBug("deepCopy is not faithful: %s", d)
	}
	mutateAll(reflect.ValueOf(a), map[visitKey]bool{})
	if d := strictDiff(snap, cl2, path); d != "" {
		res.Fail("C18/mutate:original-to-clone", "after modifying every leaf of the original the clone changed (snapshot vs clone): %s", d)
	}

	// ---- (c) "so the clone of any plan, even one that has already run, is accepted by Submit": on a fresh Workstream
	// and on the Workstream the original lives in. A rejected original is invalid by construction; the one planted
	// field is repaired in the clone first.
	if submitClause && len(res.Violations) == 0 {
		if c.Engine.Mode == engRejected {
			repairDefect(forFresh, c)
			repairDefect(forSame, c)
		}
		errFresh, setupErr := submit(forFresh)
		if setupErr != nil {
			res.Skip = true
			res.Label("submit-setup-failed")
			return res
		}
		_, errSame := eo.ws.Submit(context.Background(), forSame)
		if errFresh != nil || errSame != nil {
			// control: the harness's own default clone of the (snapshot of the) original must be acceptable, otherwise
			// the original's definition is the problem (e.g. a store that does not return what was submitted)
			ctl := refClone(ref)
			if c.Engine.Mode == engRejected {
				repairDefect(ctl, c)
			}
			if cerr, _ := submit(ctl); cerr != nil {
				res.Skip = true
				res.Label("engine-skip:control-rejected")
				return res
			}
		}
		if errFresh != nil {
			res.Fail("C18/submit", "a fresh Workstream rejected the default clone of a %s plan (%s): %v", class, sourceName(fromSubmit), errFresh)
		} else {
			res.Label("submit:accepted:" + class + ":fresh-workstream")
		}
		if errSame != nil {
			res.Fail("C18/submit", "the original's own Workstream rejected the default clone of a %s plan (%s): %v", class, sourceName(fromSubmit), errSame)
		} else {
			res.Label("submit:accepted:" + class + ":same-workstream")
		}
	}
	return res
}

func sourceName(fromSubmit bool) string {
	if fromSubmit {
		return "clone of the object that was handed to Submit"
	}
	return "clone of the plan returned by the Workstream"
}
