package pc18

// Case data (plain, JSON round-trippable) and its rapid generators.

import (
	"fmt"

	"pgregory.net/rapid"
)

// SubData describes a Sub value.
type SubData struct {
	Label string
	Count int
	Blob  []byte // nil, empty or bytes
	// WhenSec is the unix second of Sub.When; 0 = zero time.
	WhenSec int64
	Tags    map[string]string // nil, empty or entries
	Pin     string            // secure-tagged
}

// ReqData describes a request or response value.
type ReqData struct {
	// Kind: 0 value-typed (Req / Resp), 1 pointer-typed (*Req / *Resp), 2 nil, and the "references only below a struct /
	// array field" types: 3 N1Req, 4 *N1Req (one level down), 5 N2Req, 6 *N2Req (two levels down), 7 N3Req, 8 *N3Req
	// (inside array elements); responses likewise (N1Resp ...).
	Kind  int
	Text  string
	Num   int64
	Flag  bool
	Raw   []byte
	Inner SubData
	Ref   *SubData
	List  []SubData
	Refs  []SubData // built as []*Sub
	Attrs map[string]string
	// Stamps / Marks: unix seconds of Req.Stamps ([]time.Time) and Req.Marks (map[string]time.Time); nil, empty or values.
	Stamps []int64
	Marks  map[string]int64
	Subs   map[string]SubData
	// Opt / OptAttrs: nil = nil pointer, otherwise pointer to the (possibly empty) slice / map.
	Opt      *[]string
	OptAttrs *map[string]string
	// Extra selects what Req.Extra (type any) holds: 0 nil, 1 Sub, 2 *Sub, 3 []any{Sub, *Sub, string, int},
	// 4 map[string]any{Sub, int, []string}, 5 []Sub, 6 time.Time, 7 []any{time.Time, string, time.Time},
	// 8 map[string]any{time.Time, int} — all made from ExtraSub.
	Extra    int
	ExtraSub SubData
	// Nest is used by the kinds 5-8 only (kinds 3/4 use Inner).
	Nest      NestData
	Hidden    string // secure-tagged
	HiddenRaw []byte // secure-tagged
}

// NestData describes the nested part of N2Req (Mid with its Leaf; kinds 5/6) and of N3Req (the Pair array; kinds 7/8).
// Text and Num (and Inner for N1Req, kinds 3/4) come from the ReqData fields of the same name.
type NestData struct {
	Title string
	Rank  int
	Items []string          // nil, empty or values
	Notes map[string]string // nil, empty or entries
	Ptr   *SubData
	Subs  []SubData
	Pin   string // secure-tagged
	Pair  [2]SubData
}

// ErrData is one link of a plugins.Error chain.
type ErrData struct {
	Code uint
	Msg  string
	Perm bool
}

// ActionData describes an action: its definition and the material its attempts are made of once it has executed.
type ActionData struct {
	Name  string
	Descr string
	// TimeoutMs is 0 (engine default) or >= 5000.
	TimeoutMs int64
	Retries   int
	Req       ReqData
	// Fails are the error chains of failed attempts (used when the state class executed the action).
	Fails [][]ErrData
	// Resp is the response of the successful attempt (used when the action completed). Kind follows Req.Kind.
	Resp ReqData
	// FailResp: failed attempts carry the response too (a plugin may return both a response and an error).
	FailResp bool
}

type ChecksData struct {
	DelayMs int64
	Actions []ActionData
}

type SeqData struct {
	Name    string
	Descr   string
	Actions []ActionData
}

type BlockData struct {
	Name            string
	Descr           string
	EntranceDelayMs int64
	ExitDelayMs     int64
	Concurrency     int
	Tolerated       int
	Groups          [5]*ChecksData // bypass, pre, cont, post, deferred
	Seqs            []SeqData
}

type PlanData struct {
	Name  string
	Descr string
	// Group: 0 = GroupID is uuid.Nil, otherwise the seed of a v7 group id.
	Group  int
	Meta   []byte // nil, empty or bytes
	Groups [5]*ChecksData
	Blocks []BlockData
}

// State classes.
const (
	stFresh     = 0 // as a user builds it: no ids, no State, no attempts
	stSubmitted = 1 // ids, NotStarted states, submit time
	stRunning   = 2 // a prefix of the actions (execution order) Completed, one Running, the rest NotStarted
	stCompleted = 3
	stFailed    = 4 // a prefix Completed, one action Failed, its ancestors Failed, plan Reason set
)

var stateNames = [...]string{"fresh", "submitted", "running", "completed", "failed"}

// StateData selects the execution state that is synthesised onto the plan.
type StateData struct {
	Class int
	// T0Sec/T0Nano is the submit time; all other times are derived from it.
	T0Sec  int64
	T0Nano int64
	// UTC: times carry the UTC location, otherwise Local (as time.Unix returns, which is what the sqlite reader does).
	UTC bool
	// StepMs is the time between two events.
	StepMs int64
	// Cut selects (modulo the number of candidates) the action that is Running / Failed.
	Cut int
	// Seed feeds the object ids.
	Seed uint32
}

// Target kinds.
const (
	tgPlan     = 0
	tgBlock    = 1
	tgSequence = 2
	tgChecks   = 3
	tgAction   = 4
)

var targetNames = [...]string{"Plan", "Block", "Sequence", "Checks", "Action"}

// TargetData says which object is cloned. Block == -1 means plan level (for Checks / Action in plan checks).
// Group == -1 for an Action means "action Action of sequence Seq of block Block".
type TargetData struct {
	Kind   int
	Block  int
	Seq    int
	Group  int
	Action int
}

// EngineData selects originals that went through the real engine instead of carrying a synthesised state. The zero
// value (Mode 0) is "off": every case saved before this class existed decodes to it.
type EngineData struct {
	// Mode: 0 off; 1 the plan was handed to a real Workstream.Submit, which accepted it; 2 the plan was handed to Submit
	// with one definition field made invalid, so that validation rejected it (Submit has then already attached the plugin
	// register to every action) — the Submit clause repairs that field in the clone.
	Mode int
	// Run (Mode 1): the plan is also started and waited for (instant plugins): it "has already run".
	Run bool
	// FailAt (Run): < 0 every plugin call succeeds, otherwise (modulo the number of actions that have a request) the
	// action whose plugin fails permanently.
	FailAt int
	// ReadBack (Mode 1): the object that is cloned is the plan the Workstream returns (Wait after a run, Plan otherwise)
	// instead of the in-memory object that was handed to Submit.
	ReadBack bool
	// Defect (Mode 2): 0 blank plan description, 1 an action timeout of one second, 2 an unknown plugin name.
	Defect int
}

// Engine modes.
const (
	engOff      = 0
	engAccepted = 1
	engRejected = 2
)

// Case is one C18 case.
type Case struct {
	Plan        PlanData
	State       StateData
	KeepState   bool
	KeepSecrets bool
	Target      TargetData
	Engine      EngineData
}

// ---------------------------------------------------------------------------------------------------------------------
// generators

var (
	// printable ASCII incl. space and punctuation, plus some multi-byte runes; always valid UTF-8, no NUL
	textRunes = []rune("abcdefgXYZ0123 _-./:äßЖ世🙂")
	genTail   = rapid.StringOfN(rapid.RuneFrom(textRunes), 0, 10, -1)
	genShort  = rapid.StringOfN(rapid.RuneFrom(textRunes), 0, 5, -1)
	genBytes  = rapid.SliceOfN(rapid.Byte(), 0, 5)
	genAttrs  = rapid.MapOfN(genShort, genShort, 0, 3)
	genSec    = rapid.Int64Range(1, 4102444799)
	genStamps = rapid.SliceOfN(genSec, 1, 3)
	genMarks  = rapid.MapOfN(genShort, genSec, 1, 2)
	genOpt    = rapid.SliceOfN(genShort, 0, 2)

	// request kinds an action may use: in a sequence (non-check plugins) and in a checks group (check plugins)
	actionReqKinds = []int{reqValue, reqPointer, reqN1Value, reqN1Ptr, reqN2Value, reqN2Ptr, reqN3Value, reqN3Ptr}
	checkReqKinds  = []int{reqValue, reqPointer, reqNil, reqN1Value, reqN1Ptr, reqN2Value, reqN2Ptr, reqN3Value, reqN3Ptr}
)

// genName draws a string that is valid as a name/description (non-blank after TrimSpace).
func genName(t *rapid.T, label, prefix string) string {
	return prefix + genTail.Draw(t, label)
}

// genBlob draws nil, empty or a few bytes.
func genBlob(t *rapid.T, label string) []byte {
	switch rapid.IntRange(0, 3).Draw(t, label+".mode") {
	case 0:
		return nil
	case 1:
		return []byte{}
	}
	b := genBytes.Draw(t, label)
	if b == nil {
		b = []byte{}
	}
	return b
}

// genMap draws nil, empty or a few entries.
func genMap(t *rapid.T, label string) map[string]string {
	switch rapid.IntRange(0, 3).Draw(t, label+".mode") {
	case 0:
		return nil
	case 1:
		return map[string]string{}
	}
	return genAttrs.Draw(t, label)
}

func genSub(t *rapid.T, label string) SubData {
	s := SubData{
		Label: genShort.Draw(t, label+".label"),
		Count: rapid.IntRange(-3, 1000).Draw(t, label+".count"),
		Blob:  genBlob(t, label+".blob"),
		Tags:  genMap(t, label+".tags"),
		Pin:   genShort.Draw(t, label+".pin"),
	}
	if rapid.Bool().Draw(t, label+".hasWhen") {
		s.WhenSec = rapid.Int64Range(1, 4102444799).Draw(t, label+".when")
	}
	return s
}

func genSubs(t *rapid.T, label string) []SubData {
	n := rapid.IntRange(-1, 2).Draw(t, label+".n")
	if n < 0 {
		return nil
	}
	out := make([]SubData, 0, n)
	for i := 0; i < n; i++ {
		out = append(out, genSub(t, fmt.Sprintf("%s[%d]", label, i)))
	}
	return out
}

func genNestMid(t *rapid.T, label string) NestData {
	n := NestData{
		Title: genShort.Draw(t, label+".title"),
		Rank:  rapid.IntRange(0, 9).Draw(t, label+".rank"),
		Notes: genMap(t, label+".notes"),
		Subs:  genSubs(t, label+".subs"),
		Pin:   genShort.Draw(t, label+".pin"),
	}
	switch rapid.IntRange(0, 3).Draw(t, label+".items.mode") {
	case 0:
	case 1:
		n.Items = []string{}
	default:
		n.Items = genOpt.Draw(t, label+".items")
		if n.Items == nil {
			n.Items = []string{}
		}
	}
	if rapid.Bool().Draw(t, label+".hasPtr") {
		s := genSub(t, label+".ptr")
		n.Ptr = &s
	}
	return n
}

// genReq draws the description of a request/response of the given kind.
func genReq(t *rapid.T, label string, kind int) ReqData {
	r := ReqData{Kind: kind}
	if kind == reqNil {
		return r
	}
	r.Text = genName(t, label+".text", "t")
	r.Num = rapid.Int64Range(-5, 1<<40).Draw(t, label+".num")
	switch kind {
	case reqN1Value, reqN1Ptr:
		r.Inner = genSub(t, label+".inner")
		return r
	case reqN2Value, reqN2Ptr:
		r.Nest = genNestMid(t, label+".nest")
		return r
	case reqN3Value, reqN3Ptr:
		for i := range r.Nest.Pair {
			r.Nest.Pair[i] = genSub(t, fmt.Sprintf("%s.pair%d", label, i))
		}
		return r
	}
	r.Flag = rapid.Bool().Draw(t, label+".flag")
	r.Raw = genBlob(t, label+".raw")
	r.Inner = genSub(t, label+".inner")
	if rapid.Bool().Draw(t, label+".hasRef") {
		s := genSub(t, label+".ref")
		r.Ref = &s
	}
	r.List = genSubs(t, label+".list")
	r.Refs = genSubs(t, label+".refs")
	r.Attrs = genMap(t, label+".attrs")
	switch rapid.IntRange(0, 3).Draw(t, label+".stamps.mode") {
	case 0:
	case 1:
		r.Stamps = []int64{}
	default:
		r.Stamps = genStamps.Draw(t, label+".stamps")
	}
	switch rapid.IntRange(0, 3).Draw(t, label+".marks.mode") {
	case 0:
	case 1:
		r.Marks = map[string]int64{}
	default:
		r.Marks = genMarks.Draw(t, label+".marks")
	}
	if n := rapid.IntRange(-1, 2).Draw(t, label+".subs.n"); n >= 0 {
		r.Subs = map[string]SubData{}
		for i := 0; i < n; i++ {
			r.Subs[fmt.Sprintf("k%d", i)] = genSub(t, fmt.Sprintf("%s.subs.k%d", label, i))
		}
	}
	if rapid.Bool().Draw(t, label+".hasOpt") {
		o := genOpt.Draw(t, label+".opt")
		if o == nil {
			o = []string{}
		}
		r.Opt = &o
	}
	if rapid.Bool().Draw(t, label+".hasOptAttrs") {
		m := genAttrs.Draw(t, label+".optAttrs")
		r.OptAttrs = &m
	}
	if r.Extra = rapid.IntRange(0, 8).Draw(t, label+".extra"); r.Extra != 0 {
		r.ExtraSub = genSub(t, label+".extraSub")
	}
	r.Hidden = genShort.Draw(t, label+".hidden")
	r.HiddenRaw = genBlob(t, label+".hiddenRaw")
	return r
}

func genErrChain(t *rapid.T, label string) []ErrData {
	n := rapid.IntRange(1, 3).Draw(t, label+".depth")
	out := make([]ErrData, 0, n)
	for i := 0; i < n; i++ {
		out = append(out, ErrData{
			Code: uint(rapid.IntRange(0, 50).Draw(t, label+".code")),
			Msg:  genShort.Draw(t, label+".msg"),
			Perm: rapid.Bool().Draw(t, label+".perm"),
		})
	}
	return out
}

// genAction draws an action. check: the action lives in a checks group (may then use the request-less check plugin).
// executed: the state class can execute actions, so attempt material is drawn too.
func genAction(t *rapid.T, label string, check, executed bool) ActionData {
	kind := rapid.SampledFrom(actionReqKinds).Draw(t, label+".reqKind")
	if check {
		kind = rapid.SampledFrom(checkReqKinds).Draw(t, label+".reqKind")
	}
	a := ActionData{
		Name:    genName(t, label+".name", "a"),
		Descr:   genName(t, label+".descr", "d"),
		Retries: rapid.IntRange(-1, 4).Draw(t, label+".retries"),
		Req:     genReq(t, label+".req", kind),
	}
	if rapid.Bool().Draw(t, label+".hasTimeout") {
		a.TimeoutMs = rapid.Int64Range(5000, 3600000).Draw(t, label+".timeout")
	}
	if executed {
		nf := rapid.IntRange(0, 2).Draw(t, label+".fails")
		for i := 0; i < nf; i++ {
			a.Fails = append(a.Fails, genErrChain(t, fmt.Sprintf("%s.fail%d", label, i)))
		}
		a.Resp = genReq(t, label+".resp", kind)
		a.FailResp = rapid.Bool().Draw(t, label+".failResp")
	} else {
		a.Resp = ReqData{Kind: kind}
	}
	return a
}

func genChecks(t *rapid.T, label string, executed bool) *ChecksData {
	if !rapid.Bool().Draw(t, label+".present") {
		return nil
	}
	c := &ChecksData{}
	if rapid.Bool().Draw(t, label+".hasDelay") {
		c.DelayMs = rapid.Int64Range(1, 600000).Draw(t, label+".delay")
	}
	n := rapid.IntRange(1, 2).Draw(t, label+".n")
	for i := 0; i < n; i++ {
		c.Actions = append(c.Actions, genAction(t, fmt.Sprintf("%s.a%d", label, i), true, executed))
	}
	return c
}

func genPlan(t *rapid.T, executed bool) PlanData {
	p := PlanData{
		Name:  genName(t, "plan.name", "p"),
		Descr: genName(t, "plan.descr", "d"),
		Meta:  genBlob(t, "plan.meta"),
	}
	if rapid.Bool().Draw(t, "plan.hasGroup") {
		p.Group = rapid.IntRange(1, 1<<20).Draw(t, "plan.group")
	}
	for g := range p.Groups {
		p.Groups[g] = genChecks(t, fmt.Sprintf("plan.g%d", g), executed)
	}
	nb := rapid.IntRange(1, 3).Draw(t, "blocks")
	for b := 0; b < nb; b++ {
		bl := fmt.Sprintf("b%d", b)
		bd := BlockData{
			Name:        genName(t, bl+".name", "b"),
			Descr:       genName(t, bl+".descr", "d"),
			Concurrency: rapid.IntRange(0, 4).Draw(t, bl+".conc"),
			Tolerated:   rapid.IntRange(-1, 3).Draw(t, bl+".tol"),
		}
		if rapid.Bool().Draw(t, bl+".hasEntrance") {
			bd.EntranceDelayMs = rapid.Int64Range(1, 60000).Draw(t, bl+".entrance")
		}
		if rapid.Bool().Draw(t, bl+".hasExit") {
			bd.ExitDelayMs = rapid.Int64Range(1, 60000).Draw(t, bl+".exit")
		}
		for g := range bd.Groups {
			bd.Groups[g] = genChecks(t, fmt.Sprintf("%s.g%d", bl, g), executed)
		}
		ns := rapid.IntRange(1, 3).Draw(t, bl+".seqs")
		for s := 0; s < ns; s++ {
			sl := fmt.Sprintf("%s.s%d", bl, s)
			sd := SeqData{Name: genName(t, sl+".name", "s"), Descr: genName(t, sl+".descr", "d")}
			na := rapid.IntRange(1, 3).Draw(t, sl+".actions")
			for a := 0; a < na; a++ {
				sd.Actions = append(sd.Actions, genAction(t, fmt.Sprintf("%s.a%d", sl, a), false, executed))
			}
			bd.Seqs = append(bd.Seqs, sd)
		}
		p.Blocks = append(p.Blocks, bd)
	}
	return p
}

// allTargets enumerates the clonable objects of a plan shape, per kind.
func allTargets(p PlanData) [5][]TargetData {
	var out [5][]TargetData
	out[tgPlan] = []TargetData{{Kind: tgPlan, Block: -1, Seq: -1, Group: -1, Action: -1}}
	for g, c := range p.Groups {
		if c == nil {
			continue
		}
		out[tgChecks] = append(out[tgChecks], TargetData{Kind: tgChecks, Block: -1, Seq: -1, Group: g, Action: -1})
		for a := range c.Actions {
			out[tgAction] = append(out[tgAction], TargetData{Kind: tgAction, Block: -1, Seq: -1, Group: g, Action: a})
		}
	}
	for b, bd := range p.Blocks {
		out[tgBlock] = append(out[tgBlock], TargetData{Kind: tgBlock, Block: b, Seq: -1, Group: -1, Action: -1})
		for g, c := range bd.Groups {
			if c == nil {
				continue
			}
			out[tgChecks] = append(out[tgChecks], TargetData{Kind: tgChecks, Block: b, Seq: -1, Group: g, Action: -1})
			for a := range c.Actions {
				out[tgAction] = append(out[tgAction], TargetData{Kind: tgAction, Block: b, Seq: -1, Group: g, Action: a})
			}
		}
		for s, sd := range bd.Seqs {
			out[tgSequence] = append(out[tgSequence], TargetData{Kind: tgSequence, Block: b, Seq: s, Group: -1, Action: -1})
			for a := range sd.Actions {
				out[tgAction] = append(out[tgAction], TargetData{Kind: tgAction, Block: b, Seq: s, Group: -1, Action: a})
			}
		}
	}
	return out
}

func genCase(t *rapid.T) Case {
	var c Case
	// three cases in ten take their original from the real engine (two accepted by Submit, one rejected), the others
	// carry a synthesised state as before
	switch rapid.IntRange(0, 9).Draw(t, "engine.mode") {
	case 7, 8:
		c.Engine.Mode = engAccepted
	case 9:
		c.Engine.Mode = engRejected
	}
	if c.Engine.Mode == engOff {
		c.State.Class = rapid.IntRange(stFresh, stFailed).Draw(t, "state.class")
	}
	executed := c.State.Class >= stRunning
	c.Plan = genPlan(t, executed)
	switch c.Engine.Mode {
	case engAccepted:
		c.Engine.ReadBack = rapid.Bool().Draw(t, "engine.readBack")
		c.Engine.FailAt = -1
		// only small plans are really executed (time budget); the others are submitted only
		if countActions(c.Plan) <= maxRunActions && rapid.Bool().Draw(t, "engine.run") {
			c.Engine.Run = true
			if rapid.Bool().Draw(t, "engine.fails") {
				c.Engine.FailAt = rapid.IntRange(0, 40).Draw(t, "engine.failAt")
			}
		}
	case engRejected:
		c.Engine.Defect = rapid.IntRange(0, 2).Draw(t, "engine.defect")
	}
	if c.State.Class != stFresh {
		c.State.T0Sec = rapid.Int64Range(946684800, 4102444799).Draw(t, "state.t0") // 2000 .. 2100
		c.State.T0Nano = rapid.Int64Range(0, 999999999).Draw(t, "state.t0nano")
		c.State.UTC = rapid.Bool().Draw(t, "state.utc")
		c.State.StepMs = rapid.Int64Range(1, 5000).Draw(t, "state.step")
		c.State.Seed = rapid.Uint32().Draw(t, "state.seed")
	}
	if c.State.Class == stRunning || c.State.Class == stFailed {
		c.State.Cut = rapid.IntRange(0, 100).Draw(t, "state.cut")
	}
	c.KeepState = rapid.Bool().Draw(t, "keepState")
	c.KeepSecrets = rapid.Bool().Draw(t, "keepSecrets")

	// the Plan target carries the Submit clause: give it half of the cases, the other kinds share the rest
	targets := allTargets(c.Plan)
	kind := tgPlan
	if rapid.Bool().Draw(t, "target.sub") {
		kinds := []int{tgBlock, tgSequence, tgAction}
		if len(targets[tgChecks]) > 0 {
			kinds = append(kinds, tgChecks)
		}
		kind = rapid.SampledFrom(kinds).Draw(t, "target.kind")
	}
	c.Target = targets[kind][rapid.IntRange(0, len(targets[kind])-1).Draw(t, "target.idx")]
	return c
}
