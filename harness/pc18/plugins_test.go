package pc18

// Test plugins and request/response types of the C18 check.
//
// The request/response types contain every kind of reference a shallow copy would share (slices, maps, pointers,
// slices of structs, slices of pointers, nested structs) and two `coerce:"secure"` fields per level so that the
// keep-secrets option has something to act on. Field names are chosen so that registry.Register's secret-name regexp
// (token|pass|jwt|hash|secret|bearer|cred|secure|signing|cert|code|key) never matches an untagged field.

import (
	"fmt"
	"time"

	"github.com/element-of-surprise/coercion/plugins"
	"github.com/element-of-surprise/coercion/plugins/registry"
	"github.com/gostdlib/base/context"
	"github.com/gostdlib/base/retry/exponential"
)

// Sub is the nested struct of requests and responses.
type Sub struct {
	Label string
	Count int
	Blob  []byte
	When  time.Time
	Tags  map[string]string
	Pin   string `coerce:"secure"`
}

// Req is the request type of the test plugins (used by value or by pointer depending on the plugin).
type Req struct {
	Text  string
	Num   int64
	Flag  bool
	Raw   []byte
	Inner Sub
	Ref   *Sub
	List  []Sub
	Refs  []*Sub
	Attrs map[string]string
	// Stamps and Marks: times held directly in a slice / a map (e.g. maintenance windows).
	Stamps []time.Time
	Marks  map[string]time.Time
	// Subs: struct values in a map.
	Subs map[string]Sub
	// Opt and OptAttrs: optional collections the way OpenAPI generators emit them (pointer to slice / to map).
	Opt      *[]string
	OptAttrs *map[string]string
	// Extra: an interface-typed field (nil, struct, pointer, slice or map behind it).
	Extra     any
	Hidden    string `coerce:"secure"`
	HiddenRaw []byte `coerce:"secure"`
}

// Resp is the response type of the test plugins: same shape as Req, distinct type.
type Resp Req

// Leaf, Mid and NReq form the second request type: NReq has NO reference-kind field of its own (only strings, numbers,
// struct fields and an array field); every slice, map and pointer sits one struct level down (Inner: Sub.Blob, Sub.Tags),
// two levels down (Mid.Leaf.*) or inside the elements of an array field (Pair). A copy routine that decides "flat, a plain
// assignment copies it all" from the direct fields only copies such a value shallowly.
type Leaf struct {
	Items []string
	Notes map[string]string
	Ptr   *Sub
	Subs  []Sub
	Pin   string `coerce:"secure"`
}

// Mid has no reference-kind field of its own either.
type Mid struct {
	Title string
	Rank  int
	Leaf  Leaf
}

// NReq is the "references only in nested structs" request (used by value or by pointer depending on the plugin).
type NReq struct {
	Text  string
	Num   int64
	Inner Sub    // references one struct level down
	Mid   Mid    // references two struct levels down
	Pair  [2]Sub // references inside the elements of an array
}

// NResp is the response type of the nested-request plugins.
type NResp NReq

const (
	plugActVal   = "verif/pc18.ActionValue"   // non-check plugin, value-typed request (Req)
	plugActPtr   = "verif/pc18.ActionPointer" // non-check plugin, pointer-typed request (*Req)
	plugCheckVal = "verif/pc18.CheckValue"    // check plugin, value-typed request
	plugCheckPtr = "verif/pc18.CheckPointer"  // check plugin, pointer-typed request
	plugCheckNil = "verif/pc18.CheckNil"      // check plugin without request (Req == nil), like the repository's own test CheckPlugin

	plugActNestVal   = "verif/pc18.ActionNestedValue"   // non-check plugin, value-typed NReq
	plugActNestPtr   = "verif/pc18.ActionNestedPointer" // non-check plugin, *NReq
	plugCheckNestVal = "verif/pc18.CheckNestedValue"    // check plugin, value-typed NReq
	plugCheckNestPtr = "verif/pc18.CheckNestedPointer"  // check plugin, *NReq
)

// reqKind says how the request of an action is typed.
const (
	reqValue       = 0 // Req
	reqPointer     = 1 // *Req
	reqNil         = 2 // nil (check plugins only)
	reqNestValue   = 3 // NReq
	reqNestPointer = 4 // *NReq
)

var reqKindNames = [...]string{"value", "pointer", "nil", "nested-value", "nested-pointer"}

type plug struct {
	name  string
	check bool
	kind  int
}

var _ plugins.Plugin = (*plug)(nil)

func (p *plug) Name() string { return p.name }

func (p *plug) Execute(ctx context.Context, req any) (any, *plugins.Error) {
	// never executed: C18 does not run the engine
	return nil, &plugins.Error{Message: "pc18 plugins are never executed", Permanent: true}
}

// ValidateReq accepts exactly the request type of the plugin (as a real plugin does) and a non-empty Text. It does not
// look at secure-tagged fields: a default clone legitimately carries "[secret hidden]"/zero values there.
func (p *plug) ValidateReq(req any) error {
	switch p.kind {
	case reqNil:
		if req != nil {
			return fmt.Errorf("%s: request must be nil, got %T", p.name, req)
		}
		return nil
	case reqValue:
		r, ok := req.(Req)
		if !ok {
			return fmt.Errorf("%s: request must be pc18.Req, got %T", p.name, req)
		}
		if r.Text == "" {
			return fmt.Errorf("%s: Text is empty", p.name)
		}
		return nil
	case reqPointer:
		r, ok := req.(*Req)
		if !ok || r == nil {
			return fmt.Errorf("%s: request must be non-nil *pc18.Req, got %T", p.name, req)
		}
		if r.Text == "" {
			return fmt.Errorf("%s: Text is empty", p.name)
		}
		return nil
	case reqNestValue:
		r, ok := req.(NReq)
		if !ok {
			return fmt.Errorf("%s: request must be pc18.NReq, got %T", p.name, req)
		}
		if r.Text == "" {
			return fmt.Errorf("%s: Text is empty", p.name)
		}
		return nil
	case reqNestPointer:
		r, ok := req.(*NReq)
		if !ok || r == nil {
			return fmt.Errorf("%s: request must be non-nil *pc18.NReq, got %T", p.name, req)
		}
		if r.Text == "" {
			return fmt.Errorf("%s: Text is empty", p.name)
		}
		return nil
	}
	return fmt.Errorf("bad plugin kind %d", p.kind)
}

func (p *plug) Request() any {
	switch p.kind {
	case reqValue:
		return Req{}
	case reqPointer:
		return &Req{}
	case reqNestValue:
		return NReq{}
	case reqNestPointer:
		return &NReq{}
	}
	return nil
}

func (p *plug) Response() any {
	switch p.kind {
	case reqValue:
		return Resp{}
	case reqPointer:
		return &Resp{}
	case reqNestValue:
		return NResp{}
	case reqNestPointer:
		return &NResp{}
	}
	return nil
}

func (p *plug) IsCheck() bool                   { return p.check }
func (p *plug) RetryPolicy() exponential.Policy { return plugins.FastRetryPolicy() }
func (p *plug) Init() error                     { return nil }

// pluginName returns the plugin for an action inside a checks group (check) or a sequence with the given request kind.
func pluginName(check bool, kind int) string {
	if check {
		switch kind {
		case reqValue:
			return plugCheckVal
		case reqPointer:
			return plugCheckPtr
		case reqNestValue:
			return plugCheckNestVal
		case reqNestPointer:
			return plugCheckNestPtr
		default:
			return plugCheckNil
		}
	}
	switch kind {
	case reqPointer:
		return plugActPtr
	case reqNestValue:
		return plugActNestVal
	case reqNestPointer:
		return plugActNestPtr
	}
	return plugActVal
}

// newRegistry returns a fresh registry holding the nine test plugins.
func newRegistry() *registry.Register {
	reg := registry.New()
	for _, p := range []*plug{
		{name: plugActVal, kind: reqValue},
		{name: plugActPtr, kind: reqPointer},
		{name: plugCheckVal, check: true, kind: reqValue},
		{name: plugCheckPtr, check: true, kind: reqPointer},
		{name: plugCheckNil, check: true, kind: reqNil},
		{name: plugActNestVal, kind: reqNestValue},
		{name: plugActNestPtr, kind: reqNestPointer},
		{name: plugCheckNestVal, check: true, kind: reqNestValue},
		{name: plugCheckNestPtr, check: true, kind: reqNestPointer},
	} {
		if err := reg.Register(p); err != nil {
			panic(fmt.Sprintf("pc18 harness bug: cannot register %s: %v", p.name, err))
		}
	}
	return reg
}
