package pc18

// Test plugins and request/response types of the C18 check.
//
// The request/response types contain every kind of reference a shallow copy would share (slices, maps, pointers,
// slices of structs, slices of pointers, nested structs) and two `coerce:"secure"` fields per level so that the
// keep-secrets option has something to act on. Field names are chosen so that registry.Register's secret-name regexp
// (token|pass|jwt|hash|secret|bearer|cred|secure|signing|cert|code|key) never matches an untagged field.

import (
	"fmt"
	"reflect"
	"strings"
	"time"

	"github.com/element-of-surprise/coercion/plugins"
	"github.com/element-of-surprise/coercion/plugins/registry"
	"github.com/gostdlib/base/context"
	"github.com/gostdlib/base/retry/exponential"
)

// Sub is the nested struct of requests and responses.
type Sub struct {
	Label string
	Count int
	Blob  []byte
	When  time.Time
	Tags  map[string]string
	Pin   string `coerce:"secure"`
}

// Req is the request type of the test plugins (used by value or by pointer depending on the plugin).
type Req struct {
	Text  string
	Num   int64
	Flag  bool
	Raw   []byte
	Inner Sub
	Ref   *Sub
	List  []Sub
	Refs  []*Sub
	Attrs map[string]string
	// Stamps and Marks: times held directly in a slice / a map (e.g. maintenance windows).
	Stamps []time.Time
	Marks  map[string]time.Time
	// Subs: struct values in a map.
	Subs map[string]Sub
	// Opt and OptAttrs: optional collections the way OpenAPI generators emit them (pointer to slice / to map).
	Opt      *[]string
	OptAttrs *map[string]string
	// Extra: an interface-typed field (nil, struct, pointer, slice or map behind it).
	Extra     any
	Hidden    string `coerce:"secure"`
	HiddenRaw []byte `coerce:"secure"`
}

// Resp is the response type of the test plugins: same shape as Req, distinct type.
type Resp Req

// The "nested reference" request types. None of them has a reference-kind field (pointer, slice, map, interface) of its
// own: only strings, numbers and ONE struct-valued or array-valued field, and every slice, map and pointer sits below
// that field. A copy routine that decides "flat: a plain assignment copies it all" from the direct fields only (or that
// descends one level only, or that ignores arrays) copies such a value shallowly. There is one type per depth so that
// each of these partial mistakes is visible on its own (a type holding all three would mask the deeper ones).

// Leaf holds the references of N2Req, two struct levels below the request.
type Leaf struct {
	Items []string
	Notes map[string]string
	Ptr   *Sub
	Subs  []Sub
	Pin   string `coerce:"secure"`
}

// Mid has no reference-kind field of its own either.
type Mid struct {
	Title string
	Rank  int
	Leaf  Leaf
}

// N1Req: references exactly one struct level down (Inner.Blob, Inner.Tags).
type N1Req struct {
	Text  string
	Num   int64
	Inner Sub
}

// N2Req: references exactly two struct levels down (Mid.Leaf.*); Mid itself is flat.
type N2Req struct {
	Text string
	Num  int64
	Mid  Mid
}

// N3Req: references only inside the elements of an array field. (Go arrays are excepted from secret scrubbing, as
// documented by clone.Secure — that is C17's business — but the C18 statement has no exception for them.)
type N3Req struct {
	Text string
	Num  int64
	Pair [2]Sub
}

type (
	N1Resp N1Req
	N2Resp N2Req
	N3Resp N3Req
)

// reqKind says how the request of an action is typed.
const (
	reqValue   = 0 // Req
	reqPointer = 1 // *Req
	reqNil     = 2 // nil (request-less check plugin, like the repository's own test CheckPlugin)
	reqN1Value = 3 // N1Req
	reqN1Ptr   = 4 // *N1Req
	reqN2Value = 5 // N2Req
	reqN2Ptr   = 6 // *N2Req
	reqN3Value = 7 // N3Req
	reqN3Ptr   = 8 // *N3Req
	numKinds   = 9
)

// kindInfo describes one request kind: label, empty request / response objects (as Plugin.Request / Response return them).
type kindInfo struct {
	label string
	// class is "" for Req and nil, otherwise the nested class: "one-level", "two-level", "array".
	class string
	ptr   bool
	req   func() any
	resp  func() any
}

var kinds = [numKinds]kindInfo{
	reqValue:   {label: "value", req: func() any { return Req{} }, resp: func() any { return Resp{} }},
	reqPointer: {label: "pointer", ptr: true, req: func() any { return &Req{} }, resp: func() any { return &Resp{} }},
	reqNil:     {label: "nil", req: func() any { return nil }, resp: func() any { return nil }},
	reqN1Value: {label: "one-level-value", class: "one-level", req: func() any { return N1Req{} }, resp: func() any { return N1Resp{} }},
	reqN1Ptr:   {label: "one-level-pointer", class: "one-level", ptr: true, req: func() any { return &N1Req{} }, resp: func() any { return &N1Resp{} }},
	reqN2Value: {label: "two-level-value", class: "two-level", req: func() any { return N2Req{} }, resp: func() any { return N2Resp{} }},
	reqN2Ptr:   {label: "two-level-pointer", class: "two-level", ptr: true, req: func() any { return &N2Req{} }, resp: func() any { return &N2Resp{} }},
	reqN3Value: {label: "array-value", class: "array", req: func() any { return N3Req{} }, resp: func() any { return N3Resp{} }},
	reqN3Ptr:   {label: "array-pointer", class: "array", ptr: true, req: func() any { return &N3Req{} }, resp: func() any { return &N3Resp{} }},
}

var kindByType = func() map[reflect.Type]int {
	m := map[reflect.Type]int{}
	for k, ki := range kinds {
		if k == reqNil {
			continue
		}
		m[reflect.TypeOf(ki.req())] = k
		m[reflect.TypeOf(ki.resp())] = k
	}
	return m
}()

// kindOfValue maps a request or response value back to its kind (-1: not one of ours).
func kindOfValue(v any) int {
	if v == nil {
		return reqNil
	}
	if k, ok := kindByType[reflect.TypeOf(v)]; ok {
		return k
	}
	return -1
}

// plug is the one plugin implementation: it accepts exactly the request type of its kind (as a real plugin does).
type plug struct {
	name  string
	check bool
	kind  int
}

var _ plugins.Plugin = (*plug)(nil)

func (p *plug) Name() string { return p.name }

// failMarker at the end of a request's Text makes the plugin fail permanently (used by the engine-run originals).
const failMarker = "#fail"

// Execute is only reached by the engine-run originals of the check (the clones themselves are never executed). It is
// instant: a permanent error when the request's Text ends in failMarker, otherwise a response of the plugin's response
// type made from the request. It is called from engine goroutines and touches nothing shared.
func (p *plug) Execute(ctx context.Context, req any) (any, *plugins.Error) {
	if p.kind == reqNil {
		return nil, nil
	}
	if err := p.ValidateReq(req); err != nil {
		return nil, &plugins.Error{Code: 2, Message: err.Error(), Permanent: true}
	}
	rv := reflect.Indirect(reflect.ValueOf(req))
	text := rv.FieldByName("Text").String()
	if strings.HasSuffix(text, failMarker) {
		return nil, &plugins.Error{Code: 7, Message: "scripted failure of " + text, Permanent: true,
			Wrapped: &plugins.Error{Code: 8, Message: "cause"}}
	}
	resp := reflect.New(reflect.TypeOf(kinds[p.kind].resp()))
	out := resp.Elem()
	if kinds[p.kind].ptr {
		out.Set(reflect.New(out.Type().Elem()))
		out = out.Elem()
	}
	out.FieldByName("Text").SetString("done: " + text)
	out.FieldByName("Num").SetInt(rv.FieldByName("Num").Int() + 1)
	if f := out.FieldByName("Inner"); f.IsValid() {
		f.FieldByName("Label").SetString(text)
		f.FieldByName("Blob").SetBytes([]byte(text))
		f.FieldByName("Tags").Set(reflect.ValueOf(map[string]string{"from": text}))
	}
	return resp.Elem().Interface(), nil
}

// ValidateReq accepts exactly the request type of the plugin and a non-empty Text. It does not look at secure-tagged
// fields: a default clone legitimately carries "[secret hidden]"/zero values there.
func (p *plug) ValidateReq(req any) error {
	if p.kind == reqNil {
		if req != nil {
			return fmt.Errorf("%s: request must be nil, got %T", p.name, req)
		}
		return nil
	}
	want := reflect.TypeOf(kinds[p.kind].req())
	if reflect.TypeOf(req) != want {
		return fmt.Errorf("%s: request must be %s, got %T", p.name, want, req)
	}
	v := reflect.ValueOf(req)
	if v.Kind() == reflect.Ptr {
		if v.IsNil() {
			return fmt.Errorf("%s: request is a nil %s", p.name, want)
		}
		v = v.Elem()
	}
	if v.FieldByName("Text").String() == "" {
		return fmt.Errorf("%s: Text is empty", p.name)
	}
	return nil
}

func (p *plug) Request() any                    { return kinds[p.kind].req() }
func (p *plug) Response() any                   { return kinds[p.kind].resp() }
func (p *plug) IsCheck() bool                   { return p.check }
func (p *plug) RetryPolicy() exponential.Policy { return plugins.FastRetryPolicy() }
func (p *plug) Init() error                     { return nil }

// pluginName returns the plugin for an action inside a checks group (check) or a sequence with the given request kind.
func pluginName(check bool, kind int) string {
	if check {
		return "verif/pc18.Check/" + kinds[kind].label
	}
	return "verif/pc18.Action/" + kinds[kind].label
}

// newRegistry returns a fresh registry holding the test plugins: a check plugin for every request kind and a non-check
// plugin for every kind except nil.
func newRegistry() *registry.Register {
	reg := registry.New()
	for k := range kinds {
		for _, check := range []bool{true, false} {
			if k == reqNil && !check {
				continue
			}
			p := &plug{name: pluginName(check, k), check: check, kind: k}
			if err := reg.Register(p); err != nil {
				panic(fmt.Sprintf("pc18 harness bug: cannot register %s: %v", p.name, err))
			}
		}
	}
	return reg
}
