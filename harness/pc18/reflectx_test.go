package pc18

// Reflection helpers of the C18 oracle: reachable-memory scan, leaf mutation, an independent deep copier and a
// structural diff that can ignore secure-tagged fields.

import (
	"fmt"
	"reflect"
	"sort"
	"strings"
	"sync"
	"time"

	"github.com/element-of-surprise/coercion/workflow"
)

var (
	timeType     = reflect.TypeOf(time.Time{})
	locationType = reflect.TypeOf((*time.Location)(nil))
	actionType   = reflect.TypeOf(workflow.Action{})
)

func isBasic(k reflect.Kind) bool {
	switch k {
	case reflect.Bool, reflect.Int, reflect.Int8, reflect.Int16, reflect.Int32, reflect.Int64,
		reflect.Uint, reflect.Uint8, reflect.Uint16, reflect.Uint32, reflect.Uint64, reflect.Uintptr,
		reflect.Float32, reflect.Float64, reflect.Complex64, reflect.Complex128, reflect.String:
		return true
	}
	return false
}

// fieldInfo caches what the walkers need to know about a struct field (reflect.Type.Field allocates).
type fieldInfo struct {
	name     string
	exported bool
	secure   bool
	skipScan bool // Action.register
}

var (
	fieldCache   = map[reflect.Type][]fieldInfo{}
	fieldCacheMu sync.Mutex // engine-run originals execute plugins on other goroutines while the check may be walking
)

func fieldsOf(t reflect.Type) []fieldInfo {
	fieldCacheMu.Lock()
	defer fieldCacheMu.Unlock()
	if fi, ok := fieldCache[t]; ok {
		return fi
	}
	fi := make([]fieldInfo, t.NumField())
	for i := range fi {
		f := t.Field(i)
		fi[i] = fieldInfo{name: f.Name, exported: f.IsExported(), secure: hasSecureTag(f), skipScan: t == actionType && f.Name == "register"}
	}
	fieldCache[t] = fi
	return fi
}

// pnode is a lazily rendered path (rendering every path eagerly dominated the run time).
type pnode struct {
	parent *pnode
	seg    string
	idx    int // used when seg == ""
}

func (p *pnode) field(name string) *pnode { return &pnode{parent: p, seg: "." + name} }
func (p *pnode) index(i int) *pnode       { return &pnode{parent: p, idx: i} }
func (p *pnode) lit(s string) *pnode      { return &pnode{parent: p, seg: s} }

func (p *pnode) String() string {
	if p == nil {
		return ""
	}
	if p.seg != "" {
		return p.parent.String() + p.seg
	}
	return fmt.Sprintf("%s[%d]", p.parent.String(), p.idx)
}

func hasSecureTag(f reflect.StructField) bool {
	for _, tag := range strings.Split(f.Tag.Get("coerce"), ",") {
		if strings.TrimSpace(strings.ToLower(tag)) == "secure" {
			return true
		}
	}
	return false
}

// ---------------------------------------------------------------------------------------------------------------------
// reachable mutable memory

// span is one piece of mutable memory reachable from a value: the target of a pointer, the backing array of a slice
// (its whole capacity) or a map (identified by its header address).
type span struct {
	lo, hi uintptr
	path   *pnode
}

type visitKey struct {
	p uintptr
	t reflect.Type
}

// collectSpans records every pointer target / slice backing array with non-zero capacity / map reachable from v.
// Exempt, as immutable or not part of the plan's memory: string data, *time.Location (time.Time is skipped as a whole),
// and the unexported Action.register (the shared plugin registry, which is infrastructure and not plan data).
// uuid.UUID values are arrays, i.e. plain values. Unexported fields are followed (reading addresses is allowed).
func collectSpans(v reflect.Value, path *pnode, out *[]span, seen map[visitKey]bool) {
	switch v.Kind() {
	case reflect.Ptr:
		if v.IsNil() || v.Type() == locationType {
			return
		}
		k := visitKey{v.Pointer(), v.Type()}
		if seen[k] {
			return
		}
		seen[k] = true
		if sz := v.Type().Elem().Size(); sz > 0 {
			*out = append(*out, span{v.Pointer(), v.Pointer() + sz, path})
		}
		collectSpans(v.Elem(), path, out, seen)
	case reflect.Slice:
		if v.IsNil() || v.Cap() == 0 {
			return
		}
		if sz := v.Type().Elem().Size(); sz > 0 {
			*out = append(*out, span{v.Pointer(), v.Pointer() + uintptr(v.Cap())*sz, path.lit("[]")})
		}
		if isBasic(v.Type().Elem().Kind()) {
			return
		}
		for i := 0; i < v.Len(); i++ {
			collectSpans(v.Index(i), path.index(i), out, seen)
		}
	case reflect.Map:
		if v.IsNil() {
			return
		}
		*out = append(*out, span{v.Pointer(), v.Pointer() + 1, path.lit("{map}")})
		if isBasic(v.Type().Key().Kind()) && isBasic(v.Type().Elem().Kind()) {
			return
		}
		it := v.MapRange()
		for it.Next() {
			collectSpans(it.Key(), path.lit("{key}"), out, seen)
			collectSpans(it.Value(), path.lit(fmt.Sprintf("[%v]", it.Key())), out, seen)
		}
	case reflect.Interface:
		if v.IsNil() {
			return
		}
		// a struct boxed in an interface is copied on assignment and cannot be modified in place: only what it refers to counts
		collectSpans(v.Elem(), path, out, seen)
	case reflect.Struct:
		if v.Type() == timeType {
			return
		}
		for i, f := range fieldsOf(v.Type()) {
			if f.skipScan {
				continue
			}
			if k := v.Field(i).Kind(); isBasic(k) {
				continue
			}
			collectSpans(v.Field(i), path.field(f.name), out, seen)
		}
	case reflect.Array:
		if isBasic(v.Type().Elem().Kind()) {
			return
		}
		for i := 0; i < v.Len(); i++ {
			collectSpans(v.Index(i), path.index(i), out, seen)
		}
	}
}

func spansOf(root any, path string) []span {
	var out []span
	collectSpans(reflect.ValueOf(root), (*pnode)(nil).lit(path), &out, map[visitKey]bool{})
	return out
}

// overlap returns a description of the first piece of memory reachable from both sides, or "".
func overlap(a, b []span) string {
	if len(a) == 0 || len(b) == 0 {
		return ""
	}
	sa := append([]span(nil), a...)
	sort.Slice(sa, func(i, j int) bool { return sa[i].lo < sa[j].lo })
	maxHi := make([]uintptr, len(sa))
	var m uintptr
	for i, s := range sa {
		if s.hi > m {
			m = s.hi
		}
		maxHi[i] = m
	}
	for _, s := range b {
		// spans of a that start below s.hi
		n := sort.Search(len(sa), func(i int) bool { return sa[i].lo >= s.hi })
		if n == 0 || maxHi[n-1] <= s.lo {
			continue
		}
		for i := 0; i < n; i++ {
			if sa[i].hi > s.lo {
				return fmt.Sprintf("%s and %s refer to the same memory (0x%x)", sa[i].path.String(), s.path.String(), s.lo)
			}
		}
	}
	return ""
}

// aliasClass turns a span path into a short stable class for the rule signature, e.g. ".Req", ".Meta", ".State".
func aliasClass(msg string) string {
	first := msg
	if i := strings.Index(first, " and "); i >= 0 {
		first = first[:i]
	}
	for _, key := range []string{".Resp", ".Err", ".Attempts", ".Req", ".State", ".Meta", ".Actions", ".Sequences", ".Blocks"} {
		if strings.Contains(first, key) {
			return strings.TrimPrefix(key, ".")
		}
	}
	return "object"
}

// ---------------------------------------------------------------------------------------------------------------------
// mutation of every settable leaf

// mutateAll changes every leaf that can be changed through the exported API of v: strings, numbers, bools, bytes in
// slices, map entries (changed, and one added for string-keyed string maps), times. Pointer targets are followed, slices
// are modified in place, structs boxed in interfaces are modified through a copy that is stored back (what they refer to
// is modified in place). It returns the number of leaves changed.
func mutateAll(v reflect.Value, seen map[visitKey]bool) int {
	switch v.Kind() {
	case reflect.Ptr:
		if v.IsNil() || v.Type() == locationType {
			return 0
		}
		k := visitKey{v.Pointer(), v.Type()}
		if seen[k] {
			return 0
		}
		seen[k] = true
		return mutateAll(v.Elem(), seen)
	case reflect.Interface:
		if v.IsNil() {
			return 0
		}
		e := v.Elem()
		if e.Kind() == reflect.Ptr {
			return mutateAll(e, seen)
		}
		tmp := reflect.New(e.Type()).Elem()
		tmp.Set(e)
		n := mutateAll(tmp, seen)
		if v.CanSet() {
			v.Set(tmp)
		}
		return n
	case reflect.Struct:
		if v.Type() == timeType {
			if v.CanSet() {
				v.Set(reflect.ValueOf(v.Interface().(time.Time).Add(time.Hour)))
				return 1
			}
			return 0
		}
		n := 0
		for i, f := range fieldsOf(v.Type()) {
			if !f.exported {
				continue
			}
			n += mutateAll(v.Field(i), seen)
		}
		return n
	case reflect.Slice:
		n := 0
		for i := 0; i < v.Len(); i++ {
			n += mutateAll(v.Index(i), seen)
		}
		return n
	case reflect.Array:
		n := 0
		for i := 0; i < v.Len(); i++ {
			n += mutateAll(v.Index(i), seen)
		}
		return n
	case reflect.Map:
		if v.IsNil() {
			return 0
		}
		n := 0
		keys := v.MapKeys()
		for _, k := range keys {
			tmp := reflect.New(v.Type().Elem()).Elem()
			tmp.Set(v.MapIndex(k))
			n += mutateAll(tmp, seen)
			v.SetMapIndex(k, tmp)
		}
		if v.Type().Key().Kind() == reflect.String && v.Type().Elem().Kind() == reflect.String {
			v.SetMapIndex(reflect.ValueOf("~added").Convert(v.Type().Key()), reflect.ValueOf("~added").Convert(v.Type().Elem()))
			n++
		}
		return n
	case reflect.String:
		if v.CanSet() {
			v.SetString(v.String() + "~mut")
			return 1
		}
	case reflect.Bool:
		if v.CanSet() {
			v.SetBool(!v.Bool())
			return 1
		}
	case reflect.Int, reflect.Int8, reflect.Int16, reflect.Int32, reflect.Int64:
		if v.CanSet() {
			v.SetInt(v.Int() ^ 1)
			return 1
		}
	case reflect.Uint, reflect.Uint8, reflect.Uint16, reflect.Uint32, reflect.Uint64, reflect.Uintptr:
		if v.CanSet() {
			v.SetUint(v.Uint() ^ 1)
			return 1
		}
	case reflect.Float32, reflect.Float64:
		if v.CanSet() {
			v.SetFloat(v.Float() + 1)
			return 1
		}
	}
	return 0
}

// ---------------------------------------------------------------------------------------------------------------------
// independent deep copy (used for snapshots of clones; never clone's own code)

func deepCopyValue(v reflect.Value) reflect.Value {
	switch v.Kind() {
	case reflect.Ptr:
		if v.IsNil() || v.Type() == locationType {
			return v
		}
		n := reflect.New(v.Type().Elem())
		n.Elem().Set(deepCopyValue(v.Elem()))
		return n
	case reflect.Interface:
		if v.IsNil() {
			return v
		}
		n := reflect.New(v.Type()).Elem()
		n.Set(deepCopyValue(v.Elem()))
		return n
	case reflect.Struct:
		n := reflect.New(v.Type()).Elem()
		n.Set(v) // copies unexported fields by value
		if v.Type() == timeType {
			return n
		}
		for i, f := range fieldsOf(v.Type()) {
			if !f.exported {
				continue
			}
			n.Field(i).Set(deepCopyValue(v.Field(i)))
		}
		return n
	case reflect.Slice:
		if v.IsNil() {
			return v
		}
		n := reflect.MakeSlice(v.Type(), v.Len(), v.Len())
		for i := 0; i < v.Len(); i++ {
			n.Index(i).Set(deepCopyValue(v.Index(i)))
		}
		return n
	case reflect.Array:
		n := reflect.New(v.Type()).Elem()
		for i := 0; i < v.Len(); i++ {
			n.Index(i).Set(deepCopyValue(v.Index(i)))
		}
		return n
	case reflect.Map:
		if v.IsNil() {
			return v
		}
		n := reflect.MakeMapWithSize(v.Type(), v.Len())
		it := v.MapRange()
		for it.Next() {
			n.SetMapIndex(deepCopyValue(it.Key()), deepCopyValue(it.Value()))
		}
		return n
	}
	return v
}

// deepCopy returns an independent deep copy of a pointer-to-struct value (same dynamic type).
func deepCopy(x any) any {
	return deepCopyValue(reflect.ValueOf(x)).Interface()
}

// ---------------------------------------------------------------------------------------------------------------------
// structural diff

type diffOpts struct {
	// skipSecure ignores struct fields tagged `coerce:"secure"`.
	skipSecure bool
	// nilIsEmpty treats a nil slice/map as equal to an empty one.
	nilIsEmpty bool
}

// firstDiff returns a description of the first difference between a and b ("" when equal), as "<relative path>: what".
// Times are compared with time.Time.Equal; unexported pointer fields by address; everything else structurally. The path
// is only assembled on the way back from a difference.
func firstDiff(a, b reflect.Value, o diffOpts) string {
	if a.IsValid() != b.IsValid() {
		return ": one side is nil"
	}
	if !a.IsValid() {
		return ""
	}
	if a.Type() != b.Type() {
		return fmt.Sprintf(": type %s vs %s", a.Type(), b.Type())
	}
	switch a.Kind() {
	case reflect.Ptr:
		if a.IsNil() != b.IsNil() {
			return ": nil pointer vs non-nil pointer"
		}
		if a.IsNil() || a.Pointer() == b.Pointer() {
			return ""
		}
		if !a.CanInterface() { // unexported pointer (Action.register): identity only
			return ": different pointers"
		}
		return firstDiff(a.Elem(), b.Elem(), o)
	case reflect.Interface:
		if a.IsNil() != b.IsNil() {
			return fmt.Sprintf(": nil vs %s", dynType(a, b))
		}
		if a.IsNil() {
			return ""
		}
		return firstDiff(a.Elem(), b.Elem(), o)
	case reflect.Struct:
		if a.Type() == timeType && a.CanInterface() {
			ta, tb := a.Interface().(time.Time), b.Interface().(time.Time)
			if !ta.Equal(tb) {
				return fmt.Sprintf(": %v vs %v", ta, tb)
			}
			return ""
		}
		for i, f := range fieldsOf(a.Type()) {
			if o.skipSecure && f.secure {
				continue
			}
			if d := firstDiff(a.Field(i), b.Field(i), o); d != "" {
				return "." + f.name + d
			}
		}
		return ""
	case reflect.Slice:
		if !o.nilIsEmpty && a.IsNil() != b.IsNil() {
			return ": nil slice vs non-nil slice"
		}
		if a.Len() != b.Len() {
			return fmt.Sprintf(": length %d vs %d", a.Len(), b.Len())
		}
		for i := 0; i < a.Len(); i++ {
			if d := firstDiff(a.Index(i), b.Index(i), o); d != "" {
				return fmt.Sprintf("[%d]%s", i, d)
			}
		}
		return ""
	case reflect.Array:
		for i := 0; i < a.Len(); i++ {
			if d := firstDiff(a.Index(i), b.Index(i), o); d != "" {
				return fmt.Sprintf("[%d]%s", i, d)
			}
		}
		return ""
	case reflect.Map:
		if !o.nilIsEmpty && a.IsNil() != b.IsNil() {
			return ": nil map vs non-nil map"
		}
		if a.Len() != b.Len() {
			return fmt.Sprintf(": %d entries vs %d", a.Len(), b.Len())
		}
		it := a.MapRange()
		for it.Next() {
			bv := b.MapIndex(it.Key())
			if !bv.IsValid() {
				return fmt.Sprintf("[%v]: missing on one side", it.Key())
			}
			if d := firstDiff(it.Value(), bv, o); d != "" {
				return fmt.Sprintf("[%v]%s", it.Key(), d)
			}
		}
		return ""
	case reflect.Bool:
		if a.Bool() != b.Bool() {
			return fmt.Sprintf(": %v vs %v", a.Bool(), b.Bool())
		}
	case reflect.Int, reflect.Int8, reflect.Int16, reflect.Int32, reflect.Int64:
		if a.Int() != b.Int() {
			return fmt.Sprintf(": %d vs %d", a.Int(), b.Int())
		}
	case reflect.Uint, reflect.Uint8, reflect.Uint16, reflect.Uint32, reflect.Uint64, reflect.Uintptr:
		if a.Uint() != b.Uint() {
			return fmt.Sprintf(": %d vs %d", a.Uint(), b.Uint())
		}
	case reflect.Float32, reflect.Float64:
		if a.Float() != b.Float() {
			return fmt.Sprintf(": %v vs %v", a.Float(), b.Float())
		}
	case reflect.String:
		if a.String() != b.String() {
			return fmt.Sprintf(": %q vs %q", a.String(), b.String())
		}
	}
	return ""
}

func dynType(a, b reflect.Value) string {
	if !a.IsNil() {
		return a.Elem().Type().String()
	}
	return b.Elem().Type().String()
}

// diffAny compares two values held in interfaces (e.g. Action.Req of original and clone): the dynamic types must be
// identical (a value-typed request must stay value-typed).
func diffAny(a, b any, path string, o diffOpts) string {
	if (a == nil) != (b == nil) {
		return fmt.Sprintf("%s: %T vs %T", path, a, b)
	}
	if a == nil {
		return ""
	}
	if d := firstDiff(reflect.ValueOf(a), reflect.ValueOf(b), o); d != "" {
		return path + d
	}
	return ""
}

// strictDiff is the snapshot comparison: nothing ignored.
func strictDiff(a, b any, path string) string {
	return diffAny(a, b, path, diffOpts{})
}
