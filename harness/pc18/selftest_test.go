package pc18

// Hand-run sanity tests of the generator and the helpers (not part of the driver's run, which selects ^TestC18$):
//   cd /verif/harness && GOFLAGS=-mod=mod GOPROXY=off go test -tags verif ./pc18/ -run 'TestSelf' -v

import (
	"encoding/json"
	"reflect"
	"testing"

	"pgregory.net/rapid"
)

// TestSelfGeneratorSound: every generated definition, built fresh, is accepted by Submit (so a rejected clone can only
// be the clone's fault), every state class is a pure function of the case, and the case survives a JSON round trip.
func TestSelfGeneratorSound(t *testing.T) {
	rapid.Check(t, func(rt *rapid.T) {
		c := genCase(rt)
		fc := c
		fc.State = StateData{Class: stFresh}
		serr, setupErr := submit(build(fc))
		if setupErr != nil {
			rt.Skip(setupErr.Error())
		}
		if serr != nil {
			rt.Fatalf("fresh original rejected by Submit: %v", serr)
		}
		a, b := build(c), build(c)
		if d := strictDiff(a, b, "Plan"); d != "" || !reflect.DeepEqual(a, b) {
			rt.Fatalf("build not deterministic: %s", d)
		}
		raw, err := json.Marshal(c)
		if err != nil {
			rt.Fatalf("case not JSON encodable: %v", err)
		}
		var back Case
		if err := json.Unmarshal(raw, &back); err != nil {
			rt.Fatalf("case not JSON decodable: %v", err)
		}
		if d := strictDiff(a, build(back), "Plan"); d != "" {
			rt.Fatalf("JSON round trip of the case changes the plan: %s", d)
		}
		if _, _, ok := resolve(a, c.Target); !ok {
			rt.Fatalf("target %+v does not resolve", c.Target)
		}
	})
}

// TestSelfHelpers: the deep copier is faithful and independent; mutateAll changes what strictDiff sees; a shallow
// struct copy is flagged by the address scan.
func TestSelfHelpers(t *testing.T) {
	rapid.Check(t, func(rt *rapid.T) {
		c := genCase(rt)
		a := build(c)
		cp := deepCopy(a)
		if d := strictDiff(a, cp, "Plan"); d != "" {
			rt.Fatalf("deepCopy differs: %s", d)
		}
		if s := overlap(spansOf(a, "a"), spansOf(cp, "copy")); s != "" {
			rt.Fatalf("deepCopy shares memory: %s", s)
		}
		if n := mutateAll(reflect.ValueOf(cp), map[visitKey]bool{}); n == 0 {
			rt.Fatalf("nothing mutated")
		}
		if d := strictDiff(a, cp, "Plan"); d == "" {
			rt.Fatalf("mutation invisible to strictDiff")
		}
		if d := strictDiff(a, build(c), "Plan"); d != "" {
			rt.Fatalf("mutating the copy changed the source: %s", d)
		}
		shallow := *a
		if s := overlap(spansOf(a, "a"), spansOf(&shallow, "shallow")); s == "" {
			rt.Fatalf("shallow copy not detected by the address scan")
		}
	})
}
