package pc20

// C20 — Builder (pure lab, stateful).
//
// Statement (fixed, /verif/properties.jsonl):
//
//	"Any sequence of builder calls either yields exactly the plan that directly constructing the same hierarchy
//	would yield, or reports the first misuse (wrong level, duplicate check group, missing name, nil argument, use
//	after the plan was emitted) as an error that every later call and Plan() keep returning until Reset. It never
//	panics and never silently drops or misplaces an object."
//
// Package documentation of workflow/builder used for the error model: "This emits the Plan object or the first error
// encountered. All method calls after the first error will return the same error and are no-ops."
//
// A case is a plain-data BuilderProgram. Check interprets it twice: against the real builder (every call guarded by
// recover) and against the reference interpreter `interp` below, which constructs the hierarchy directly
// (workflow.Plan / Block literals, append) from its own twin copies of the caller objects. The builder methods return
// *BuildPlan, not an error, so "what a call returns" is observed with Err() after every call (plus the error results
// of New, Reset and Plan).
//
// Classification of a call by the reference (see interp.classify):
//   - misuse   : one of the misuses the statement lists, or an unknown check type (accepting it would "silently drop"
//     the Checks object). Must be reported.
//   - ok       : must be accepted and must land exactly where direct construction puts it.
//   - unfixed  : the statement does not fix whether this is a misuse (missing *description* / *plugin*, nil group id,
//     nil entries inside a pre-populated Actions slice, Plan() below the root level, Up() at the root). Not
//     judged: the reference follows what the real builder did (weaker reading) and labels it — but if the
//     builder reports an error, the sticky-error clause applies to that error as to any other, and if it
//     accepts the object, it must be placed right.
//   - sticky   : any call except New/Reset while the reference is in the error state: must be a no-op that keeps
//     returning the error of the first misuse (the same value, or an error that wraps it: sameErr).
//
// Corrections after the soundness audit (mutants/AUDIT-soundness-pure.md FA-6, FA-7, J-1; AUDIT-soundness.md N9):
//   - the plan is compared structurally only ("exactly the plan that directly constructing the same hierarchy would
//     yield"); whether it aliases the caller's objects is a label, not a verdict, and an object the caller supplied
//     may at the end equal its pre-call snapshot (builder copied it) or its reference twin (builder adopted it);
//   - Plan() below the root and Up() at the root are unfixed: the statement lists "wrong level" without saying which
//     call belongs to which level;
//   - "keep returning" is read as errors.Is (a wrapper around the first error still returns it); error values of a
//     non-comparable type are compared with reflect.DeepEqual instead of ==.

import (
	"errors"
	"fmt"
	"reflect"
	"sort"
	"strings"
	"testing"
	"time"

	"github.com/element-of-surprise/coercion/workflow"
	"github.com/element-of-surprise/coercion/workflow/builder"
	"pgregory.net/rapid"

	"verifharness/vprop"
)

// ---------------------------------------------------------------------------------------------------------------------
// the case: plain data

const (
	opNew         = "New"
	opReset       = "Reset"
	opAddChecks   = "AddChecks"
	opAddBlock    = "AddBlock"
	opAddSequence = "AddSequence"
	opAddAction   = "AddAction"
	opUp          = "Up"
	opPlan        = "Plan"
)

var allOps = []string{opNew, opReset, opAddChecks, opAddBlock, opAddSequence, opAddAction, opUp, opPlan}

// PreAct is one entry of a pre-populated Actions slice of a supplied Checks / Sequence (Nil: a nil entry).
type PreAct struct {
	Nil  bool   `json:"nil,omitempty"`
	Name string `json:"name,omitempty"`
}

// Call is one builder call with plain-data arguments. Fields that an op does not use are zero.
type Call struct {
	Op string `json:"op"`
	// Name/Descr: plan (New, Reset), block, sequence, action. "" = missing. Whitespace-only is never generated
	// (the statement does not say whether that counts as missing).
	Name  string `json:"name,omitempty"`
	Descr string `json:"descr,omitempty"`
	// Plugin: AddAction.
	Plugin string `json:"plugin,omitempty"`
	// NilArg: AddChecks / AddSequence / AddAction are called with a nil pointer.
	NilArg bool `json:"nil_arg,omitempty"`
	// CType: AddChecks check type as an integer (valid 1..5; 0 = CTUnknown; others unknown).
	CType int `json:"ctype,omitempty"`
	// Group: New / Reset option. 0 none, 1 WithGroupID(valid id), 2 WithGroupID(uuid.Nil).
	Group int `json:"group,omitempty"`
	// Pre: pre-populated Actions of the supplied Checks / Sequence; with no entries PreEmpty selects an empty non-nil
	// slice instead of nil.
	Pre      []PreAct `json:"pre,omitempty"`
	PreEmpty bool     `json:"pre_empty,omitempty"`
	// PreCap: spare capacity of that Actions slice (cap = len + PreCap), as a slice built with append usually has.
	PreCap int `json:"pre_cap,omitempty"`
	// Reuse: 0 = the call is handed a new object; k > 0 = it is handed the very object (same pointer) that call k-1
	// (same op) was handed — a caller keeping one template Sequence / Checks / Action. The object fields of the call
	// (name, descr, plugin, pre, key, ...) then repeat those of call k-1. Honoured only if call k-1 supplied a new
	// object of this kind to the plan under construction (since the last successful New/Reset) and was accepted;
	// otherwise a new object with the same content is used (see runner.origin). AddBlock takes its arguments by value,
	// so there is no Block object to reuse.
	Reuse int `json:"reuse,omitempty"`
	// Key (0 = uuid.Nil) of block / sequence / action / checks; block arguments.
	Key        int `json:"key,omitempty"`
	Conc       int `json:"conc,omitempty"`
	Tol        int `json:"tol,omitempty"`
	EntranceMs int `json:"entrance_ms,omitempty"`
	ExitMs     int `json:"exit_ms,omitempty"`
}

// BuilderProgram is the case value: the calls are applied in order to "the builder variable" (New replaces it when it
// succeeds; calls before the first successful New are skipped because there is nothing to call them on).
type BuilderProgram struct {
	Calls []Call `json:"calls"`
}

func render(c Call) string {
	var b strings.Builder
	b.WriteString(c.Op)
	b.WriteByte('(')
	switch c.Op {
	case opNew, opReset:
		fmt.Fprintf(&b, "%q,%q", c.Name, c.Descr)
		if c.Group == 1 {
			b.WriteString(",group")
		} else if c.Group == 2 {
			b.WriteString(",group=Nil")
		}
	case opAddChecks:
		fmt.Fprintf(&b, "ct=%d", c.CType)
		if c.NilArg {
			b.WriteString(",nil")
		} else {
			fmt.Fprintf(&b, ",pre=%s%s", renderPre(c), renderReuse(c))
		}
	case opAddBlock:
		fmt.Fprintf(&b, "%q,%q", c.Name, c.Descr)
	case opAddSequence:
		if c.NilArg {
			b.WriteString("nil")
		} else {
			fmt.Fprintf(&b, "%q,%q,pre=%s%s", c.Name, c.Descr, renderPre(c), renderReuse(c))
		}
	case opAddAction:
		if c.NilArg {
			b.WriteString("nil")
		} else {
			fmt.Fprintf(&b, "%q,%q,%q%s", c.Name, c.Descr, c.Plugin, renderReuse(c))
		}
	}
	b.WriteByte(')')
	return b.String()
}

func renderReuse(c Call) string {
	if c.Reuse > 0 {
		return fmt.Sprintf(",same-object-as-call-%d", c.Reuse-1)
	}
	return ""
}

func renderPre(c Call) string {
	if len(c.Pre) == 0 {
		if c.PreCap > 0 {
			return fmt.Sprintf("[]cap%d", c.PreCap)
		}
		if c.PreEmpty {
			return "[]"
		}
		return "nil"
	}
	s := make([]string, len(c.Pre))
	for i, p := range c.Pre {
		if p.Nil {
			s[i] = "nil"
		} else {
			s[i] = p.Name
		}
	}
	if c.PreCap > 0 {
		return fmt.Sprintf("[%s]cap+%d", strings.Join(s, " "), c.PreCap)
	}
	return "[" + strings.Join(s, " ") + "]"
}

// ---------------------------------------------------------------------------------------------------------------------
// materialising the caller's objects (done twice per call: once for the real builder, once for the reference)

// uuidOf maps a small integer to a 16-byte id (0 = the nil UUID). [16]byte is assignable to uuid.UUID.
func uuidOf(k int) [16]byte {
	var u [16]byte
	if k == 0 {
		return u
	}
	for i := range u {
		u[i] = byte(k*17 + i)
	}
	u[6] = (u[6] & 0x0f) | 0x70
	u[8] = (u[8] & 0x3f) | 0x80
	return u
}

const groupKey = 99

type args struct {
	checks *workflow.Checks
	seq    *workflow.Sequence
	action *workflow.Action
}

func preActions(c Call) []*workflow.Action {
	extra := c.PreCap
	if extra < 0 || extra > 8 {
		extra = 0
	}
	if len(c.Pre) == 0 {
		if extra > 0 {
			return make([]*workflow.Action, 0, extra)
		}
		if c.PreEmpty {
			return []*workflow.Action{}
		}
		return nil
	}
	out := make([]*workflow.Action, 0, len(c.Pre)+extra)
	for _, p := range c.Pre {
		if p.Nil {
			out = append(out, nil)
			continue
		}
		out = append(out, &workflow.Action{Name: p.Name, Descr: "pre " + p.Name, Plugin: "plug"})
	}
	return out
}

func materialize(c Call) args {
	var a args
	switch c.Op {
	case opAddChecks:
		if !c.NilArg {
			a.checks = &workflow.Checks{Key: uuidOf(c.Key), Delay: time.Duration(c.EntranceMs) * time.Millisecond, Actions: preActions(c)}
		}
	case opAddSequence:
		if !c.NilArg {
			a.seq = &workflow.Sequence{Key: uuidOf(c.Key), Name: c.Name, Descr: c.Descr, Actions: preActions(c)}
		}
	case opAddAction:
		if !c.NilArg {
			a.action = &workflow.Action{Key: uuidOf(c.Key), Name: c.Name, Descr: c.Descr, Plugin: c.Plugin, Retries: c.Tol, Timeout: time.Duration(c.ExitMs) * time.Second}
		}
	}
	return a
}

func blockArgs(c Call) builder.BlockArgs {
	return builder.BlockArgs{
		Key: uuidOf(c.Key), Name: c.Name, Descr: c.Descr,
		EntranceDelay: time.Duration(c.EntranceMs) * time.Millisecond, ExitDelay: time.Duration(c.ExitMs) * time.Millisecond,
		Concurrency: c.Conc, ToleratedFailures: c.Tol,
	}
}

func options(c Call) []builder.Option {
	switch c.Group {
	case 1:
		return []builder.Option{builder.WithGroupID(uuidOf(groupKey))}
	case 2:
		return []builder.Option{builder.WithGroupID(uuidOf(0))}
	}
	return nil
}

// ---------------------------------------------------------------------------------------------------------------------
// the reference interpreter

type vkind int

const (
	vSkip    vkind = iota // no builder exists yet: the call cannot be made
	vOK                   // must be accepted
	vMisuse               // a misuse the statement lists: must be reported
	vUnfixed              // classification not fixed by the statement: follow the real outcome, label it
	vSticky               // call in the error state: no-op, the first error stays
)

type verdict struct {
	kind vkind
	why  string
}

// interp is the reference: it constructs the hierarchy directly. It is also run inside the generator (with a predicted
// outcome for unfixed calls) to bias the draw towards valid continuations.
type interp struct {
	have         bool // a builder exists
	emitted      bool // Plan() succeeded since the last successful New/Reset
	inErr        bool // a misuse happened since the last successful New/Reset
	errAfterEmit bool // ... and it was a use after emission
	plan         *workflow.Plan
	stack        []any // *workflow.Plan, *workflow.Block, *workflow.Sequence, *workflow.Checks
	// planC / stackC: the same hierarchy under the other acceptable meaning of handing one object to several calls.
	// plan ("adopt") holds the caller's one object at every position it was added to, which is literally what direct
	// construction with the same pointer yields: what is added at one position shows at all of them. planC ("copy")
	// holds at every position an independent copy of the object as the caller made it, plus what was added at that
	// position. The statement does not choose (after FA-6 a builder may adopt or copy its arguments); the shapes of the
	// two trees are always identical and without reuse so are their contents.
	planC  *workflow.Plan
	stackC []any
	// cands: per op, the calls that handed a new object to the plan under construction and were accepted — the
	// objects a later call of this plan may be handed again.
	cands map[string][]int
}

func (in *interp) topC() any {
	if len(in.stackC) == 0 {
		return nil
	}
	return in.stackC[len(in.stackC)-1]
}

func (in *interp) top() any {
	if len(in.stack) == 0 {
		return nil
	}
	return in.stack[len(in.stack)-1]
}

// slot returns the field of a Plan or Block that holds the check group of type ct, nil for an unknown type or another
// object. The builder's exported constants name the groups.
func slot(o any, ct int) **workflow.Checks {
	switch t := o.(type) {
	case *workflow.Plan:
		switch builder.ChecksType(ct) {
		case builder.BypassChecks:
			return &t.BypassChecks
		case builder.PreChecks:
			return &t.PreChecks
		case builder.ContChecks:
			return &t.ContChecks
		case builder.PostChecks:
			return &t.PostChecks
		case builder.DeferredChecks:
			return &t.DeferredChecks
		}
	case *workflow.Block:
		switch builder.ChecksType(ct) {
		case builder.BypassChecks:
			return &t.BypassChecks
		case builder.PreChecks:
			return &t.PreChecks
		case builder.ContChecks:
			return &t.ContChecks
		case builder.PostChecks:
			return &t.PostChecks
		case builder.DeferredChecks:
			return &t.DeferredChecks
		}
	}
	return nil
}

var validCTypes = []int{int(builder.BypassChecks), int(builder.PreChecks), int(builder.ContChecks), int(builder.PostChecks), int(builder.DeferredChecks)}

func validCType(ct int) bool {
	for _, v := range validCTypes {
		if v == ct {
			return true
		}
	}
	return false
}

func hasNilPre(c Call) bool {
	for _, p := range c.Pre {
		if p.Nil {
			return true
		}
	}
	return false
}

func (in *interp) classify(c Call) verdict {
	switch c.Op {
	case opNew, opReset:
		if c.Op == opReset && !in.have {
			return verdict{kind: vSkip}
		}
		switch {
		case c.Name == "":
			return verdict{vMisuse, "missing-name"} // "missing name"
		case c.Descr == "":
			return verdict{vUnfixed, "missing-descr"}
		case c.Group == 2:
			return verdict{vUnfixed, "nil-group-id"}
		}
		return verdict{kind: vOK}
	case opAddChecks, opAddBlock, opAddSequence, opAddAction, opUp, opPlan:
	default:
		return verdict{kind: vSkip}
	}
	if !in.have {
		return verdict{kind: vSkip}
	}
	if in.inErr {
		return verdict{kind: vSticky} // "an error that every later call and Plan() keep returning until Reset"
	}
	if in.emitted {
		return verdict{vMisuse, "after-emit"} // "use after the plan was emitted"
	}
	top := in.top()
	switch c.Op {
	case opAddChecks:
		if c.NilArg {
			return verdict{vMisuse, "nil-arg"} // "nil argument"
		}
		switch top.(type) {
		case *workflow.Plan, *workflow.Block:
		default:
			return verdict{vMisuse, "wrong-level"} // "wrong level"
		}
		if !validCType(c.CType) {
			// not listed by name, but accepting it would "silently drop" the object
			return verdict{vMisuse, "unknown-ctype"}
		}
		if *slot(top, c.CType) != nil {
			return verdict{vMisuse, "duplicate-group"} // "duplicate check group"
		}
		if hasNilPre(c) {
			return verdict{vUnfixed, "nil-pre-action"}
		}
	case opAddBlock:
		if c.Name == "" {
			return verdict{vMisuse, "missing-name"}
		}
		if _, ok := top.(*workflow.Plan); !ok {
			return verdict{vMisuse, "wrong-level"}
		}
		if c.Descr == "" {
			return verdict{vUnfixed, "missing-descr"}
		}
	case opAddSequence:
		if c.NilArg {
			return verdict{vMisuse, "nil-arg"}
		}
		if c.Name == "" {
			return verdict{vMisuse, "missing-name"}
		}
		if _, ok := top.(*workflow.Block); !ok {
			return verdict{vMisuse, "wrong-level"}
		}
		if c.Descr == "" {
			return verdict{vUnfixed, "missing-descr"}
		}
		if hasNilPre(c) {
			return verdict{vUnfixed, "nil-pre-action"}
		}
	case opAddAction:
		if c.NilArg {
			return verdict{vMisuse, "nil-arg"}
		}
		if c.Name == "" {
			return verdict{vMisuse, "missing-name"}
		}
		switch top.(type) {
		case *workflow.Sequence, *workflow.Checks:
		default:
			return verdict{vMisuse, "wrong-level"}
		}
		if c.Descr == "" || c.Plugin == "" {
			return verdict{vUnfixed, "missing-descr"}
		}
	case opUp:
		if len(in.stack) < 2 {
			// Nothing above the plan. "wrong level" may or may not be meant to cover this (a builder that ignores the
			// call drops and misplaces nothing): follow the builder.
			return verdict{vUnfixed, "up-at-root"}
		}
	case opPlan:
		if len(in.stack) > 1 {
			// The statement does not say at which level Plan() is legal (FA-7): a builder may emit the plan from
			// anywhere (today's code) or demand Up() to the root first and report "wrong level".
			return verdict{vUnfixed, "plan-below-root"}
		}
	}
	return verdict{kind: vOK}
}

func (in *interp) fresh(c Call) {
	p, pc := &workflow.Plan{Name: c.Name, Descr: c.Descr}, &workflow.Plan{Name: c.Name, Descr: c.Descr}
	if c.Group == 1 {
		p.GroupID, pc.GroupID = uuidOf(groupKey), uuidOf(groupKey)
	}
	*in = interp{have: true, plan: p, stack: []any{p}, planC: pc, stackC: []any{pc}}
}

// apply advances the reference by one call whose outcome (accepted / reported as an error) is known. a holds the
// reference twin of the caller's object (one per object, shared by all calls that are handed that object), ac a copy of
// the object as the caller made it, private to this call; idx is the index of the call.
func (in *interp) apply(c Call, a, ac args, v verdict, accepted bool, idx int) {
	if v.kind == vSkip || v.kind == vSticky {
		return
	}
	switch c.Op {
	case opNew:
		if accepted {
			in.fresh(c)
		}
		// a failed New returns no builder: the variable keeps the previous builder, untouched
		return
	case opReset:
		if accepted {
			in.fresh(c)
		} else {
			// the tree of a builder in the error state cannot be observed; only the error state matters
			*in = interp{have: true, inErr: true}
		}
		return
	}
	if !accepted {
		in.inErr, in.errAfterEmit = true, in.emitted
		return
	}
	top, topC := in.top(), in.topC()
	if c.Reuse == 0 && (c.Op == opAddChecks || c.Op == opAddSequence || c.Op == opAddAction) {
		if in.cands == nil {
			in.cands = map[string][]int{}
		}
		in.cands[c.Op] = append(in.cands[c.Op], idx)
	}
	switch c.Op {
	case opAddChecks:
		*slot(top, c.CType) = a.checks
		in.stack = append(in.stack, a.checks)
		*slot(topC, c.CType) = ac.checks
		in.stackC = append(in.stackC, ac.checks)
	case opAddBlock:
		ba := blockArgs(c)
		mk := func() *workflow.Block {
			return &workflow.Block{
				Key: ba.Key, Name: ba.Name, Descr: ba.Descr, EntranceDelay: ba.EntranceDelay, ExitDelay: ba.ExitDelay,
				Concurrency: ba.Concurrency, ToleratedFailures: ba.ToleratedFailures,
			}
		}
		p, blk := top.(*workflow.Plan), mk()
		p.Blocks = append(p.Blocks, blk)
		in.stack = append(in.stack, blk)
		pc, blkC := topC.(*workflow.Plan), mk()
		pc.Blocks = append(pc.Blocks, blkC)
		in.stackC = append(in.stackC, blkC)
	case opAddSequence:
		b := top.(*workflow.Block)
		b.Sequences = append(b.Sequences, a.seq)
		in.stack = append(in.stack, a.seq)
		bc := topC.(*workflow.Block)
		bc.Sequences = append(bc.Sequences, ac.seq)
		in.stackC = append(in.stackC, ac.seq)
	case opAddAction:
		// an Action has nothing below it and is never written to: the twin serves both trees
		for _, t := range []any{top, topC} {
			switch t := t.(type) {
			case *workflow.Sequence:
				t.Actions = append(t.Actions, a.action)
			case *workflow.Checks:
				t.Actions = append(t.Actions, a.action)
			}
		}
	case opUp:
		if len(in.stack) > 1 { // an accepted Up() at the root (unfixed) leaves the position at the root
			in.stack = in.stack[:len(in.stack)-1]
			in.stackC = in.stackC[:len(in.stackC)-1]
		}
	case opPlan:
		in.emitted = true
	}
}

// ---------------------------------------------------------------------------------------------------------------------
// generator

// rawCall is the state-independent material of one call; resolve() turns it into a Call given the reference state, so
// that the list can be drawn with rapid.SliceOfN (which shrinks by deleting elements).
type rawCall struct {
	// Mode: 0 = a valid continuation for the reference state with valid arguments; 1 = a valid continuation with one
	// injected defect (Defect); 2 = an arbitrary op with arbitrary arguments.
	// ModeDraw in [0,20) is turned into Mode by setMode with the invalid-call rate of the program.
	ModeDraw, Mode, Defect             int
	Pick, CPick                        int
	Op                                 string
	NoName, NoDescr, NoPlugin, NilArg  bool
	NilGroup                           bool
	CType, Group                       int
	Pre                                []PreAct
	PreEmpty                           bool
	PreCap                             int
	Key, Conc, Tol, EntranceMs, ExitMs int
	// Reuse: hand the call an object an earlier call of this plan was handed (ReusePick selects which), if there is one.
	Reuse     bool
	ReusePick int
}

const (
	modeValid = iota
	modeDefect
	modeArbitrary
)

const (
	defNoName  = iota // "missing name"
	defNilArg         // "nil argument"
	defCType          // "duplicate check group" if one is in use, else an arbitrary (mostly unknown) check type
	defUnfixed        // missing description / plugin, nil group id, nil pre-populated entries: not fixed by the statement
	nDefects
)

// chance is true with probability outOf10/10; it shrinks towards false.
func chance(t *rapid.T, label string, outOf10 int) bool {
	return rapid.IntRange(0, 9).Draw(t, label) >= 10-outOf10
}

var rawGen = rapid.Custom(func(t *rapid.T) rawCall {
	r := rawCall{
		Pick:     rapid.IntRange(0, 999).Draw(t, "pick"),
		CPick:    rapid.IntRange(0, 4).Draw(t, "cpick"),
		Op:       rapid.SampledFrom(allOps).Draw(t, "op"),
		Defect:   rapid.IntRange(0, nDefects-1).Draw(t, "defect"),
		NoName:   chance(t, "noName", 2),
		NoDescr:  chance(t, "noDescr", 1),
		NoPlugin: chance(t, "noPlugin", 1),
		NilArg:   chance(t, "nilArg", 2),
		NilGroup: chance(t, "nilGroup", 1),
		CType:    rapid.IntRange(-1, 7).Draw(t, "ctype"),
		Group:    rapid.IntRange(0, 1).Draw(t, "group"),
		Key:      rapid.IntRange(0, 3).Draw(t, "key"),
		Conc:     rapid.IntRange(-1, 4).Draw(t, "conc"),
		Tol:      rapid.IntRange(-1, 3).Draw(t, "tol"),
	}
	r.ModeDraw = rapid.IntRange(0, 19).Draw(t, "mode")
	r.EntranceMs = rapid.IntRange(0, 2).Draw(t, "entrance")
	r.ExitMs = rapid.IntRange(0, 2).Draw(t, "exit")
	n := rapid.IntRange(0, 3).Draw(t, "npre")
	for i := 0; i < n; i++ {
		r.Pre = append(r.Pre, PreAct{Nil: chance(t, "preNil", 2)})
	}
	if n == 0 {
		r.PreEmpty = rapid.Bool().Draw(t, "preEmpty")
	}
	// spare capacity in the Actions slice of the argument (what append leaves behind), in half of the objects
	if rapid.Bool().Draw(t, "spare") {
		r.PreCap = rapid.IntRange(1, 3).Draw(t, "preCap")
	}
	r.Reuse = chance(t, "reuse", 3)
	r.ReusePick = rapid.IntRange(0, 39).Draw(t, "reusePick")
	return r
})

// setMode: with rate r in 0..3 a call is arbitrary with p = r/20 and carries one defect with p = 2r/20 (so p(valid
// continuation) is 1, 0.85, 0.7 or 0.55 per call; programs with rate 0 grow undisturbed trees). Shrinks towards valid.
func (r *rawCall) setMode(rate int) {
	switch {
	case r.ModeDraw >= 20-rate:
		r.Mode = modeArbitrary
	case r.ModeDraw >= 20-3*rate:
		r.Mode = modeDefect
	default:
		r.Mode = modeValid
	}
}

type weighted struct {
	op string
	w  int
}

func pickWeighted(ws []weighted, pick int) string {
	total := 0
	for _, w := range ws {
		total += w.w
	}
	x := pick % total
	for _, w := range ws {
		if x < w.w {
			return w.op
		}
		x -= w.w
	}
	return ws[len(ws)-1].op
}

func ctypesOf(top any, used bool) []int {
	var out []int
	for _, ct := range validCTypes {
		if s := slot(top, ct); s != nil && (*s != nil) == used {
			out = append(out, ct)
		}
	}
	return out
}

// continuations lists the ops that make sense in the reference state (valid ones when the state is clean; in the error
// and emitted states every op is a misuse / no-op, Reset being the way out), with weights that favour growing the tree.
func continuations(in *interp) []weighted {
	switch {
	case in.inErr:
		return []weighted{{opReset, 5}, {opPlan, 2}, {opUp, 1}, {opAddBlock, 1}, {opAddSequence, 1}, {opAddAction, 1}, {opAddChecks, 1}}
	case in.emitted:
		return []weighted{{opReset, 6}, {opPlan, 2}, {opUp, 1}, {opAddBlock, 1}, {opAddSequence, 1}, {opAddAction, 1}, {opAddChecks, 1}, {opNew, 1}}
	}
	top := in.top()
	free := len(ctypesOf(top, false)) > 0
	var ws []weighted
	switch top.(type) {
	case *workflow.Plan:
		ws = []weighted{{opAddBlock, 12}, {opPlan, 2}, {opReset, 1}}
		if free {
			ws = append(ws, weighted{opAddChecks, 4})
		}
	case *workflow.Block:
		ws = []weighted{{opAddSequence, 10}, {opUp, 5}}
		if free {
			ws = append(ws, weighted{opAddChecks, 3})
		}
	case *workflow.Sequence:
		ws = []weighted{{opAddAction, 5}, {opUp, 6}}
	case *workflow.Checks:
		ws = []weighted{{opAddAction, 4}, {opUp, 8}}
	}
	return ws
}

// resolve makes the i-th call from raw material and the reference state before the call.
func resolve(r rawCall, in *interp, i int, prev []Call) Call {
	c := Call{Op: r.Op}
	arbitrary := r.Mode == modeArbitrary
	switch {
	case !in.have:
		c.Op = opNew // nothing else can be called before a builder exists
	case !arbitrary:
		c.Op = pickWeighted(continuations(in), r.Pick)
	}

	// valid arguments first
	name, descr, plugin := fmt.Sprintf("n%d", i), fmt.Sprintf("d%d", i), fmt.Sprintf("p%d", i)
	group, nilArg, keepNilPre := r.Group, false, false
	ctype := validCTypes[r.CPick%len(validCTypes)]
	if free := ctypesOf(in.top(), false); len(free) > 0 {
		ctype = free[r.CPick%len(free)]
	}
	switch r.Mode {
	case modeArbitrary:
		if r.NoName {
			name = ""
		}
		if r.NoDescr {
			descr = ""
		}
		if r.NoPlugin {
			plugin = ""
		}
		if r.NilGroup {
			group = 2
		}
		nilArg, keepNilPre, ctype = r.NilArg, true, r.CType
	case modeDefect:
		// in the clean state the defect selects an op it applies to (valid for the current level)
		clean := in.have && !in.inErr && !in.emitted
		byLevel := func() string {
			switch in.top().(type) {
			case *workflow.Plan:
				return opAddBlock
			case *workflow.Block:
				return opAddSequence
			}
			return opAddAction
		}
		switch r.Defect {
		case defNoName:
			name = ""
			if clean && (c.Op == opUp || c.Op == opPlan || c.Op == opAddChecks) {
				c.Op = byLevel()
			}
		case defNilArg:
			nilArg = true
			if clean && c.Op != opAddChecks && c.Op != opAddSequence && c.Op != opAddAction {
				if c.Op = byLevel(); c.Op == opAddBlock {
					c.Op = opAddChecks
				}
			}
		case defCType:
			ctype = r.CType
			if used := ctypesOf(in.top(), true); len(used) > 0 {
				ctype = used[r.CPick%len(used)]
				if clean {
					c.Op = opAddChecks
				}
			}
		case defUnfixed:
			keepNilPre = true
			switch {
			case c.Op == opNew || c.Op == opReset:
				if r.NoDescr {
					descr = ""
				} else {
					group = 2
				}
			case c.Op == opAddAction && r.Pick%2 == 0:
				plugin = ""
			case len(r.Pre) == 0 || c.Op == opAddBlock || c.Op == opAddAction:
				descr = ""
			}
		}
	}

	pre := func() {
		for j, p := range r.Pre {
			if p.Nil && !keepNilPre {
				continue
			}
			pa := PreAct{Nil: p.Nil}
			if !p.Nil {
				pa.Name = fmt.Sprintf("n%d.%d", i, j)
			}
			c.Pre = append(c.Pre, pa)
		}
		if len(c.Pre) == 0 {
			c.PreEmpty = r.PreEmpty
		}
		c.PreCap = r.PreCap
	}
	// Argument reuse (valid continuations only): the caller keeps one template object and hands it to several calls of
	// the plan it is building. The most recent objects are preferred, so that "AddSequence(tmpl), AddAction, Up,
	// AddSequence(tmpl), AddAction" is common.
	if r.Mode == modeValid && r.Reuse && in.have && !in.inErr && !in.emitted {
		if cands := in.cands[c.Op]; len(cands) > 0 {
			k := r.ReusePick % (2 * len(cands))
			if k >= len(cands) {
				k = len(cands) - 1 - (k-len(cands))/2 // bias to the later ones
			}
			o := cands[k]
			c = withObjectOf(c, prev[o])
			c.Reuse = o + 1
			if c.Op == opAddChecks {
				c.CType = ctype
			}
			return c
		}
	}
	switch c.Op {
	case opNew, opReset:
		c.Name, c.Descr, c.Group = name, descr, group
	case opAddChecks:
		c.CType, c.NilArg = ctype, nilArg
		if !c.NilArg {
			c.Key, c.EntranceMs = r.Key, r.EntranceMs
			pre()
		}
	case opAddBlock:
		c.Name, c.Descr, c.Key, c.Conc, c.Tol, c.EntranceMs, c.ExitMs = name, descr, r.Key, r.Conc, r.Tol, r.EntranceMs, r.ExitMs
	case opAddSequence:
		c.NilArg = nilArg
		if !c.NilArg {
			c.Name, c.Descr, c.Key = name, descr, r.Key
			pre()
		}
	case opAddAction:
		c.NilArg = nilArg
		if !c.NilArg {
			c.Name, c.Descr, c.Plugin, c.Key, c.Tol, c.ExitMs = name, descr, plugin, r.Key, r.Tol, r.ExitMs
		}
	}
	return c
}

// predicted outcome of an unfixed call, used only to steer the generator (observed behaviour of the code under test;
// being wrong here costs bias, never soundness).
func predictAccepted(c Call, v verdict) bool {
	switch v.kind {
	case vOK:
		return true
	case vUnfixed:
		return v.why == "plan-below-root" || (v.why == "nil-pre-action" && c.Op == opAddSequence)
	}
	return false
}

func genProgram(t *rapid.T) BuilderProgram {
	// rapid's slice length is min + a geometric tail (mean about max(min, 5)): a drawn minimum mixes many short programs
	// with enough long ones to build trees with several blocks and sequences (at most 40 calls incl. the final Up()s and Plan)
	minLen := rapid.IntRange(1, 12).Draw(t, "minLen")
	raws := rapid.SliceOfN(rawGen, minLen, 37).Draw(t, "calls")
	rate := rapid.IntRange(0, 3).Draw(t, "invalidRate")
	in := &interp{}
	p := BuilderProgram{}
	for i, r := range raws {
		r.setMode(rate)
		c := resolve(r, in, i, p.Calls)
		p.Calls = append(p.Calls, c)
		v := in.classify(c)
		in.apply(c, materialize(c), materialize(c), v, predictAccepted(c, v), i)
	}
	// Most programs end by asking for the plan, so that the tree (or the sticky error) is observed: 1 = Plan() wherever
	// the program stands (below the root its legality is not fixed by the statement), 2..3 = Up() to the root first,
	// which is the documented way (package example) and is judged strictly.
	if fp := rapid.IntRange(0, 3).Draw(t, "finalPlan"); fp > 0 {
		if fp > 1 && in.have && !in.inErr && !in.emitted {
			for d := len(in.stack); d > 1; d-- {
				p.Calls = append(p.Calls, Call{Op: opUp})
			}
		}
		p.Calls = append(p.Calls, Call{Op: opPlan})
	}
	return p
}

// ---------------------------------------------------------------------------------------------------------------------
// executing and judging

type emittedRec struct {
	got, want, wantC *workflow.Plan // want: reference tree ("adopt" reading of reuse), wantC: "copy" reading
	at               int
}

type suppliedRec struct {
	// real is what the builder was handed, ref the reference twin (grown by the reference), snap a third copy that
	// nobody touches: the state of the object before the call.
	ref, real, snap args
	at              int
}

type runner struct {
	res      *vprop.Result
	labels   map[string]bool
	b        *builder.BuildPlan
	in       interp
	sticky   error       // error value of the first misuse since the last successful New/Reset
	pairs    map[any]any // reference twin -> object supplied to the real builder (for the aliasing label only)
	holds    int         // objects of emitted plans that are the caller's own objects
	copies   int         // ... that are equal copies of them
	emitted  []emittedRec
	supplied []*suppliedRec
	calls    []Call
	misuses  int
	seqDepth bool // the reference reached plan > block > sequence
	// argument reuse
	objs        map[int]*suppliedRec // by the index of the call that first handed the object in
	grownAt     map[int]map[any]bool // origin call -> positions (copy-tree objects) of that object that received an AddAction
	copyMatches int                  // positions of emitted plans that equal the copy reading but not the adopt reading
	posOrigin   map[any]int          // copy-tree Checks/Sequence object (= one position) -> origin call of the object there
	reuseGrown  bool                 // current plan: an object handed to two calls grew at both positions
}

// origin returns the index of the call whose object call i is handed again, or -1 when call i gets a new object.
// Reuse is honoured only for an object that was handed, as a new object, to an accepted call of the same op on the plan
// under construction: across a Reset/New the caller's own aliasing could change a plan that was already emitted, and
// what the statement says about that is nothing.
func (r *runner) origin(c Call) int {
	if c.Reuse <= 0 || c.NilArg {
		return -1
	}
	o := c.Reuse - 1
	for _, k := range r.in.cands[c.Op] {
		if k == o && r.objs[o] != nil {
			return o
		}
	}
	return -1
}

// withObjectOf gives call c the object fields of the call that first supplied the object (they describe the object;
// generated programs already repeat them).
func withObjectOf(c, o Call) Call {
	c.Name, c.Descr, c.Plugin, c.Pre, c.PreEmpty, c.PreCap, c.Key = o.Name, o.Descr, o.Plugin, o.Pre, o.PreEmpty, o.PreCap, o.Key
	switch c.Op {
	case opAddChecks:
		c.EntranceMs = o.EntranceMs
	case opAddAction:
		c.Tol, c.ExitMs = o.Tol, o.ExitMs
	}
	return c
}

func (r *runner) label(l string) { r.labels[l] = true }

// guard runs f and returns the recovered panic value (nil if none) — "It never panics".
func guard(f func()) (p any) {
	defer func() {
		if x := recover(); x != nil {
			p = fmt.Sprintf("%v", x)
		}
	}()
	f()
	return nil
}

// sameErr reports whether got "keeps returning" the error first: the same value (==, which errors.Is applies only to
// comparable dynamic types, so nothing can panic) or an error that wraps it (J-1: a wrapper such as
// fmt.Errorf("builder.Plan(): %w", first) still returns the first error in the errors.Is sense). Values of a
// non-comparable dynamic type (N9, e.g. a struct holding a slice) are compared with reflect.DeepEqual. Distinct
// comparable values (two errors.New with the same text) stay different.
func sameErr(got, first error) (eq bool) {
	if got == nil || first == nil {
		return got == nil && first == nil
	}
	deep := func() bool {
		return !reflect.TypeOf(first).Comparable() && reflect.DeepEqual(got, first)
	}
	defer func() {
		// a comparable struct type can still hold an interface with a non-comparable value: no alarm from that
		if recover() != nil {
			eq = reflect.DeepEqual(got, first)
		}
	}()
	return errors.Is(got, first) || deep()
}

// related: the error result of a call (Reset, Plan) and Err() right after it are the same report when either is, or
// wraps, the other.
func related(a, b error) bool { return sameErr(a, b) || sameErr(b, a) }

func (r *runner) pair(ref, real args) {
	pairActs := func(rs, ls []*workflow.Action) {
		for i := range rs {
			if rs[i] != nil && i < len(ls) {
				r.pairs[rs[i]] = ls[i]
			}
		}
	}
	if ref.checks != nil {
		r.pairs[ref.checks] = real.checks
		pairActs(ref.checks.Actions, real.checks.Actions)
	}
	if ref.seq != nil {
		r.pairs[ref.seq] = real.seq
		pairActs(ref.seq.Actions, real.seq.Actions)
	}
	if ref.action != nil {
		r.pairs[ref.action] = real.action
	}
}

func (r *runner) stateClass(c Call) string {
	switch {
	case c.NilArg && (c.Op == opAddChecks || c.Op == opAddSequence || c.Op == opAddAction):
		return "nil-arg"
	case r.in.inErr && r.in.plan == nil:
		return "after-failed-reset"
	case r.in.inErr && r.in.errAfterEmit:
		return "after-emit"
	case r.in.inErr:
		return "in-error"
	case r.in.emitted:
		return "emitted"
	}
	return "clean"
}

func stickyRule(got error, class string) string {
	if got == nil {
		return "C20/sticky:cleared:" + class
	}
	return "C20/sticky:replaced:" + class
}

// step executes call i against the real builder and the reference; it returns true when the program must stop
// (a violation was recorded: the state of the builder is no longer defined by the statement).
func (r *runner) step(i int, c Call) bool {
	org := r.origin(c)
	if org >= 0 {
		c = withObjectOf(c, r.calls[org])
	} else {
		c.Reuse = 0
	}
	v := r.in.classify(c)
	if v.kind == vSkip {
		r.label("skipped:no-builder")
		return false
	}
	// real: what the builder is handed; ref: its reference twin; cpy: a copy private to this call (copy reading)
	var real, ref args
	cpy := materialize(c)
	if org >= 0 {
		real, ref = r.objs[org].real, r.objs[org].ref
	} else {
		real, ref = materialize(c), materialize(c)
		r.pair(ref, real)
		rec := &suppliedRec{ref: ref, real: real, snap: materialize(c), at: i}
		r.supplied = append(r.supplied, rec)
		r.objs[i] = rec
		org = i
	}
	class := r.stateClass(c)

	var (
		nb      *builder.BuildPlan
		ret     error
		gotPlan *workflow.Plan
	)
	if p := guard(func() {
		switch c.Op {
		case opNew:
			nb, ret = builder.New(c.Name, c.Descr, options(c)...)
		case opReset:
			ret = r.b.Reset(c.Name, c.Descr, options(c)...)
		case opAddChecks:
			r.b.AddChecks(builder.ChecksType(c.CType), real.checks)
		case opAddBlock:
			r.b.AddBlock(blockArgs(c))
		case opAddSequence:
			r.b.AddSequence(real.seq)
		case opAddAction:
			r.b.AddAction(real.action)
		case opUp:
			r.b.Up()
		case opPlan:
			gotPlan, ret = r.b.Plan()
		}
	}); p != nil {
		// "It never panics"
		r.res.Fail("C20/panic:"+c.Op+":"+class, "call %d %s panicked (reference state: %s): %v", i, render(c), class, p)
		return true
	}

	if c.Op == opNew {
		accepted := ret == nil
		switch v.kind {
		case vOK:
			if ret != nil {
				r.res.Fail("C20/spurious-error:New", "call %d %s with valid arguments returned error %q", i, render(c), ret)
				return true
			}
		case vMisuse:
			r.misuses++
			r.label("misuse:" + v.why)
			if ret == nil {
				r.res.Fail("C20/misuse-accepted:"+v.why, "call %d %s returned no error", i, render(c))
				return true
			}
			r.label("new-failed")
		case vUnfixed:
			r.unfixed(v, accepted)
		}
		if accepted {
			if nb == nil {
				r.res.Fail("C20/new:nil-builder", "call %d %s returned neither a builder nor an error", i, render(c))
				return true
			}
			r.b, r.sticky, r.reuseGrown = nb, nil, false
			var e error
			if p := guard(func() { e = nb.Err() }); p != nil {
				r.res.Fail("C20/panic:Err:clean", "Err() after call %d %s panicked: %v", i, render(c), p)
				return true
			}
			if e != nil {
				r.res.Fail("C20/spurious-error:New", "Err() is %q right after successful call %d %s", e, i, render(c))
				return true
			}
		}
		r.in.apply(c, ref, ref, v, accepted, i)
		return false
	}

	var e error
	if p := guard(func() { e = r.b.Err() }); p != nil {
		r.res.Fail("C20/panic:Err:"+class, "Err() after call %d %s panicked: %v", i, render(c), p)
		return true
	}
	// what this call reports: its own error result where it has one, otherwise Err() right after it
	reported := e
	if c.Op == opReset || c.Op == opPlan {
		reported = ret
	}

	accepted := false
	switch v.kind {
	case vSticky:
		// "reports the first misuse ... as an error that every later call and Plan() keep returning until Reset";
		// doc: "All method calls after the first error will return the same error and are no-ops."
		r.label("call-in-error-state")
		if c.Op == opPlan {
			r.label("plan-in-error-state")
			if !sameErr(ret, r.sticky) {
				r.res.Fail(stickyRule(ret, class), "call %d Plan() in the error state returned %s", i, differs(ret, r.sticky))
				return true
			}
		}
		if !sameErr(e, r.sticky) {
			r.res.Fail(stickyRule(e, class), "Err() after call %d %s (a no-op in the error state) is %s", i, render(c), differs(e, r.sticky))
			return true
		}
		return false
	case vOK:
		if reported != nil {
			r.res.Fail("C20/spurious-error:"+c.Op, "valid call %d %s (reference state: %s) reported error %q", i, render(c), class, reported)
			return true
		}
		accepted = true
	case vMisuse:
		r.misuses++
		r.label("misuse:" + v.why)
		if reported == nil {
			// "or reports the first misuse (...) as an error" / "never silently drops ... an object"
			r.res.Fail("C20/misuse-accepted:"+v.why, "call %d %s is a misuse (%s) but no error was reported", i, render(c), v.why)
			return true
		}
	case vUnfixed:
		accepted = reported == nil
		r.unfixed(v, accepted)
	}

	if accepted {
		// "Err() == nil <=> the reference has no error"
		if e != nil {
			r.res.Fail("C20/spurious-error:"+c.Op, "Err() is %q after accepted call %d %s", e, i, render(c))
			return true
		}
		if c.Op == opReset {
			r.label("reset-ok")
			r.sticky, r.reuseGrown = nil, false
		}
	} else {
		// the first misuse since the last successful New/Reset: its error value must be the sticky one
		switch c.Op {
		case opReset:
			r.label("reset-failed")
			// A failed Reset reports a misuse, so the error state must hold afterwards. If the builder already was
			// in the error state, "until Reset" leaves open whether the earlier or the new error is kept: both accepted.
			switch {
			case e == nil:
				r.res.Fail("C20/sticky:cleared:failed-reset", "call %d %s returned error %q but Err() is nil afterwards: the misuse is not kept", i, render(c), ret)
				return true
			case related(e, ret), r.in.inErr && sameErr(e, r.sticky):
				r.sticky = e
			default:
				r.res.Fail("C20/sticky:replaced:failed-reset", "call %d %s returned error %s but Err() is %s afterwards", i, render(c), errStr(ret), errStr(e))
				return true
			}
		case opPlan:
			// second Plan() ("use after the plan was emitted"), or a Plan() below the root that this builder treats
			// as a wrong-level call (unfixed): either way the error it reports is the first misuse and must be kept
			cls, what := "after-emit", "after emission"
			if v.why == "plan-below-root" {
				cls, what = "plan-below-root", "below the root level"
			} else {
				r.label("second-plan")
			}
			if !related(e, ret) {
				r.res.Fail(stickyRule(e, cls), "call %d Plan() %s returned error %s but Err() is %s afterwards", i, what, errStr(ret), errStr(e))
				return true
			}
			r.sticky = e
		default:
			r.sticky = e
		}
	}

	topBefore := r.in.topC()
	r.in.apply(c, ref, cpy, v, accepted, i)
	if accepted {
		r.noteReuse(c, org, i, topBefore)
		if _, ok := r.in.top().(*workflow.Sequence); ok {
			r.seqDepth = true
		}
	}

	if accepted && c.Op == opPlan {
		if gotPlan == nil {
			r.res.Fail("C20/plan:nil", "call %d Plan() returned neither a plan nor an error", i)
			return true
		}
		r.label("plan-emitted")
		if v.kind == vOK {
			r.label("plan-emitted:at-root")
		}
		// "yields exactly the plan that directly constructing the same hierarchy would yield";
		// "never silently drops or misplaces an object"
		if cls, msg := r.diffPlan(gotPlan, r.in.plan, r.in.planC); cls != "" {
			r.res.Fail("C20/plan-differs:"+cls, "plan emitted by call %d differs from direct construction: %s", i, msg)
			return true
		}
		r.noteIdentity(gotPlan, r.in.plan)
		if r.reuseGrown {
			r.label("emitted:reused-object-grown-at-2-positions")
		}
		r.emitted = append(r.emitted, emittedRec{got: gotPlan, want: r.in.plan, wantC: r.in.planC, at: i})
	}
	return false
}

// noteReuse keeps the labels of the argument-reuse class for an accepted call.
func (r *runner) noteReuse(c Call, org, i int, topBefore any) {
	switch c.Op {
	case opAddChecks, opAddSequence:
		// remember which object stands at this position (the copy tree has one object per position)
		r.posOrigin[r.in.topC()] = org
		if org != i {
			r.label("reuse:" + c.Op)
		}
		if c.PreCap > 0 {
			r.label("arg:spare-capacity")
		}
	case opAddAction:
		if org != i {
			r.label("reuse:" + c.Op)
		}
		if o, ok := r.posOrigin[topBefore]; ok {
			if r.grownAt[o] == nil {
				r.grownAt[o] = map[any]bool{}
			}
			r.grownAt[o][topBefore] = true
			if len(r.grownAt[o]) >= 2 {
				// one object, handed to two calls, and an action was added at both positions: the case in which
				// the two readings differ and a builder that shares storage between its copies loses an action
				r.label("reuse:object-grown-at-2-positions")
				r.reuseGrown = true
			}
		}
	}
}

func (r *runner) unfixed(v verdict, accepted bool) {
	if accepted {
		r.label("unfixed:" + v.why + ":accepted")
	} else {
		r.misuses++
		r.label("unfixed:" + v.why + ":rejected")
	}
}

// differs describes a sticky-error mismatch; identical texts are pointed out because values are compared (sameErr):
// "keep returning" the error of the first misuse / doc "will return the same error".
func differs(got, want error) string {
	if got != nil && want != nil && got.Error() == want.Error() {
		return fmt.Sprintf("a different error value (same text %q, not wrapping it) than the one the first misuse was reported with", want.Error())
	}
	return fmt.Sprintf("%s; the first misuse was reported as %s", errStr(got), errStr(want))
}

func errStr(e error) string {
	if e == nil {
		return "<nil>"
	}
	// no pointer values in messages: rapid needs the message of a replayed failure to be reproducible
	return fmt.Sprintf("%q", e.Error())
}

// finish re-examines everything after the last call: "calls in the error state and after emission do not modify the
// tree" (no-ops), nothing is appended to a plan that was already emitted or replaced by Reset/New.
func (r *runner) finish() {
	for _, em := range r.emitted {
		if cls, msg := r.diffPlan(em.got, em.want, em.wantC); cls != "" {
			r.res.Fail("C20/emitted-plan-modified:"+cls, "plan emitted by call %d was modified by later calls: %s", em.at, msg)
			return
		}
	}
	// An object the caller handed in: the statement does not say whether the builder adopts it (then it grows exactly
	// like the reference twin: only accepted AddAction calls append to it) or copies it (then it stays as it was before
	// the call). Both are accepted (FA-6); only a third state is a violation — e.g. an action appended by a call that
	// had to be a no-op.
	for _, s := range r.supplied {
		diff := func(other args) (string, string) {
			switch {
			case s.ref.checks != nil:
				return r.diffChecks(fmt.Sprintf("checks of call %d", s.at), s.real.checks, other.checks)
			case s.ref.seq != nil:
				return r.diffSeq(fmt.Sprintf("sequence of call %d", s.at), s.real.seq, other.seq)
			case s.ref.action != nil:
				return r.diffAction(fmt.Sprintf("action of call %d", s.at), s.real.action, other.action)
			}
			return "", ""
		}
		cls, msg := diff(s.ref)
		if cls == "" {
			continue
		}
		if c2, _ := diff(s.snap); c2 == "" {
			r.label("caller-object:untouched-while-reference-grew")
			continue
		}
		r.res.Fail("C20/object-modified:"+cls, "object supplied by the caller is at the end neither as it was before the call nor as the reference twin (grown by the accepted calls only): %s", msg)
		return
	}
}

// noteIdentity counts, for a plan that already compared equal to the reference tree, which of its Checks / Sequence /
// Action objects are the caller's own objects and which are copies. A label, not a verdict: the statement promises the
// plan direct construction would yield, not aliasing with the arguments (FA-6).
func (r *runner) noteIdentity(got, want *workflow.Plan) {
	note := func(g, w any) {
		if twin, ok := r.pairs[w]; ok {
			if twin == g {
				r.holds++
			} else {
				r.copies++
			}
		}
	}
	acts := func(g, w []*workflow.Action) {
		for i := range w {
			if i < len(g) && w[i] != nil && g[i] != nil {
				note(g[i], w[i])
			}
		}
	}
	groups := func(g, w [5]*workflow.Checks) {
		for i := range w {
			if w[i] != nil && g[i] != nil {
				note(g[i], w[i])
				acts(g[i].Actions, w[i].Actions)
			}
		}
	}
	groups([5]*workflow.Checks{got.BypassChecks, got.PreChecks, got.ContChecks, got.PostChecks, got.DeferredChecks},
		[5]*workflow.Checks{want.BypassChecks, want.PreChecks, want.ContChecks, want.PostChecks, want.DeferredChecks})
	for bi, wb := range want.Blocks {
		if bi >= len(got.Blocks) || got.Blocks[bi] == nil {
			break
		}
		gb := got.Blocks[bi]
		groups([5]*workflow.Checks{gb.BypassChecks, gb.PreChecks, gb.ContChecks, gb.PostChecks, gb.DeferredChecks},
			[5]*workflow.Checks{wb.BypassChecks, wb.PreChecks, wb.ContChecks, wb.PostChecks, wb.DeferredChecks})
		for si, ws := range wb.Sequences {
			if si < len(gb.Sequences) && ws != nil && gb.Sequences[si] != nil {
				note(gb.Sequences[si], ws)
				acts(gb.Sequences[si].Actions, ws.Actions)
			}
		}
	}
}

// --- structural comparison (nil and empty slices are not distinguished: the statement does not)

func (r *runner) diffAction(path string, got, want *workflow.Action) (string, string) {
	if (got == nil) != (want == nil) {
		return "action-nil", fmt.Sprintf("%s: nil=%v, want nil=%v", path, got == nil, want == nil)
	}
	if want == nil {
		return "", ""
	}
	if !reflect.DeepEqual(*got, *want) {
		return "action-fields", fmt.Sprintf("%s: got %+v want %+v", path, *got, *want)
	}
	return "", ""
}

func (r *runner) diffActions(path string, got, want []*workflow.Action) (string, string) {
	if len(got) != len(want) {
		return "actions-len", fmt.Sprintf("%s.Actions: %s, want %s", path, actNames(got), actNames(want))
	}
	for i := range want {
		if cls, msg := r.diffAction(fmt.Sprintf("%s.Actions[%d]", path, i), got[i], want[i]); cls != "" {
			return cls, msg
		}
	}
	return "", ""
}

func actNames(as []*workflow.Action) string {
	s := make([]string, len(as))
	for i, a := range as {
		if a == nil {
			s[i] = "nil"
		} else {
			s[i] = a.Name
		}
	}
	return "[" + strings.Join(s, " ") + "]"
}

func (r *runner) diffChecks(path string, got, want *workflow.Checks) (string, string) {
	if (got == nil) != (want == nil) {
		return "group-slot", fmt.Sprintf("%s: present=%v, want present=%v", path, got != nil, want != nil)
	}
	if want == nil {
		return "", ""
	}
	g, w := *got, *want
	g.Actions, w.Actions = nil, nil
	if !reflect.DeepEqual(g, w) {
		return "checks-fields", fmt.Sprintf("%s: got %+v want %+v", path, g, w)
	}
	return r.diffActions(path, got.Actions, want.Actions)
}

func (r *runner) diffSeq(path string, got, want *workflow.Sequence) (string, string) {
	if (got == nil) != (want == nil) {
		return "seq-nil", fmt.Sprintf("%s: nil=%v, want nil=%v", path, got == nil, want == nil)
	}
	if want == nil {
		return "", ""
	}
	g, w := *got, *want
	g.Actions, w.Actions = nil, nil
	if !reflect.DeepEqual(g, w) {
		return "seq-fields", fmt.Sprintf("%s: got %+v want %+v", path, g, w)
	}
	return r.diffActions(path, got.Actions, want.Actions)
}

func seqNames(ss []*workflow.Sequence) string {
	s := make([]string, len(ss))
	for i, a := range ss {
		if a == nil {
			s[i] = "nil"
		} else {
			s[i] = a.Name
		}
	}
	return "[" + strings.Join(s, " ") + "]"
}

func blockNames(bs []*workflow.Block) string {
	s := make([]string, len(bs))
	for i, a := range bs {
		if a == nil {
			s[i] = "nil"
		} else {
			s[i] = a.Name
		}
	}
	return "[" + strings.Join(s, " ") + "]"
}

// either accepts a position of the emitted plan that equals the reference under one of the two readings of argument
// reuse (wantA: the caller's one object at every position; wantC: an independent copy per position). Without reuse the
// two are equal. A position that matches neither is a dropped or misplaced object.
func (r *runner) either(path string, diff func(want int) (string, string)) (string, string) {
	cls, msg := diff(0)
	if cls == "" {
		return "", ""
	}
	if c2, m2 := diff(1); c2 == "" {
		r.copyMatches++
		return "", ""
	} else if m2 != msg {
		msg += " | as independent copies: " + m2
	}
	return cls, msg
}

func (r *runner) diffGroups(path string, got, want, wantC [5]*workflow.Checks) (string, string) {
	names := [5]string{"BypassChecks", "PreChecks", "ContChecks", "PostChecks", "DeferredChecks"}
	for i := range names {
		i := i
		if cls, msg := r.either(path, func(k int) (string, string) {
			return r.diffChecks(path+"."+names[i], got[i], [2]*workflow.Checks{want[i], wantC[i]}[k])
		}); cls != "" {
			return cls, msg
		}
	}
	return "", ""
}

func groupsOfPlan(p *workflow.Plan) [5]*workflow.Checks {
	return [5]*workflow.Checks{p.BypassChecks, p.PreChecks, p.ContChecks, p.PostChecks, p.DeferredChecks}
}

func groupsOfBlock(b *workflow.Block) [5]*workflow.Checks {
	return [5]*workflow.Checks{b.BypassChecks, b.PreChecks, b.ContChecks, b.PostChecks, b.DeferredChecks}
}

// diffPlan compares an emitted plan with the reference tree want (and wantC, the same tree under the copy reading of
// argument reuse: identical shape, only the contents of Checks / Sequences that stem from a reused object can differ).
func (r *runner) diffPlan(got, want, wantC *workflow.Plan) (string, string) {
	g, w := *got, *want
	gg := [5]*workflow.Checks{g.BypassChecks, g.PreChecks, g.ContChecks, g.PostChecks, g.DeferredChecks}
	wg := [5]*workflow.Checks{w.BypassChecks, w.PreChecks, w.ContChecks, w.PostChecks, w.DeferredChecks}
	g.BypassChecks, g.PreChecks, g.ContChecks, g.PostChecks, g.DeferredChecks, g.Blocks = nil, nil, nil, nil, nil, nil
	w.BypassChecks, w.PreChecks, w.ContChecks, w.PostChecks, w.DeferredChecks, w.Blocks = nil, nil, nil, nil, nil, nil
	if !reflect.DeepEqual(g, w) {
		return "plan-fields", fmt.Sprintf("Plan: got %+v want %+v", g, w)
	}
	if cls, msg := r.diffGroups("Plan", gg, wg, groupsOfPlan(wantC)); cls != "" {
		return cls, msg
	}
	if len(got.Blocks) != len(want.Blocks) {
		return "blocks-len", fmt.Sprintf("Plan.Blocks: %s, want %s", blockNames(got.Blocks), blockNames(want.Blocks))
	}
	for bi := range want.Blocks {
		path := fmt.Sprintf("Plan.Blocks[%d]", bi)
		gb, wb, wbC := got.Blocks[bi], want.Blocks[bi], wantC.Blocks[bi]
		if gb == nil {
			return "block-nil", path + " is nil"
		}
		g, w := *gb, *wb
		gg := [5]*workflow.Checks{g.BypassChecks, g.PreChecks, g.ContChecks, g.PostChecks, g.DeferredChecks}
		wg := [5]*workflow.Checks{w.BypassChecks, w.PreChecks, w.ContChecks, w.PostChecks, w.DeferredChecks}
		g.BypassChecks, g.PreChecks, g.ContChecks, g.PostChecks, g.DeferredChecks, g.Sequences = nil, nil, nil, nil, nil, nil
		w.BypassChecks, w.PreChecks, w.ContChecks, w.PostChecks, w.DeferredChecks, w.Sequences = nil, nil, nil, nil, nil, nil
		if !reflect.DeepEqual(g, w) {
			return "block-fields", fmt.Sprintf("%s: got %+v want %+v", path, g, w)
		}
		if cls, msg := r.diffGroups(path, gg, wg, groupsOfBlock(wbC)); cls != "" {
			return cls, msg
		}
		if len(gb.Sequences) != len(wb.Sequences) {
			return "seqs-len", fmt.Sprintf("%s.Sequences: %s, want %s", path, seqNames(gb.Sequences), seqNames(wb.Sequences))
		}
		for si := range wb.Sequences {
			si := si
			sp := fmt.Sprintf("%s.Sequences[%d]", path, si)
			if cls, msg := r.either(sp, func(k int) (string, string) {
				return r.diffSeq(sp, gb.Sequences[si], [2]*workflow.Sequence{wb.Sequences[si], wbC.Sequences[si]}[k])
			}); cls != "" {
				return cls, msg
			}
		}
	}
	return "", ""
}

func checkProgram(p BuilderProgram) (res vprop.Result) {
	r := &runner{res: &res, labels: map[string]bool{}, pairs: map[any]any{}, calls: p.Calls,
		objs: map[int]*suppliedRec{}, grownAt: map[int]map[any]bool{}, posOrigin: map[any]int{}}
	sample := make([]string, 0, len(p.Calls))
	for _, c := range p.Calls {
		sample = append(sample, render(c))
	}
	res.Sample = sample

	stopped := false
	for i, c := range p.Calls {
		if r.step(i, c) {
			stopped = true
			break
		}
	}
	if !stopped {
		r.finish()
	}

	// NT (DESIGN §5 C20): ">= 6 calls reaching depth 3, or a misuse"
	deep := len(p.Calls) >= 6 && r.seqDepth
	res.NonTrivial = deep || r.misuses > 0
	if deep {
		r.label("depth3")
	}
	if r.misuses > 0 {
		r.label("with-misuse")
	} else {
		r.label("no-misuse")
	}
	switch n := len(p.Calls); {
	case n < 6:
		r.label("len:1-5")
	case n < 16:
		r.label("len:6-15")
	default:
		r.label("len:16-40")
	}
	if r.copyMatches > 0 {
		r.label("emitted:position-equals-copy-reading-only")
	}
	if r.holds > 0 {
		r.label("emitted:holds-caller-objects")
	}
	if r.copies > 0 {
		r.label("emitted:copies-caller-objects")
	}
	if len(r.emitted) > 1 {
		r.label("plans-emitted>=2")
	}
	for _, em := range r.emitted {
		nb, ns := len(em.want.Blocks), 0
		for _, b := range em.want.Blocks {
			ns += len(b.Sequences)
		}
		if nb >= 2 && ns >= 2 {
			r.label("emitted:>=2blocks&>=2seqs")
		}
		if w := em.want; w.BypassChecks != nil || w.PreChecks != nil || w.ContChecks != nil || w.PostChecks != nil || w.DeferredChecks != nil {
			r.label("emitted:plan-group")
		}
		for _, w := range em.want.Blocks {
			if w.BypassChecks != nil || w.PreChecks != nil || w.ContChecks != nil || w.PostChecks != nil || w.DeferredChecks != nil {
				r.label("emitted:block-group")
				break
			}
		}
	}
	ls := make([]string, 0, len(r.labels))
	for l := range r.labels {
		ls = append(ls, l)
	}
	sort.Strings(ls)
	res.Labels = ls
	return res
}

func TestC20(t *testing.T) {
	vprop.Run(t, vprop.Spec[BuilderProgram]{
		ID:    "C20",
		Gen:   genProgram,
		Check: checkProgram,
	})
}

// FuzzC20 drives the same generator + oracle from go's native fuzzer (thorough tier).
func FuzzC20(f *testing.F) {
	// Seed corpus: rapid.MakeFuzz consumes 8 input bytes per draw, so the empty corpus only produces "overrun" skips for
	// a long time. The seeds are fixed pseudo-random buffers (a splitmix64 stream, no run-time randomness) long enough
	// to drive whole programs; the fuzzer mutates them from there.
	for seed := uint64(1); seed <= 12; seed++ {
		x := seed * 0x9E3779B97F4A7C15
		buf := make([]byte, 0, 8*1280)
		for i := 0; i < cap(buf)/8; i++ {
			x += 0x9E3779B97F4A7C15
			z := x
			z = (z ^ (z >> 30)) * 0xBF58476D1CE4E5B9
			z = (z ^ (z >> 27)) * 0x94D049BB133111EB
			z ^= z >> 31
			for k := 0; k < 8; k++ {
				buf = append(buf, byte(z>>(8*k)))
			}
		}
		f.Add(buf)
	}
	f.Fuzz(rapid.MakeFuzz(func(t *rapid.T) {
		c := genProgram(t)
		res := checkProgram(c)
		for _, v := range res.Violations {
			if vprop.IsKnown("C20", v.Rule) {
				continue
			}
			t.Fatalf("VERIF-FAIL property=C20 rule=%s replay=fuzz :: %s :: %v", v.Rule, v.Msg, res.Sample)
		}
	}))
}
