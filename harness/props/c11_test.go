package props

import (
	"testing"

	"pgregory.net/rapid"

	"verifharness/lab"
	"verifharness/vprop"
)

// C11 — only live Running plans are resumed; stale ones closed; others untouched.
func TestC11(t *testing.T) {
	pf := withProfile(pfRecovery, func(p *lab.Profile) {
		p.MaxPlans, p.MaxBlocks, p.MaxSeqs, p.MaxActs = 1, 2, 3, 2
		p.PGate = 10
	})
	vprop.Run(t, vprop.Spec[lab.StoreCase]{
		ID: "C11",
		Gen: func(t *rapid.T) lab.StoreCase {
			c := lab.StoreCase{}
			n := lab.Rng(t, 1, 5, "nPlans")
			for i := 0; i < n; i++ {
				one := pf.Gen(t)
				c.Sc.Plans = append(c.Sc.Plans, one.Plans[0])
				sp := lab.StorePlan{
					Class:  []int{lab.ClassRunning, lab.ClassRunning, lab.ClassRunning, lab.ClassNotStarted, lab.ClassTerminal}[lab.Rng(t, 0, 4, "class")],
					Prefix: lab.Rng(t, 0, 1000, "prefix"),
					Age:    lab.Rng(t, 0, 5, "age"),
				}
				c.Plans = append(c.Plans, sp)
			}
			constantScripts(&c.Sc)
			c.NoRecovery = lab.Pct(t, 17, "noRecovery")
			c.OptOrder = lab.Rng(t, 0, 5, "optOrder")
			if lab.Pct(t, 25, "fault") {
				c.FaultAt = lab.Rng(t, 1, 12, "faultAt")
			}
			c.NeedsRecovery = lab.Pct(t, 20, "needsRecovery")
			return c
		},
		Check: func(c lab.StoreCase) (res vprop.Result) {
			classes := map[int]bool{}
			running := false
			for _, p := range c.Plans {
				classes[p.Class] = true
				if p.Class == lab.ClassRunning {
					running = true
					if p.Age == lab.AgeStartsOnly {
						res.Label("running-plan-long-objects-old-starts-fresh-ends")
					} else if p.Age == lab.AgePlanRowOnly {
						res.Label("running-plan-old-start-fresh-activity")
					} else if p.Age >= 2 {
						res.Label("stale-running-plan")
					} else {
						res.Label("live-running-plan")
					}
				}
			}
			res.NonTrivial = len(classes) >= 2 && running
			if c.NoRecovery {
				res.Label("recovery-disabled")
			}
			res.Sample = map[string]any{"plans": c.Plans, "noRecovery": c.NoRecovery, "scenario": c.Sc.Summary()}
			lab.RunStoreCase(&c, &res)
			return res
		},
		Journal:      true,
		ReplayRepeat: 5,
	})
}
