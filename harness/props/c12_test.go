package props

import (
	"testing"

	"pgregory.net/rapid"

	"verifharness/lab"
	"verifharness/vprop"
)

// C12 — a plan executes at most once; repeated or racing Start is rejected safely; no API call panics.
func TestC12(t *testing.T) {
	vprop.Run(t, vprop.Spec[lab.APIHistory]{
		ID:  "C12",
		Gen: func(t *rapid.T) lab.APIHistory { return lab.GenAPIHistory(t) },
		Check: func(h lab.APIHistory) (res vprop.Result) {
			res.Sample = h.Summary()
			startsPerPlan := map[int]int{}
			for _, op := range h.Ops {
				switch op.Kind {
				case lab.OpStart:
					startsPerPlan[op.Plan]++
				case lab.OpStartRace:
					startsPerPlan[op.Plan] += 2
					res.Label("racing-start")
				case lab.OpSubmitInvalid:
					res.Label("invalid-submit")
				}
				if op.Plan < 0 && op.Kind != lab.OpSleep && op.Kind != lab.OpSubmit && op.Kind != lab.OpSubmitInvalid {
					res.NonTrivial = true
					res.Label("unknown-id")
				}
			}
			for _, n := range startsPerPlan {
				if n >= 2 {
					res.NonTrivial = true
					res.Label("repeated-or-racing-start")
				}
			}
			if h.Stale {
				res.Label("stale-submit")
			}
			lab.RunAPI(&h, &res)
			return res
		},
		Journal:      true,
		ReplayRepeat: 25,
	})
}
