package props

// C19 — Walk visits every object once, in execution order, with its ancestors; stops immediately.
//
// Oracle: a reference recursive enumeration written from the statement (bypass, pre, continuous, blocks in order,
// post, deferred, and likewise inside each block), compared by pointer identity; ancestor chains compared after the
// whole walk has been collected (so aliasing between chain slices would show); stopping at position k yields exactly
// k+1 items.

import (
	"fmt"
	"testing"

	"github.com/element-of-surprise/coercion/workflow"
	"github.com/element-of-surprise/coercion/workflow/utils/walk"
	"pgregory.net/rapid"

	"verifharness/lab"
	"verifharness/vprop"
)

// TreeChecks describes a checks group: N actions; with N == 0 the slice is nil (NilActions) or empty.
type TreeChecks struct {
	N          int
	NilActions bool
}

type TreeSeq struct {
	N          int
	NilActions bool
}

type TreeBlock struct {
	Groups  [5]*TreeChecks // bypass, pre, cont, post, deferred
	Seqs    []TreeSeq
	SeqsNil bool
}

type TreePlan struct {
	Groups    [5]*TreeChecks
	Blocks    []TreeBlock
	BlocksNil bool
}

type WalkCase struct {
	Plan TreePlan
	// Stop is the position at which the consumer stops (-1: never).
	Stop int
	// AllStops: every stop position of the tree (and the full walk) is tried, each on a fresh iterator.
	AllStops bool `json:",omitempty"`
	// Again: the same iterator value is ranged over a second time, completely.
	Again bool
}

func genTreeChecks(t *rapid.T, label string) *TreeChecks {
	if !rapid.Bool().Draw(t, label+".present") {
		return nil
	}
	n := rapid.IntRange(0, 4).Draw(t, label+".n")
	c := &TreeChecks{N: n}
	if n == 0 {
		c.NilActions = rapid.Bool().Draw(t, label+".nil")
	}
	return c
}

func genTreePlan(t *rapid.T) TreePlan {
	p := TreePlan{}
	for i := range p.Groups {
		p.Groups[i] = genTreeChecks(t, fmt.Sprintf("pg%d", i))
	}
	nb := rapid.IntRange(0, 5).Draw(t, "blocks")
	if nb == 0 {
		p.BlocksNil = rapid.Bool().Draw(t, "blocksNil")
	}
	for b := 0; b < nb; b++ {
		tb := TreeBlock{}
		for i := range tb.Groups {
			tb.Groups[i] = genTreeChecks(t, fmt.Sprintf("b%dg%d", b, i))
		}
		ns := rapid.IntRange(0, 5).Draw(t, "seqs")
		if ns == 0 {
			tb.SeqsNil = rapid.Bool().Draw(t, "seqsNil")
		}
		for s := 0; s < ns; s++ {
			n := rapid.IntRange(0, 5).Draw(t, "acts")
			ts := TreeSeq{N: n}
			if n == 0 {
				ts.NilActions = rapid.Bool().Draw(t, "actsNil")
			}
			tb.Seqs = append(tb.Seqs, ts)
		}
		p.Blocks = append(p.Blocks, tb)
	}
	return p
}

func buildChecks(c *TreeChecks, name string) *workflow.Checks {
	if c == nil {
		return nil
	}
	out := &workflow.Checks{}
	if c.N == 0 && !c.NilActions {
		out.Actions = []*workflow.Action{}
	}
	for i := 0; i < c.N; i++ {
		out.Actions = append(out.Actions, &workflow.Action{Name: fmt.Sprintf("%s.a%d", name, i)})
	}
	return out
}

func buildTree(tp TreePlan) *workflow.Plan {
	p := &workflow.Plan{Name: "p"}
	p.BypassChecks = buildChecks(tp.Groups[0], "p.bypass")
	p.PreChecks = buildChecks(tp.Groups[1], "p.pre")
	p.ContChecks = buildChecks(tp.Groups[2], "p.cont")
	p.PostChecks = buildChecks(tp.Groups[3], "p.post")
	p.DeferredChecks = buildChecks(tp.Groups[4], "p.deferred")
	if len(tp.Blocks) == 0 && !tp.BlocksNil {
		p.Blocks = []*workflow.Block{}
	}
	for bi, tb := range tp.Blocks {
		b := &workflow.Block{Name: fmt.Sprintf("b%d", bi)}
		b.BypassChecks = buildChecks(tb.Groups[0], b.Name+".bypass")
		b.PreChecks = buildChecks(tb.Groups[1], b.Name+".pre")
		b.ContChecks = buildChecks(tb.Groups[2], b.Name+".cont")
		b.PostChecks = buildChecks(tb.Groups[3], b.Name+".post")
		b.DeferredChecks = buildChecks(tb.Groups[4], b.Name+".deferred")
		if len(tb.Seqs) == 0 && !tb.SeqsNil {
			b.Sequences = []*workflow.Sequence{}
		}
		for si, ts := range tb.Seqs {
			s := &workflow.Sequence{Name: fmt.Sprintf("%s.s%d", b.Name, si)}
			if ts.N == 0 && !ts.NilActions {
				s.Actions = []*workflow.Action{}
			}
			for ai := 0; ai < ts.N; ai++ {
				s.Actions = append(s.Actions, &workflow.Action{Name: fmt.Sprintf("%s.a%d", s.Name, ai)})
			}
			b.Sequences = append(b.Sequences, s)
		}
		p.Blocks = append(p.Blocks, b)
	}
	return p
}

type refItem struct {
	v     workflow.Object
	chain []workflow.Object
}

func refWalk(p *workflow.Plan) []refItem {
	var out []refItem
	add := func(v workflow.Object, chain ...workflow.Object) {
		out = append(out, refItem{v: v, chain: append([]workflow.Object(nil), chain...)})
	}
	checks := func(c *workflow.Checks, chain ...workflow.Object) {
		if c == nil {
			return
		}
		add(c, chain...)
		for _, a := range c.Actions {
			add(a, append(append([]workflow.Object(nil), chain...), c)...)
		}
	}
	add(p)
	checks(p.BypassChecks, p)
	checks(p.PreChecks, p)
	checks(p.ContChecks, p)
	for _, b := range p.Blocks {
		add(b, p)
		checks(b.BypassChecks, p, b)
		checks(b.PreChecks, p, b)
		checks(b.ContChecks, p, b)
		for _, s := range b.Sequences {
			add(s, p, b)
			for _, a := range s.Actions {
				add(a, p, b, s)
			}
		}
		checks(b.PostChecks, p, b)
		checks(b.DeferredChecks, p, b)
	}
	checks(p.PostChecks, p)
	checks(p.DeferredChecks, p)
	return out
}

func objName(o workflow.Object) string {
	switch v := o.(type) {
	case *workflow.Plan:
		return "plan"
	case *workflow.Block:
		return "block:" + v.Name
	case *workflow.Sequence:
		return "seq:" + v.Name
	case *workflow.Action:
		return "action:" + v.Name
	case *workflow.Checks:
		if len(v.Actions) > 0 {
			return "checks-of:" + v.Actions[0].Name
		}
		return fmt.Sprintf("checks@%p", v)
	}
	return fmt.Sprintf("%T", o)
}

// walkOne performs one walk (stopped at position stop, -1: never), optionally followed by a second full walk over the same
// iterator value, and compares with the reference enumeration. It returns false after recording a violation.
func walkOne(p *workflow.Plan, ref []refItem, stop int, again bool, res *vprop.Result) bool {
	var got []walk.Item
	if stop >= len(ref) {
		stop = -1
	}
	// one iterator value is used for everything below: an iter.Seq may be ranged over any number of times, and
	// "walking a plan yields ... every ... object exactly once" holds for each walk, also after an earlier walk over the
	// same value was stopped early
	seq := walk.Plan(p)
	for it := range seq {
		got = append(got, it)
		if stop >= 0 && len(got)-1 == stop {
			break
		}
	}
	if again {
		n := 0
		for it := range seq {
			if n >= len(ref) || it.Value != ref[n].v {
				res.Fail("C19/second-walk", "second walk over the same iterator value (after a first walk that stopped at %d): item %d is %v, reference has %d items", stop, n, it.Value != nil, len(ref))
				return false
			}
			n++
		}
		if n != len(ref) {
			res.Fail("C19/second-walk", "second walk over the same iterator value (after a first walk that stopped at %d) yielded %d items, reference enumeration has %d", stop, n, len(ref))
			return false
		}
	}

	want := ref
	if stop >= 0 {
		want = ref[:stop+1]
		if len(got) != stop+1 {
			res.Fail("C19/stop", "consumer stopped at position %d but walk yielded %d items (want %d)", stop, len(got), stop+1)
			return false
		}
	}
	if len(got) != len(want) {
		res.Fail("C19/count", "walk yielded %d items, reference enumeration has %d", len(got), len(want))
		return false
	}
	for i := range want {
		if got[i].Value != want[i].v {
			res.Fail("C19/order", "item %d is %s, reference says %s", i, objName(got[i].Value), objName(want[i].v))
			return false
		}
	}
	// chains are compared after the whole walk was collected
	for i := range want {
		if len(got[i].Chain) != len(want[i].chain) {
			res.Fail("C19/chain", "item %d (%s): chain length %d, want %d", i, objName(want[i].v), len(got[i].Chain), len(want[i].chain))
			return false
		}
		for j := range want[i].chain {
			if got[i].Chain[j] != want[i].chain[j] {
				res.Fail("C19/chain", "item %d (%s): chain[%d] is %s, want %s", i, objName(want[i].v), j, objName(got[i].Chain[j]), objName(want[i].chain[j]))
				return false
			}
		}
	}
	return true
}

func checkWalk(c WalkCase) (res vprop.Result) {
	p := buildTree(c.Plan)
	ref := refWalk(p)

	groupsInBlocks := 0
	for _, b := range c.Plan.Blocks {
		for _, g := range b.Groups {
			if g != nil {
				groupsInBlocks++
				break
			}
		}
	}
	res.NonTrivial = len(c.Plan.Blocks) >= 2 && groupsInBlocks >= 2
	switch {
	case c.AllStops:
	case c.Stop >= 0 && c.Stop < len(ref):
		res.Label("early-stop")
	default:
		res.Label("full-walk")
	}
	if c.Again {
		res.Label("same-iterator-walked-again")
	}

	defer func() {
		if r := recover(); r != nil {
			res.Fail("C19/panic", "walk.Plan panicked: %v", r)
		}
	}()

	if c.AllStops {
		// "every early-stop position": all of them, for this tree, plus the full walk
		res.Label("all-stop-positions-of-the-tree")
		for stop := -1; stop < len(ref); stop++ {
			if !walkOne(p, ref, stop, c.Again, &res) {
				return res
			}
		}
		vprop.Count("stop_positions_enumerated", int64(len(ref)+1))
		return res
	}
	walkOne(p, ref, c.Stop, c.Again, &res)
	return res
}

func c19Spec() vprop.Spec[WalkCase] {
	return vprop.Spec[WalkCase]{
		ID: "C19",
		Gen: func(t *rapid.T) WalkCase {
			c := WalkCase{Plan: genTreePlan(t), Stop: -1}
			switch lab.Rng(t, 0, 3, "stopMode") {
			case 0: // full walk
			case 1:
				c.AllStops = true
			default:
				c.Stop = lab.Rng(t, 0, 220, "stop") // trees have up to ~200 objects; beyond the end = full walk
			}
			c.Again = rapid.Bool().Draw(t, "again")
			return c
		},
		Check: checkWalk,
	}
}

func TestC19(t *testing.T) { vprop.Run(t, c19Spec()) }

// FuzzC19 is the byte-driven arm (thorough tier), see vprop.Fuzz.
func FuzzC19(f *testing.F) { vprop.Fuzz(f, c19Spec()) }
