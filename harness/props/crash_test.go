package props

import (
	"os"
	"testing"

	"pgregory.net/rapid"

	"verifharness/lab"
	"verifharness/vprop"
)

// pfRecovery: outcomes are a function of the action alone (constant scripts), small shapes.
var pfRecovery = withProfile(lab.ProfileDefault, func(p *lab.Profile) {
	p.Name = "recovery"
	p.MaxPlans, p.MaxBlocks, p.MaxSeqs, p.MaxActs, p.MaxCheckActs = 2, 3, 3, 2, 2
	p.PGroup, p.PBypass, p.PBypassOK, p.PFailSeqAct, p.PFailCheckAct, p.PContFail, p.MaxContFailRun = 30, 12, 40, 14, 8, 10, 1
	p.PGate, p.PRetry, p.MaxRetries, p.RichOutcomes, p.PPoll, p.PWriteLat, p.PDelay = 20, 25, 2, false, 0, 0, 0
	p.ContDelays = []int{0, 1, 2}
})

var pfRecoveryAny = withProfile(pfRecovery, func(p *lab.Profile) {
	p.Name = "recovery-any"
	p.PContFail, p.MaxContFailRun, p.PRetry, p.PlanContMayFail, p.PGate = 30, 4, 35, true, 35
})

// pfRecoveryMany: up to four tiny plans on one Workstream, gated so that they overlap: crash points with three or more
// plans durably Running at once (start-up recovery has to fetch and resume several plans).
var pfRecoveryMany = withProfile(pfRecovery, func(p *lab.Profile) {
	p.Name = "recovery-many-plans"
	p.MaxPlans, p.MaxBlocks, p.MaxSeqs, p.MaxActs, p.MaxCheckActs = 1, 1, 2, 2, 1
	p.PGroup, p.PGate = 15, 50
})

// constantScripts makes every action's outcome a function of the action alone: the script is one step repeated.
func constantScripts(sc *lab.Scenario) {
	sc.EachAction(func(r lab.Ref, a *lab.ActionSpec) {
		if len(a.Script) == 0 {
			a.Script = []lab.Step{{Out: lab.OK}}
		}
		last := a.Script[len(a.Script)-1]
		last.Gate = a.Script[0].Gate
		a.Script = []lab.Step{last}
	})
}

func genCrashCase(t *rapid.T) lab.CrashCase {
	c := lab.CrashCase{}
	// one scenario in four keeps invocation-dependent scripts (retries that succeed later, continuous checks failing at
	// run k): the outcome-equality clause is then not judged, all the other clauses are
	if lab.Pct(t, 25, "anyOutcome") {
		c.Sc = pfRecoveryAny.Gen(t)
		c.AnyOutcome = true
	} else if lab.Pct(t, 10, "manyPlans") {
		// three or four tiny plans, by construction
		n := lab.Rng(t, 3, 4, "nPlans")
		for i := 0; i < n; i++ {
			one := pfRecoveryMany.Gen(t)
			if i == 0 {
				c.Sc = one
				c.Sc.Plans = c.Sc.Plans[:1]
			} else {
				c.Sc.Plans = append(c.Sc.Plans, one.Plans[0])
			}
		}
		constantScripts(&c.Sc)
	} else {
		c.Sc = pfRecovery.Gen(t)
		constantScripts(&c.Sc)
	}
	if os.Getenv("VERIF_TIER") == "thorough" && lab.Pct(t, 25, "allPrefixes") {
		c.All = true
	} else {
		n := lab.Rng(t, 6, 14, "nPoints")
		for i := 0; i < n; i++ {
			c.Points = append(c.Points, lab.Rng(t, 0, 1000, "point"))
		}
	}
	// one scenario in 8 is also cross-validated with a real SIGKILL of a child process on a file-backed store
	if lab.Pct(t, 12, "realKill") {
		c.Kill = append(c.Kill, lab.Rng(t, 0, 1000, "killPoint"))
	}
	ns := lab.Rng(t, 0, 2, "nSecond")
	for i := 0; i < ns; i++ {
		c.Second = append(c.Second, lab.Rng(t, 0, 1000, "second"))
	}
	c.Upgrade = lab.Pct(t, 10, "pluginUpgrade")
	if !c.Upgrade && lab.Pct(t, 12, "searchFault") {
		c.SearchFault = lab.Rng(t, 1, 3, "searchFaultAfter")
	}
	// one case in three with second crashes goes on to a third crash in the second recovery
	if ns > 0 && lab.Pct(t, 33, "third") {
		c.Third = append(c.Third, lab.Rng(t, 0, 1000, "thirdPoint"))
	}
	return c
}

func crashSpec(id string) vprop.Spec[lab.CrashCase] {
	return vprop.Spec[lab.CrashCase]{
		ID:  id,
		Gen: genCrashCase,
		Check: func(c lab.CrashCase) (res vprop.Result) {
			res.Sample = map[string]any{"scenario": c.Sc.Summary(), "points_permille": c.Points, "every_prefix": c.All, "second_permille": c.Second, "third_permille": c.Third, "real_kill_permille": c.Kill}
			if c.All {
				res.Label("every-prefix")
			}
			if len(c.Second) > 0 {
				res.Label("with-second-crash")
			}
			if len(c.Third) > 0 {
				res.Label("with-third-crash")
			}
			if c.Upgrade && id == "C09" {
				res.Label("restart-with-upgraded-plugin-response-type")
			}
			if c.SearchFault > 0 && id == "C09" {
				res.Label("restart-with-broken-search-stream")
			}
			if len(c.Sc.Plans) >= 3 {
				res.Label("three-or-more-plans")
			}
			if c.AnyOutcome {
				res.Label("invocation-dependent-outcomes")
			}
			lab.RunCrashCase(&c, id, &res)
			return res
		},
		Journal:      true,
		ReplayRepeat: 10,
	}
}

// TestCrashChild is the child side of the real-kill cross-validation; it does nothing unless VERIF_CHILD_CASE is set.
func TestCrashChild(t *testing.T) {
	if os.Getenv("VERIF_CHILD_CASE") == "" {
		t.Skip("child entry point")
	}
	lab.ChildMain()
}

func TestC09(t *testing.T) { vprop.Run(t, crashSpec("C09")) }
func TestC10(t *testing.T) { vprop.Run(t, crashSpec("C10")) }
