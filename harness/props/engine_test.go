package props

import (
	"testing"

	"pgregory.net/rapid"

	"verifharness/lab"
	"verifharness/vprop"
)

// unusualNameRefused: a scenario may give plan p0 an unusual name (Scenario.NameKind). Whether Submit admits it is C16's
// business; a refused one makes the case drop out here, an admitted one must execute like any other plan.
func unusualNameRefused(sc *lab.Scenario, rr *lab.RunResult, res *vprop.Result) bool {
	if sc.NameKind == 0 {
		return false
	}
	if len(rr.Plans) > 0 && rr.Plans[0].SubmitErr != nil {
		res.Label("unusual-plan-name-refused-by-submit")
		res.Skip = true
		return true
	}
	res.Label("unusual-plan-name-admitted")
	return false
}

// engineSpec wires a set of profiles and an oracle into a Spec over scenarios.
func engineSpec(id string, profiles []lab.Profile, opts lab.RunOpts, check func(rr *lab.RunResult, res *vprop.Result)) vprop.Spec[lab.Scenario] {
	return vprop.Spec[lab.Scenario]{
		ID: id,
		Gen: func(t *rapid.T) lab.Scenario {
			pf := profiles[0]
			if len(profiles) > 1 {
				pf = profiles[lab.Rng(t, 0, len(profiles)-1, "profile")]
			}
			return pf.Gen(t)
		},
		Check: func(sc lab.Scenario) (res vprop.Result) {
			rr := lab.Run(&sc, opts)
			res.Sample = sc.Summary()
			if rr.NewErr != nil {
				res.Skip = true
				res.Label("workstream-construction-failed")
				return res
			}
			if unusualNameRefused(&sc, rr, &res) {
				return res
			}
			if rr.Stalled {
				res.Label("stalled")
			}
			if len(sc.Plans) > 1 {
				res.Label("multi-plan")
			}
			if sc.CancelStartUs != 0 {
				res.Label("start-context-cancelled-mid-run")
			}
			if check != nil {
				check(rr, &res)
			}
			return res
		},
		Journal:      true,
		ReplayRepeat: 25,
	}
}

func withProfile(base lab.Profile, f func(p *lab.Profile)) lab.Profile {
	f(&base)
	return base
}

var (
	pfOrder = withProfile(lab.ProfileDefault, func(p *lab.Profile) {
		p.Name = "order"
		p.PGroup, p.PBypass, p.PFailSeqAct, p.PFailCheckAct, p.PGate = 45, 10, 10, 6, 40
		p.MaxBlocks, p.MaxActs = 4, 3
		p.PBypassOK = 20
	})
	pfWidth = withProfile(lab.ProfileDefault, func(p *lab.Profile) {
		p.Name = "width"
		p.PGroup, p.PBypass, p.PFailSeqAct, p.PFailCheckAct, p.PContFail = 10, 0, 6, 2, 0
		p.PGate, p.GateFirstOnly, p.BigBlocks, p.MaxSeqs, p.MaxBlocks = 85, true, true, 6, 2
		p.PRetry = 10
	})
	pfTolerance = withProfile(lab.ProfileDefault, func(p *lab.Profile) {
		p.Name = "tolerance"
		p.PGroup, p.PBypass, p.PFailSeqAct, p.PFailCheckAct, p.PContFail = 12, 0, 35, 3, 5
		p.PlanContMayFail = false
		p.PGate, p.BigBlocks, p.MaxSeqs, p.MaxBlocks, p.MaxActs = 50, true, 6, 3, 2
	})
	pfVerdict = withProfile(lab.ProfileDefault, func(p *lab.Profile) {
		p.Name = "verdict"
		p.PGroup, p.PBypass, p.PFailSeqAct, p.PFailCheckAct, p.PContFail = 40, 15, 18, 12, 25
		p.PGate, p.BigBlocks, p.MaxSeqs = 35, true, 6
		p.ContDelays = []int{0, 0, 1, 2, 3, 4}
	})
	pfAttempts = withProfile(lab.ProfileDefault, func(p *lab.Profile) {
		p.Name = "attempts"
		p.PRetry, p.MaxRetries, p.PFailSeqAct, p.PFailCheckAct = 70, 3, 15, 15
		p.PGroup, p.PGate, p.MaxPlans = 35, 10, 2
	})
	pfGates = withProfile(lab.ProfileDefault, func(p *lab.Profile) {
		p.Name = "gates"
		p.PGroup, p.PBypass, p.PBypassOK, p.PFailCheckAct, p.PContFail, p.MaxContFailRun = 55, 55, 65, 18, 30, 2
		p.MaxSeqs, p.MaxActs, p.PGate = 3, 2, 15
	})
	pfCont = withProfile(lab.ProfileDefault, func(p *lab.Profile) {
		p.Name = "cont-deferred"
		p.PGroup, p.PBypass, p.PFailCheckAct, p.PContFail, p.MaxContFailRun = 55, 10, 12, 45, 6
		p.PFailSeqAct, p.PGate, p.DeferredRetries0 = 15, 60, true
		p.ContDelays = []int{0, 0, 1, 2, 4}
		p.PLongHold = 12
	})
	pfDurability = withProfile(lab.ProfileDefault, func(p *lab.Profile) {
		p.Name = "durability"
		p.PRetry, p.MaxRetries, p.PPoll, p.PWriteLat, p.MaxActs = 50, 3, 90, 60, 3
		p.PGroup, p.PGate = 30, 25
	})
)

func TestC01(t *testing.T) {
	vprop.Run(t, engineSpec("C01", []lab.Profile{pfOrder, pfOrder, pfTolerance, pfVerdict}, lab.RunOpts{}, func(rr *lab.RunResult, res *vprop.Result) {
		sc := rr.Sc
		groups, multiAct := false, false
		for pi := range sc.Plans {
			p := &sc.Plans[pi]
			for gi := 0; gi < 5; gi++ {
				if p.Group(gi) != nil {
					groups = true
				}
			}
			for bi := range p.Blocks {
				for gi := 0; gi < 5; gi++ {
					if p.Blocks[bi].Group(gi) != nil {
						groups = true
					}
				}
				for _, s := range p.Blocks[bi].Seqs {
					if len(s.Actions) >= 2 {
						multiAct = true
					}
				}
			}
			if len(p.Blocks) >= 2 {
				multiAct = true
			}
		}
		res.NonTrivial = groups && multiAct
		lab.CheckC01(rr, res)
	}))
}

func TestC02(t *testing.T) {
	vprop.Run(t, engineSpec("C02", []lab.Profile{pfWidth, pfWidth, pfTolerance}, lab.RunOpts{}, func(rr *lab.RunResult, res *vprop.Result) {
		pressed := lab.CheckC02(rr, res)
		res.NonTrivial = pressed
		if pressed {
			res.Label("bound-pressed")
		}
		// "At every instant ...": also in the process that resumes the plan after a crash
		if sc := rr.Sc; sc.RecoverPermille > 0 && len(res.Violations) == 0 && !rr.Stalled && !sc.HasOverrun() {
			if rr1, ok := lab.RecoverAtPrefix(sc, rr, sc.RecoverPermille); ok {
				res.Label("bound-judged-after-restart")
				if lab.CheckC02(rr1, res) {
					res.Label("bound-pressed-after-restart")
				}
				if n := len(res.Violations); n > 0 {
					res.Violations[n-1].Rule += ":after-restart"
				}
			}
		}
	}))
}

func TestC03(t *testing.T) {
	vprop.Run(t, engineSpec("C03", []lab.Profile{pfTolerance}, lab.RunOpts{}, func(rr *lab.RunResult, res *vprop.Result) {
		crossed := lab.CheckC03(rr, res)
		failing := false
		for _, pr := range rr.Plans {
			if pr.Final == nil {
				continue
			}
			for _, b := range pr.Final.Blocks {
				for _, s := range b.Sequences {
					if s.State != nil && s.State.Status == 300 {
						failing = true
					}
				}
			}
		}
		res.NonTrivial = failing
		if crossed {
			res.Label("threshold_crossed_with_queue")
		}
	}))
}

func TestC04(t *testing.T) {
	vprop.Run(t, engineSpec("C04", []lab.Profile{pfVerdict, pfVerdict, pfTolerance, pfCont, pfGates}, lab.RunOpts{Grace: 12_000_000}, func(rr *lab.RunResult, res *vprop.Result) {
		sc := rr.Sc
		nt := len(sc.Plans) > 1
		for _, pr := range rr.Plans {
			if pr.Final != nil && pr.Final.State != nil && pr.Final.State.Status == 300 {
				nt = true
				res.Label("plan-failed")
			}
		}
		for pi := range sc.Plans {
			if sc.Plans[pi].Cont != nil {
				nt = true
			}
			for bi := range sc.Plans[pi].Blocks {
				if sc.Plans[pi].Blocks[bi].Cont != nil {
					nt = true
				}
			}
		}
		res.NonTrivial = nt
		lab.CheckC04(rr, res)
	}))
}

// pfOverrun: small plans whose actions overrun the (minimum, 5 s) timeout; several plans run at once so that the
// timeouts elapse in parallel ("batched", DESIGN §5 C05). Submit's 5 s floor is not bypassed.
var pfOverrun = withProfile(lab.ProfileDefault, func(p *lab.Profile) {
	p.Name = "overrun"
	p.MaxPlans, p.MaxBlocks, p.MaxSeqs, p.MaxActs, p.MaxCheckActs = 3, 1, 4, 2, 2
	p.PGroup, p.PBypass, p.PContFail, p.PGate, p.PPoll, p.PWriteLat, p.PDelay = 25, 0, 0, 0, 0, 0, 0
	p.PRetry, p.MaxRetries, p.PFailSeqAct, p.PFailCheckAct, p.POverrun = 75, 1, 30, 20, 70
	p.ContDelays = []int{2}
})

func TestC05(t *testing.T) {
	spec := engineSpec("C05", []lab.Profile{pfAttempts}, lab.RunOpts{}, func(rr *lab.RunResult, res *vprop.Result) {
		sc := rr.Sc
		sc.EachAction(func(r lab.Ref, a *lab.ActionSpec) {
			if len(a.Script) >= 2 || (len(a.Script) == 1 && a.Script[0].Out != lab.OK) {
				res.NonTrivial = true
			}
		})
		if sc.HasOverrun() {
			res.Label("overrun-batch")
		}
		lab.CheckC05(rr, res)
	})
	// one case in 256 (8 fair coins) is an overrun batch: each costs 5-15 s of wall time
	plain := spec.Gen
	spec.Gen = func(t *rapid.T) lab.Scenario {
		batch := true
		for i := 0; i < 8; i++ {
			if !rapid.Bool().Draw(t, "overrunBatch") {
				batch = false
			}
		}
		if batch {
			sc := pfOverrun.Gen(t)
			if !sc.HasOverrun() { // construction, not rejection: every batch has at least one overrunning attempt
				sc.Plans[0].Blocks[0].Seqs[0].Actions[0].Script[0].Out = lab.Overrun
			}
			sc.Timeout5s = true
			return sc
		}
		return plain(t)
	}
	vprop.Run(t, spec)
}

func TestC06(t *testing.T) {
	vprop.Run(t, engineSpec("C06", []lab.Profile{pfGates}, lab.RunOpts{}, func(rr *lab.RunResult, res *vprop.Result) {
		sc := rr.Sc
		for pi := range sc.Plans {
			p := &sc.Plans[pi]
			if p.Bypass != nil {
				res.NonTrivial = true
				res.Label("plan-bypass-group")
			}
			for bi := range p.Blocks {
				if p.Blocks[bi].Bypass != nil {
					res.NonTrivial = true
					res.Label("block-bypass-group")
				}
			}
		}
		for _, pr := range rr.Plans {
			if pr.Final == nil {
				continue
			}
			if pr.Final.PreChecks != nil && pr.Final.PreChecks.State.Status == 300 {
				res.NonTrivial = true
				res.Label("plan-precheck-failed")
			}
			for _, b := range pr.Final.Blocks {
				if b.PreChecks != nil && b.PreChecks.State.Status == 300 {
					res.NonTrivial = true
					res.Label("block-precheck-failed")
				}
			}
		}
		lab.CheckC06(rr, res)
	}))
}

func TestC07(t *testing.T) {
	vprop.Run(t, engineSpec("C07", []lab.Profile{pfCont}, lab.RunOpts{}, func(rr *lab.RunResult, res *vprop.Result) {
		late, held := lab.CheckC07(rr, res)
		if held {
			res.Label("held-under-cont-check-until-rerun")
		}
		if late {
			res.NonTrivial = true
			res.Label("cont-failed-at-run>=2")
		}
		for pi, pr := range rr.Plans {
			if pr.Final == nil {
				continue
			}
			p := &rr.Sc.Plans[pi]
			if pr.Final.State.Status == 300 && p.Deferred != nil {
				res.NonTrivial = true
				res.Label("failed-plan-with-deferred")
			}
			for bi, b := range pr.Final.Blocks {
				if b.State.Status == 300 && p.Blocks[bi].Deferred != nil {
					res.NonTrivial = true
					res.Label("failed-block-with-deferred")
				}
			}
		}
	}))
}

// C08Case: a scenario plus optional write-fault points (permille of the run's storage updates): for each, a child
// process runs the scenario with that storage update failing and its event log is judged with the same rules.
type C08Case struct {
	Sc    lab.Scenario
	Fault []int
}

func TestC08(t *testing.T) {
	base := engineSpec("C08", []lab.Profile{pfDurability}, lab.RunOpts{}, nil)
	vprop.Run(t, vprop.Spec[C08Case]{
		ID: "C08",
		Gen: func(t *rapid.T) C08Case {
			c := C08Case{Sc: base.Gen(t)}
			if lab.Pct(t, 12, "writeFault") {
				n := lab.Rng(t, 1, 2, "nFaults")
				for i := 0; i < n; i++ {
					c.Fault = append(c.Fault, lab.Rng(t, 0, 1000, "faultAt"))
				}
			}
			return c
		},
		Check: func(c C08Case) (res vprop.Result) {
			sc := c.Sc
			rr := lab.Run(&sc, lab.RunOpts{})
			res.Sample = map[string]any{"scenario": sc.Summary(), "write_fault_permille": c.Fault}
			if rr.NewErr != nil {
				res.Skip = true
				return res
			}
			if unusualNameRefused(&sc, rr, &res) {
				return res
			}
			if rr.Stalled {
				res.Label("stalled")
			}
			if len(sc.Plans) > 1 {
				res.Label("multi-plan")
			}
			mid := lab.CheckC08(rr, &res)
			retryOrMulti := false
			sc.EachAction(func(r lab.Ref, a *lab.ActionSpec) {
				if len(a.Script) >= 2 || (r.IsSeq() && r.Act >= 1) {
					retryOrMulti = true
				}
			})
			res.NonTrivial = retryOrMulti
			if mid >= 3 {
				res.Label("polls-mid-run>=3")
			}
			if len(res.Violations) > 0 || len(c.Fault) == 0 {
				return res
			}
			updates := 0
			for _, e := range rr.Events {
				if e.Kind == lab.EvWriteEnd && e.W != nil && !e.W.Create {
					updates++
				}
			}
			for _, p := range c.Fault {
				if updates < 2 {
					break
				}
				res.Label("with-write-fault")
				lab.WriteFault(&sc, 1+p*(updates-1)/1000, &res)
				if len(res.Violations) > 0 {
					break
				}
			}
			return res
		},
		Journal:      true,
		ReplayRepeat: 10,
	})
}
