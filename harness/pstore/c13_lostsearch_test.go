package pstore

// C13, cosmosdb arm, mode "lost search replace": an UpdatePlan that is cut in two, followed by the vault's Recovery.
//
// The cosmosdb vault writes a plan's document and its search entry in two steps that are not atomic; its Recovery()
// ("a Vault that must do some recovery operation before it can be used after a failure or restart") exists to repair a
// search entry that lags behind. A case: a small plan is created, stored Running (document and search entry agree), then
// UpdatePlan writes a terminal state while the transactional batch addressed to the search partition is refused (hook
// VerifFakeControl.FailBatch): the document carries the terminal state, the search entry still says Running. Then
// Recovery() runs, as coercion.New runs it at every start-up, and the plan is read.
// Oracle ("reading a plan returns exactly what was last written ... the latest status, nanosecond timestamps, failure
// reason"): the update that was cut in two either counts as written or it does not — the plan-level status, start, end
// and reason read back must ALL be those of the terminal update or ALL be those of the Running state before it, never a
// mixture, and the definition is unchanged. Uses the verif hook cosmosdb.NewVerifFakeVaultWithStatusSearch (the
// package's own fake answers a search by status with nothing, which would make Recovery a no-op).

import (
	"context"
	"fmt"
	"time"

	"pgregory.net/rapid"

	"github.com/element-of-surprise/coercion/workflow"
	"github.com/element-of-surprise/coercion/workflow/storage"
	"github.com/element-of-surprise/coercion/workflow/storage/cosmosdb"

	"verifharness/store"
	"verifharness/vprop"
)

// LostSearch describes the experiment.
type LostSearch struct {
	Spec store.PlanSpec
	// Terminal: 0 Completed, 1 Failed, 2 Stopped.
	Terminal int
	// Reason indexes store.ReasonOf (used for Failed).
	Reason int
	// StartSec / RunSec: unix second of State.Start and the length of the run in seconds.
	StartSec int64
	RunSec   int64
	// Others: further plans stored Running (and left alone); Recovery rewrites them too and must not change them.
	Others int
}

func genLostSearch(t *rapid.T) *LostSearch {
	cfg := store.DefaultCfg
	cfg.MaxBlocks, cfg.MaxSeqs, cfg.MaxActions, cfg.Plain = 2, 2, 2, true
	return &LostSearch{
		Spec:     cfg.Plan(t, "lost", 1),
		Terminal: store.Uniform(t, 3, "lostterminal"),
		Reason:   1 + store.Uniform(t, 5, "lostreason"),
		StartSec: 1_600_000_000 + int64(store.Uniform(t, 100_000_000, "loststart")),
		RunSec:   1 + int64(store.Uniform(t, 100_000, "lostrun")),
		Others:   store.Uniform(t, 3, "lostothers"),
	}
}

func checkLostSearch(c Program) (res vprop.Result) {
	arm := store.ArmCosmosFake
	res.Label("arm:" + arm)
	res.Label("mode:lost-search-replace")
	vprop.Count("cases:"+arm, 1)
	ls := c.Lost
	fail := func(rule, format string, a ...any) { res.Fail(armRule("C13", arm, rule), format, a...) }
	ctx := context.Background()
	reg := store.NewRegistry()
	var v *cosmosdb.Vault
	var ctl *cosmosdb.VerifFakeControl
	if guard(&res, "C13", arm, "opening the vault", func() { v, ctl = cosmosdb.NewVerifFakeVaultWithStatusSearch(reg) }) {
		return res
	}
	pristine := store.Pristine(ls.Spec)
	start := time.Unix(ls.StartSec, 0).UTC()
	end := start.Add(time.Duration(ls.RunSec) * time.Second)

	// storeRunning creates the plan of the specification and stores it Running.
	storeRunning := func(spec store.PlanSpec) (*workflow.Plan, bool) {
		var cerr error
		plan := store.Build(spec)
		if guard(&res, "C13", arm, "Create", func() { cerr = v.Create(ctx, plan) }) {
			return nil, false
		}
		if cerr != nil {
			res.Skip = true
			res.Label("lost_search_setup_failed")
			return nil, false
		}
		var p *workflow.Plan
		var err error
		if guard(&res, "C13", arm, "Read", func() { p, err = v.Read(ctx, plan.ID) }) {
			return nil, false
		}
		if err != nil || p == nil || p.State == nil {
			res.Skip = true
			res.Label("lost_search_setup_failed")
			return nil, false
		}
		p.State.Status, p.State.Start = workflow.Running, start
		if guard(&res, "C13", arm, "UpdatePlan", func() { err = v.UpdatePlan(ctx, p) }) {
			return nil, false
		}
		if err != nil {
			res.Skip = true
			res.Label("lost_search_setup_failed")
			return nil, false
		}
		return p, true
	}
	p, ok := storeRunning(pristine)
	if !ok {
		return res
	}
	var others []*workflow.Plan
	for i := 0; i < ls.Others; i++ {
		o := store.Pristine(pristine)
		o.Seed += uint64(1000 * (i + 1))
		op, ok := storeRunning(o)
		if !ok {
			return res
		}
		others = append(others, op)
	}
	var before *workflow.Plan
	var err error
	if guard(&res, "C13", arm, "Read", func() { before, err = v.Read(ctx, p.ID) }) {
		return res
	}
	if err != nil {
		res.Skip = true
		res.Label("lost_search_setup_failed")
		return res
	}

	// the terminal update, cut in two: the batch addressed to the search partition is refused
	term := []workflow.Status{workflow.Completed, workflow.Failed, workflow.Stopped}[ls.Terminal%3]
	reason := workflow.FailureReason(0)
	if term == workflow.Failed {
		reason = store.ReasonOf(ls.Reason)
	}
	p.State.Status, p.State.End, p.Reason = term, end, reason
	ctl.FailBatch(cosmosdb.VerifSearchPartition, 1)
	var uerr error
	if guard(&res, "C13", arm, "UpdatePlan under a refused search batch", func() { uerr = v.UpdatePlan(ctx, p) }) {
		return res
	}
	hit := ctl.Batches() >= 1
	ctl.FailBatch("", 0)
	switch {
	case !hit:
		res.Label("lost_search_fault_not_reached")
	case uerr == nil:
		res.Label("lost_search_update_reported_ok")
	default:
		res.Label("lost_search_update_failed_midway")
		res.NonTrivial = true
		vprop.Count("lost_search_update_failed_midway", 1)
	}

	// the start-up repair
	var rerr error
	if guard(&res, "C13", arm, "Recovery", func() { rerr = storage.Recovery(v).Recovery(ctx) }) {
		return res
	}
	if rerr != nil {
		res.Label("lost_search_recovery_error")
	}
	var got *workflow.Plan
	if guard(&res, "C13", arm, "Read after Recovery", func() { got, err = v.Read(ctx, p.ID) }) {
		return res
	}
	where := fmt.Sprintf("plan stored Running (start %s), then UpdatePlan(%v, end %s, reason %v) with the search-partition batch refused (update error: %v), then Recovery (error: %v)", start.Format(time.RFC3339), term, end.Format(time.RFC3339), reason, uerr, rerr)
	if err != nil || got == nil || got.State == nil {
		fail("read-after-lost-search-replace:unreadable", "%s: the plan cannot be read: %v", where, err)
		return res
	}
	isOld := got.State.Status == workflow.Running && got.State.Start.Equal(start) && got.State.End.IsZero() && got.Reason == before.Reason
	isNew := got.State.Status == term && got.State.Start.Equal(start) && got.State.End.Equal(end) && got.Reason == reason
	if uerr == nil && hit {
		isOld = false // an update that reported success was written
	}
	if !isOld && !isNew {
		fail("read-after-lost-search-replace:plan.state", "%s: Read returns status=%v start=%s end=%s reason=%v, which is neither the state before the update (Running, no end) nor the state the update wrote",
			where, got.State.Status, got.State.Start.UTC().Format(time.RFC3339), got.State.End.UTC().Format(time.RFC3339), got.Reason)
		return res
	}
	if isNew {
		res.Label("lost_search_reads_new_state")
	} else {
		res.Label("lost_search_reads_old_state")
	}
	// the definition and the sub-objects are untouched by all of this
	exp := *before
	st := *got.State
	exp.State, exp.Reason = &st, got.Reason
	if diffs := store.DiffPlans(&exp, got, store.CmpOpt{ActionsAnyOrder: true}); len(diffs) > 0 {
		fail("read-after-lost-search-replace:"+diffs[0].Field, "%s: the plan read back differs from what was stored:%s", where, diffText(diffs))
		return res
	}
	for _, o := range others {
		var og *workflow.Plan
		if guard(&res, "C13", arm, "Read", func() { og, err = v.Read(ctx, o.ID) }) {
			return res
		}
		if err != nil || og == nil || og.State == nil || og.State.Status != workflow.Running || !og.State.Start.Equal(start) || !og.State.End.IsZero() {
			fail("read-after-lost-search-replace:other-plan", "%s: another plan that was stored Running and left alone reads back as %s (error %v)", where, planSummary(og), err)
			return res
		}
	}
	return res
}
