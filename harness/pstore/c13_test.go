package pstore

// C13 — Storage round trip: Read returns exactly what was last written.
//
// Statement: "For every vault implementation, reading a plan returns exactly what was last written: after Create the
// full definition (names, descriptions, keys, group, meta, order of blocks, sequences and actions, delays, concurrency,
// tolerances, timeouts, retries, typed requests) and, after any sequence of object updates, the latest status,
// nanosecond timestamps, failure reason and attempts with typed responses and errors of every object. Reading an id that
// was never created, or was deleted, returns an error and never an empty plan."
//
// A case is a plain-data program (vault arm + list of operations). The interpreter runs it against a fresh vault and an
// in-memory model that holds, object by object, what was last written; after EVERY step every plan that was ever
// created is read back: live plans must equal the model (comparers of DESIGN §4.4), deleted ones must give an error.
//
// Model of an update (sound reading of "what was last written"): storage.Updater documents that UpdatePlan / UpdateBlock
// / UpdateChecks / UpdateSequence / UpdateAction write only that object's own state "but not underlying data", so an
// update changes, in the model, only status/start/end of that one object (+ reason for plans, + attempts for actions).
// Updates are made the way the engine makes them: on objects obtained from Vault.Read (they carry the plan id and, for
// cosmos, the ETag), with only state fields changed.

//
// Rare class "attempt strings with invalid UTF-8" (about 3 % of the updates of actions): one string of one attempt (the
// message of the error at depth 0/1/2 of the Wrapped chain, or a string field of the typed response) holds bytes that are
// not valid UTF-8. A vault may not be able to store such a string, and the statement says nothing about a write that was
// refused, so the update has a two-outcome oracle:
//   - UpdateAction returns an error: the write did not happen (label invalid_utf8_update:refused). The model is NOT
//     updated: the action keeps the state that was last written and the plan stays judged on every later read. This is
//     sound because an Update* that returned an error wrote nothing "last": what was last written is still the previous
//     state, and it was checked on the unchanged tree that it holds on every arm: sqlite (updater_actions.go) and cosmosdb
//     (updater_actions.go) both call encodeAttempts BEFORE they touch the connection / build the patch request, and
//     encodeAttempts is where go-json-experiment rejects the string, so nothing reaches the storage (all three arms stay
//     silent over the quick tier at several seeds with this reading). The object tree retained from the earlier Read
//     was mutated for the call and is dropped (the next update starts from a fresh Read), so no later call can carry the
//     refused bytes.
//   - UpdateAction returns nil: it was written (label invalid_utf8_update:stored). The model takes EXACTLY the bytes
//     that were handed over and every later Read must return them byte for byte (store.DiffPlans compares Go strings with
//     ==, no UTF-8 normalisation): rules read-after-update:attempt.err / read-after-update:attempt.resp.

import (
	"context"
	"fmt"
	"os"
	"strings"
	"testing"
	"time"

	"pgregory.net/rapid"

	"github.com/element-of-surprise/coercion/workflow"
	"github.com/element-of-surprise/coercion/workflow/storage"

	"verifharness/store"
	"verifharness/vprop"
)

// Op is one operation of a storage program.
type Op struct {
	// Kind: "create", "update", "delete", "refresh", "readUnknown", "createFailing", "reopen".
	Kind string
	// Slot is the plan slot the operation works on.
	Slot int
	// Spec is the plan to create.
	Spec *store.PlanSpec `json:",omitempty"`
	// Target / Update describe an update.
	Target *store.Target `json:",omitempty"`
	Update *store.Update `json:",omitempty"`
	// Direct hands a specification that carries execution state to Create as it is; otherwise (default) the pristine
	// image is created and brought to that state by Update* calls.
	Direct bool `json:",omitempty"`
	// Fresh makes an update use an object from a fresh Read instead of the one retained from an earlier Read.
	Fresh bool `json:",omitempty"`
	// N numbers the unknown ids.
	N uint32 `json:",omitempty"`
}

// Program is a C13 case.
type Program struct {
	Arm  string
	Seed uint64
	Ops  []Op
	// Lost, when set, makes the case a "lost search replace" experiment on the cosmosdb arm (c13_lostsearch_test.go).
	Lost *LostSearch `json:",omitempty"`
}

const c13MaxPlans = 4

// c13BadUTF8Percent: share of the generated updates of actions that carry an attempt string with invalid UTF-8.
const c13BadUTF8Percent = 3

// genArm draws the vault arm. $VERIF_STORE_ARM pins it (debugging aid for focused runs; never set by the driver).
func genArm(t *rapid.T) string {
	if a := os.Getenv("VERIF_STORE_ARM"); a != "" {
		return a
	}
	switch u := store.Uniform(t, 100, "arm"); {
	case u < 86:
		return store.ArmSqliteMem
	case u < 92:
		return store.ArmSqliteFile
	default:
		return store.ArmCosmosFake
	}
}

func genProgram(t *rapid.T) Program {
	p := Program{Arm: genArm(t), Seed: rapid.Uint64().Draw(t, "seed")}
	if p.Arm == store.ArmCosmosFake && store.Uniform(t, 4, "lostsearch") == 3 {
		p.Lost = genLostSearch(t)
		return p
	}
	type gslot struct {
		spec *store.PlanSpec
		live bool
	}
	var slots []gslot
	liveSlots := func() []int {
		var out []int
		for i, s := range slots {
			if s.live {
				out = append(out, i)
			}
		}
		return out
	}
	var unknown uint32
	failing := 0
	// program length <= 40 operations, skewed towards short programs (many small cases beat few large ones); the
	// cosmos fake re-writes every document of a plan on each patch operation, so its programs are kept shorter
	maxPlans, cfg := c13MaxPlans, store.DefaultCfg
	// rare class "attempt strings with invalid UTF-8": c13BadUTF8Percent of the updates of actions (all arms), see the
	// two-outcome oracle in checkProgram
	cfg.BadUTF8Percent = c13BadUTF8Percent
	maxOps := rapid.SampledFrom([]int{6, 12, 12, 24, 40}).Draw(t, "maxops")
	if p.Arm == store.ArmCosmosFake {
		maxPlans, cfg.MaxBlocks = 2, 2
		maxOps = min(maxOps, 12)
	}
	n := rapid.IntRange(1, maxOps).Draw(t, "nops")
	for i := 0; i < n; i++ {
		live := liveSlots()
		kind := "update"
		switch r := rapid.IntRange(0, 20).Draw(t, "opkind"); {
		case r == 20:
			kind = "createFailing"
		case len(live) == 0:
			kind = "create"
			if r >= 17 {
				kind = "readUnknown"
			}
		case r <= 9:
			kind = "update"
		case r <= 12:
			kind = "create"
		case r <= 14:
			kind = "delete"
		case r <= 16:
			kind = "readUnknown"
		case r == 17:
			kind = "refresh"
		default:
			if p.Arm == store.ArmSqliteFile {
				kind = "reopen"
			}
		}
		if kind == "create" && len(slots) >= maxPlans {
			if len(live) == 0 {
				kind = "readUnknown"
			} else {
				kind = "update"
			}
		}
		switch kind {
		case "create":
			cfg := cfg
			cfg.WithState = rapid.IntRange(0, 3).Draw(t, "withstate") == 3
			spec := cfg.Plan(t, fmt.Sprintf("p%d", len(slots)), len(slots)+1)
			slots = append(slots, gslot{spec: &spec, live: true})
			op := Op{Kind: kind, Slot: len(slots) - 1, Spec: &spec}
			if cfg.WithState {
				// a plan with execution state is normally stored the way the engine does it: Create of the pristine plan,
				// then one Update* per object; a minority is handed to Create directly (tolerated when refused)
				op.Direct = rapid.IntRange(0, 3).Draw(t, "direct") == 3
			}
			p.Ops = append(p.Ops, op)
		case "update":
			s := live[rapid.IntRange(0, len(live)-1).Draw(t, "slot")]
			tgs := store.Targets(*slots[s].spec)
			tg := tgs[rapid.IntRange(0, len(tgs)-1).Draw(t, "target")]
			u := cfg.Update(t, "upd", slots[s].spec, tg)
			p.Ops = append(p.Ops, Op{Kind: kind, Slot: s, Target: &tg, Update: &u, Fresh: rapid.Bool().Draw(t, "fresh")})
		case "delete":
			s := live[rapid.IntRange(0, len(live)-1).Draw(t, "slot")]
			slots[s].live = false
			p.Ops = append(p.Ops, Op{Kind: kind, Slot: s})
		case "refresh":
			s := live[rapid.IntRange(0, len(live)-1).Draw(t, "slot")]
			p.Ops = append(p.Ops, Op{Kind: kind, Slot: s})
		case "readUnknown":
			unknown++
			p.Ops = append(p.Ops, Op{Kind: kind, N: unknown})
		case "createFailing":
			// a plan that cannot be stored: one request cannot be encoded (a channel behind an `any` field, NaN, ...)
			failing++
			pcfg := store.DefaultCfg
			pcfg.Poison, pcfg.MaxBlocks, pcfg.Plain = true, 2, true
			spec := pcfg.Plan(t, "bad", 100+failing)
			var acts []store.Target
			for _, tg := range store.Targets(spec) {
				if tg.Kind == "action" {
					acts = append(acts, tg)
				}
			}
			tg := acts[rapid.IntRange(0, len(acts)-1).Draw(t, "badpos")]
			store.ResolveActionSpec(&spec, tg).Poison = rapid.IntRange(store.PoisonChan, store.PoisonLast).Draw(t, "badkind")
			p.Ops = append(p.Ops, Op{Kind: kind, Slot: -1, Spec: &spec})
		case "reopen":
			p.Ops = append(p.Ops, Op{Kind: kind})
		}
	}
	return p
}

type c13slot struct {
	pm   *store.PlanModel
	live *workflow.Plan // object tree retained from a Read, as the engine holds it while it executes the plan
}

type c13run struct {
	res   *vprop.Result
	arm   string
	h     *store.Handle
	model *store.Model
	slots map[int]*c13slot
	reads int64
	// nt: a read compared a plan that had >= 1 update and (>= 2 blocks or a multi-attempt action)
	nt bool
}

func (r *c13run) fail(rule, format string, a ...any) {
	r.res.Fail(armRule("C13", r.arm, rule), format, a...)
}

func (r *c13run) failed() bool { return len(r.res.Violations) > 0 || r.res.Skip }

// cmpOpt: on the cosmos fake the order of actions is never judged (see cmpOptFor): the fake's query pager ignores
// "ORDER BY c.pos"; what it returns is the insertion order of Create's batch and, after a patch, map-iteration order.
func (r *c13run) cmpOpt(pm *store.PlanModel) store.CmpOpt {
	return cmpOptFor(r.arm)
}

// verifyAll reads every plan that was ever created. Clause: "reading a plan returns exactly what was last written" for
// live plans; "Reading an id that ... was deleted, returns an error and never an empty plan" for deleted ones.
func (r *c13run) verifyAll(step int, after string) {
	ctx := context.Background()
	for _, id := range r.model.Order {
		pm := r.model.Plans[id]
		var got *workflow.Plan
		var err error
		if guard(r.res, "C13", r.arm, fmt.Sprintf("Read after step %d (%s)", step, after), func() { got, err = r.h.Vault.Read(ctx, id) }) {
			return
		}
		r.reads++
		if pm.Deleted {
			if err == nil {
				r.fail("read-deleted:no-error", "step %d (%s): Read of deleted plan %s returned no error (plan=%s)", step, after, id, planSummary(got))
				return
			}
			continue
		}
		if err != nil {
			r.fail("read-error", "step %d (%s): Read of stored plan %s failed: %v", step, after, id, err)
			return
		}
		diffs := store.DiffPlans(pm.Plan, got, r.cmpOpt(pm))
		if len(diffs) > 0 {
			phase := "read-after-create"
			if pm.Updates > 0 {
				phase = "read-after-update"
			}
			var sb strings.Builder
			for _, d := range diffs {
				sb.WriteString("\n    " + d.String())
			}
			r.fail(phase+":"+diffs[0].Field, "step %d (%s): plan %s read back differs from what was last written (%d updates so far):%s", step, after, id, pm.Updates, sb.String())
			return
		}
		if pm.Updates > 0 && (len(pm.Spec.Blocks) >= 2 || pm.MaxAttempts >= 2) {
			r.nt = true
		}
		if r.arm == store.ArmCosmosFake {
			vprop.Count("cosmos_fake_action_order_unjudged_reads", 1)
		}
		for _, s := range r.slots {
			if s.pm == pm && s.live == nil {
				s.live = got
			}
		}
	}
}

func planSummary(p *workflow.Plan) string {
	if p == nil {
		return "nil"
	}
	return fmt.Sprintf("{ID:%s Name:%q Blocks:%d State:%v}", p.ID, p.Name, len(p.Blocks), p.State != nil)
}

func callUpdate(ctx context.Context, v storage.Vault, obj workflow.Object) error {
	switch o := obj.(type) {
	case *workflow.Plan:
		return v.UpdatePlan(ctx, o)
	case *workflow.Checks:
		return v.UpdateChecks(ctx, o)
	case *workflow.Block:
		return v.UpdateBlock(ctx, o)
	case *workflow.Sequence:
		return v.UpdateSequence(ctx, o)
	case *workflow.Action:
		return v.UpdateAction(ctx, o)
	}
	return fmt.Errorf("unknown object type %T", obj)
}

func checkProgram(c Program) (res vprop.Result) {
	if c.Lost != nil {
		return checkLostSearch(c)
	}
	arm := c.Arm
	res.Label("arm:" + arm)
	res.Label("ops:" + sizeClass(len(c.Ops), 5, 15, 40))
	vprop.Count("cases:"+arm, 1)

	reg := store.NewRegistry()
	h, err := store.Open(arm, reg)
	if err != nil {
		res.Skip = true
		res.Label("vault_open_failed")
		return res
	}
	defer h.Close()
	r := &c13run{res: &res, arm: arm, h: h, model: store.NewModel(), slots: map[int]*c13slot{}}
	ctx := context.Background()
	t0 := time.Now()
	defer func() {
		res.NonTrivial = r.nt
		vprop.Count("reads_compared:"+arm, r.reads)
		vprop.Count("exec_ms:"+arm, time.Since(t0).Milliseconds()) // cost accounting only, never a verdict
	}()

	seen := map[string]bool{}
	mark := func(l string) {
		if !seen[l] {
			seen[l] = true
			res.Label(l)
		}
	}

	for i, op := range c.Ops {
		switch op.Kind {
		case "create":
			if op.Spec == nil || r.slots[op.Slot] != nil {
				mark("skipped_op")
				continue
			}
			classifySpec(op.Spec, mark)
			full := *op.Spec
			stateful := !store.IsPristine(full)
			created := full
			if stateful && !op.Direct {
				created = store.Pristine(full)
			}
			plan := store.Build(created)
			var cerr error
			if guard(&res, "C13", arm, fmt.Sprintf("Create at step %d", i), func() { cerr = h.Vault.Create(ctx, plan) }) {
				return res
			}
			if cerr != nil && stateful && op.Direct {
				// The statement gives Create "the full definition" and leaves status, times, reason and attempts to "object
				// updates": a vault may refuse a plan that already carries execution state. Nothing was written; the plan
				// never enters the model and later operations on its slot are skipped.
				mark("create_nonpristine_refused")
				continue
			}
			if cerr != nil {
				// a pristine plan as Submit creates it (ids, NotStarted states, >= 1 block/sequence/action): Create must take it
				r.fail("create-error", "step %d: Create of a valid pristine plan failed: %v", i, cerr)
				return res
			}
			pm := r.model.Create(created)
			sl := &c13slot{pm: pm}
			r.slots[op.Slot] = sl
			vprop.Count("creates:"+arm, 1)
			switch {
			case stateful && op.Direct:
				mark("create_with_state_direct")
			case stateful:
				// bring the stored plan to the generated state the way the engine does: Update* object by object
				mark("create_then_updates")
				var got *workflow.Plan
				var rerr error
				if guard(&res, "C13", arm, fmt.Sprintf("Read after Create at step %d", i), func() { got, rerr = h.Vault.Read(ctx, pm.Plan.ID) }) {
					return res
				}
				if rerr != nil || got == nil {
					r.fail("read-error", "step %d: Read of stored plan %s failed: %v", i, pm.Plan.ID, rerr)
					return res
				}
				sl.live = got
				for _, tg := range store.Targets(full) {
					u := store.UpdateFor(&full, tg)
					if u.State == (store.StateSpec{}) && u.Reason == 0 && len(u.Attempts) == 0 {
						continue // nothing to write for this object
					}
					want := store.Resolve(pm.Plan, tg)
					obj := store.FindByID(sl.live, store.ObjectID(want))
					if want == nil || obj == nil || isNilObject(obj) {
						break // the read that follows reports what is wrong with the stored plan
					}
					plugin := -1
					if a := store.ResolveActionSpec(&full, tg); a != nil {
						plugin = a.Plugin
					}
					u.ApplyTo(obj, plugin)
					var uerr error
					if guard(&res, "C13", arm, fmt.Sprintf("Update(%s) after Create at step %d", tg, i), func() { uerr = callUpdate(ctx, h.Vault, obj) }) {
						return res
					}
					if uerr != nil && tg.Kind == "action" && u.HasBadUTF8(plugin) {
						// never generated (Plan draws no invalid UTF-8); a hand-written case gets the same two-outcome reading
						sl.live = nil
						mark("invalid_utf8_update:refused")
						break
					}
					if uerr != nil {
						r.fail("update-error:"+tg.Kind, "step %d: Update of %s of a stored plan failed: %v", i, tg, uerr)
						return res
					}
					pm.Apply(tg, u)
					vprop.Count("updates:"+arm, 1)
				}
			}
		case "update":
			s := r.slots[op.Slot]
			if s == nil || s.pm.Deleted || op.Target == nil || op.Update == nil {
				mark("skipped_op")
				continue
			}
			if op.Fresh || s.live == nil {
				var got *workflow.Plan
				var rerr error
				if guard(&res, "C13", arm, fmt.Sprintf("Read before update at step %d", i), func() { got, rerr = h.Vault.Read(ctx, s.pm.Plan.ID) }) {
					return res
				}
				if rerr != nil || got == nil {
					r.fail("read-error", "step %d: Read of stored plan %s failed: %v", i, s.pm.Plan.ID, rerr)
					return res
				}
				s.live = got
			}
			// the object is addressed by position in the model and by id in the tree that came from the vault
			want := store.Resolve(s.pm.Plan, *op.Target)
			if want == nil || isNilObject(want) {
				mark("skipped_op")
				continue
			}
			obj := store.FindByID(s.live, store.ObjectID(want))
			if obj == nil || isNilObject(obj) {
				// cannot happen after a verified read; be defensive
				r.fail("read-after-create:shape", "step %d: object %s not present in the plan read from the vault", i, op.Target)
				return res
			}
			plugin := -1
			if a := store.ResolveActionSpec(&s.pm.Spec, *op.Target); a != nil {
				plugin = a.Plugin
			}
			badUTF8 := op.Target.Kind == "action" && op.Update.HasBadUTF8(plugin)
			op.Update.ApplyTo(obj, plugin)
			var uerr error
			if guard(&res, "C13", arm, fmt.Sprintf("Update(%s) at step %d", op.Target, i), func() { uerr = callUpdate(ctx, h.Vault, obj) }) {
				return res
			}
			if uerr != nil && badUTF8 {
				// Outcome 1 of the rare class (see the file comment): the vault refused the attempt string that is not valid
				// UTF-8. Nothing was written: the model keeps what was last written and the read below still compares the
				// whole plan with it. The retained tree carries the refused attempts: drop it.
				s.live = nil
				mark("invalid_utf8_update:refused")
				vprop.Count("invalid_utf8_updates_refused:"+arm, 1)
				classifyBadUTF8(op, plugin, mark)
				break
			}
			if uerr != nil {
				r.fail("update-error:"+op.Target.Kind, "step %d: Update of %s of a stored plan failed: %v", i, op.Target, uerr)
				return res
			}
			// Outcome 2 of the rare class is the ordinary path: acknowledged = written, exactly as given.
			s.pm.Apply(*op.Target, *op.Update)
			vprop.Count("updates:"+arm, 1)
			mark("upd:" + op.Target.Kind)
			classifyUpdate(op, mark)
			if badUTF8 {
				mark("invalid_utf8_update:stored")
				vprop.Count("invalid_utf8_updates_stored:"+arm, 1)
				classifyBadUTF8(op, plugin, mark)
			}
		case "delete":
			s := r.slots[op.Slot]
			if s == nil || s.pm.Deleted {
				mark("skipped_op")
				continue
			}
			var derr error
			if guard(&res, "C13", arm, fmt.Sprintf("Delete at step %d", i), func() { derr = h.Vault.Delete(ctx, s.pm.Plan.ID) }) {
				return res
			}
			if derr != nil {
				r.fail("delete-error", "step %d: Delete of stored plan %s failed: %v", i, s.pm.Plan.ID, derr)
				return res
			}
			s.pm.Deleted = true
			s.live = nil
			mark("has_delete")
		case "refresh":
			if s := r.slots[op.Slot]; s != nil {
				s.live = nil // replaced by the read below
			}
		case "readUnknown":
			// Clause: "Reading an id that was never created ... returns an error and never an empty plan."
			id := store.UnknownID(c.Seed, op.N)
			var got *workflow.Plan
			var rerr error
			if guard(&res, "C13", arm, fmt.Sprintf("Read(unknown) at step %d", i), func() { got, rerr = h.Vault.Read(ctx, id) }) {
				return res
			}
			if rerr == nil {
				r.fail("read-unknown:no-error", "step %d: Read of never-created id %s returned no error (plan=%s)", i, id, planSummary(got))
				return res
			}
			mark("read_unknown")
		case "createFailing":
			// Clause: "Reading an id that was never created ... returns an error and never an empty plan." A plan whose
			// Create returned an error was never created. (That nothing of it is left behind is C14's clause.)
			if op.Spec == nil {
				mark("skipped_op")
				continue
			}
			bad := store.Build(*op.Spec)
			badID := bad.ID
			var cerr error
			if guard(&res, "C13", arm, fmt.Sprintf("Create (unencodable request) at step %d", i), func() { cerr = h.Vault.Create(ctx, bad) }) {
				return res
			}
			if cerr == nil {
				mark("create_unencodable_accepted") // a vault may find a way to store it; what it reads back is not modelled
				continue
			}
			mark("failed_create")
			var got *workflow.Plan
			var rerr error
			if guard(&res, "C13", arm, fmt.Sprintf("Read after failed Create at step %d", i), func() { got, rerr = h.Vault.Read(ctx, badID) }) {
				return res
			}
			if rerr == nil {
				r.fail("read-after-failed-create:no-error", "step %d: Create of plan %s failed (%v), yet Read of that id returns no error (plan=%s)", i, badID, cerr, planSummary(got))
				return res
			}
		case "reopen":
			if arm != store.ArmSqliteFile {
				mark("skipped_op")
				continue
			}
			if err := h.Reopen(); err != nil {
				res.Skip = true
				res.Label("vault_reopen_failed")
				return res
			}
			for _, s := range r.slots {
				s.live = nil
			}
			mark("reopen")
		default:
			mark("skipped_op")
			continue
		}
		r.verifyAll(i, op.Kind)
		if r.failed() {
			return res
		}
	}
	return res
}

func isNilObject(o workflow.Object) bool {
	switch v := o.(type) {
	case *workflow.Plan:
		return v == nil
	case *workflow.Checks:
		return v == nil
	case *workflow.Block:
		return v == nil
	case *workflow.Sequence:
		return v == nil
	case *workflow.Action:
		return v == nil
	}
	return o == nil
}

func classifySpec(ps *store.PlanSpec, mark func(string)) {
	if store.IsPristine(*ps) {
		mark("create_pristine")
	} else {
		mark("create_with_state")
	}
	if ps.MetaNil {
		mark("meta_nil")
	} else if len(ps.Meta) == 0 {
		mark("meta_empty")
	} else if len(ps.Meta) > 200 {
		mark("meta_large")
	}
	if ps.Group == 0 {
		mark("group_nil")
	}
	if len(ps.Blocks) >= 2 {
		mark("blocks>=2")
	}
	groups := 0
	for _, c := range ps.Checks {
		if c != nil {
			groups++
		}
	}
	for _, b := range ps.Blocks {
		for _, c := range b.Checks {
			if c != nil {
				groups++
			}
		}
		for _, s := range b.Seqs {
			for _, a := range s.Actions {
				switch a.Plugin {
				case store.PlugPtrAction:
					mark("req_pointer")
				case store.PlugNilAction:
					mark("req_nil")
				case store.PlugValAction:
					mark("req_value")
				}
			}
		}
	}
	if groups == 0 {
		mark("no_check_groups")
	} else {
		mark("has_check_groups")
	}
}

func classifyUpdate(op Op, mark func(string)) {
	u := op.Update
	if u.State.Start == 0 || u.State.End == 0 {
		mark("upd_zero_time")
	}
	if op.Target.Kind == "plan" && u.Reason != 0 {
		mark("upd_plan_reason")
	}
	if len(u.Attempts) >= 2 {
		mark("upd_multi_attempt")
	}
	for _, at := range u.Attempts {
		if len(at.Err) == 3 {
			mark("upd_err_depth3")
		}
		if at.HasResp {
			mark("upd_typed_resp")
		} else {
			mark("upd_nil_resp")
		}
	}
}

// classifyBadUTF8 labels where the invalid bytes of an update of the rare class are.
func classifyBadUTF8(op Op, plugin int, mark func(string)) {
	mark("invalid_utf8_update") // the class whatever its outcome (the floors are on this label, not on an outcome)
	for _, at := range op.Update.Attempts {
		kind, place := at.BadPlace(plugin)
		if kind == store.BadUTF8None {
			continue
		}
		if place <= store.BadAtErr2 {
			mark(fmt.Sprintf("invalid_utf8_at:err_depth%d", place))
		} else {
			mark("invalid_utf8_at:resp")
		}
	}
}

func c13Spec() vprop.Spec[Program] {
	return vprop.Spec[Program]{
		ID:    "C13",
		Gen:   genProgram,
		Check: checkProgram,
	}
}

func TestC13(t *testing.T) { vprop.Run(t, c13Spec()) }

// FuzzC13 is the byte-driven arm (thorough tier), see vprop.Fuzz.
func FuzzC13(f *testing.F) { vprop.Fuzz(f, c13Spec()) }
