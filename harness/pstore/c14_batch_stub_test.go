//go:build !verifbatchfault

package pstore

// The cosmos "batch fault" mode of C14 needs the hook proposed in /verif/fixes/hook-cosmos-batch-fault.go.txt
// (cosmosdb.NewVerifFakeVaultWithControl). Until /repo has it the mode is compiled out: it is never generated and a
// replayed case of that mode is skipped under a label.

const batchFaultAvailable = false

func (r *c14run) batch(c AtomCase) { r.skip("batch_fault_hook_missing") }
