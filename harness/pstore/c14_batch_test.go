package pstore

// C14, cosmosdb arm, mode "batch": Create under a fault between the transactional batches of one plan.
//
// Clause: "Create is all-or-nothing ...: afterwards either the complete plan is readable or no trace of it exists".
// The cosmosdb vault gets its atomicity from "single transactional batch per plan partition" (anchor of C14); a Create
// that splits a plan over several batches loses it as soon as a later batch is refused. A case is a deterministic plan of
// 20-400 objects (BigSpec) and the ordinal n of the plan-partition batch that the fake refuses with a permanent error
// before applying it (n in 1..5; an n beyond the number of batches Create sends means "no fault").
// Oracle: Create != nil  =>  the fake holds 0 documents for the plan id, Exists is false, Read errors;
//         Create == nil  =>  the fake holds exactly one document per object and Read == the submitted plan.
// Uses the verif hook cosmosdb.NewVerifFakeVaultWithControl (/repo aac80f9).

import (
	"context"
	"fmt"

	"github.com/element-of-surprise/coercion/workflow"
	"github.com/element-of-surprise/coercion/workflow/storage/cosmosdb"

	"verifharness/store"
	"verifharness/vprop"
)

func (r *c14run) batch(c AtomCase) {
	res := r.res
	if c.Batch == nil || c.Batch.FailAt < 1 {
		r.skip("malformed_case")
		return
	}
	ctx := context.Background()
	reg := store.NewRegistry()
	v, ctl := cosmosdb.NewVerifFakeVaultWithControl(reg)
	spec := store.BigSpec(c.Batch.Seed, c.Batch.Blocks, c.Batch.Seqs, c.Batch.Actions)
	objects := store.ObjectCount(spec)
	plan := store.Build(spec)
	id := plan.ID
	vprop.Count("batch_cases", 1)
	if objects > 100 {
		res.Label("batch_plan_over_100_objects")
		if c.Batch.FailAt >= 2 {
			res.NonTrivial = true // a fault position that only exists if Create uses more than one batch
		}
	} else {
		res.Label("batch_plan_up_to_100_objects")
	}

	ctl.FailBatch(id.String(), c.Batch.FailAt)
	var cerr error
	if guard(res, "C14", r.arm, "Create under a batch fault", func() { cerr = v.Create(ctx, plan) }) {
		return
	}
	hit := ctl.Batches() >= c.Batch.FailAt
	ctl.FailBatch("", 0)
	if hit {
		res.Label(fmt.Sprintf("batch_fault_hit_at:%d", min(c.Batch.FailAt, 3)))
	} else {
		res.Label("batch_fault_not_reached")
	}
	docs, derr := ctl.Documents(id)
	if derr != nil {
		r.skip("document_count_failed")
		return
	}
	where := fmt.Sprintf("plan of %d objects, plan-partition batch #%d refused (reached=%v)", objects, c.Batch.FailAt, hit)
	if cerr != nil {
		// "no trace of it exists"
		if docs != 0 {
			r.fail("batch:create-failed:documents-left", "%s: Create failed (%v) but %d of the plan's %d documents are stored", where, cerr, docs, objects)
			return
		}
		var got *workflow.Plan
		var rerr error
		if guard(res, "C14", r.arm, "Read after failed Create", func() { got, rerr = v.Read(ctx, id) }) {
			return
		}
		if rerr == nil {
			r.fail("batch:create-failed:readable", "%s: Create failed (%v) but Read returns a plan (%s)", where, cerr, planSummary(got))
			return
		}
		var ex bool
		var eerr error
		if guard(res, "C14", r.arm, "Exists after failed Create", func() { ex, eerr = v.Exists(ctx, id) }) {
			return
		}
		if eerr == nil && ex {
			r.fail("batch:create-failed:exists", "%s: Create failed (%v) but Exists is true", where, cerr)
		}
		return
	}
	// "the complete plan is readable"
	if docs != objects {
		r.fail("batch:create-ok:documents", "%s: Create returned nil but %d documents are stored for a plan of %d objects", where, docs, objects)
		return
	}
	var got *workflow.Plan
	var rerr error
	if guard(res, "C14", r.arm, "Read after Create", func() { got, rerr = v.Read(ctx, id) }) {
		return
	}
	if rerr != nil {
		r.fail("batch:create-ok:read-error", "%s: Create returned nil but Read fails: %v", where, rerr)
		return
	}
	if diffs := store.DiffPlans(store.Build(spec), got, cmpOptFor(r.arm)); len(diffs) > 0 {
		r.fail("batch:create-ok:"+diffs[0].Field, "%s: Create returned nil but the stored plan differs:%s", where, diffText(diffs))
	}
}
