package pstore

// C14, sqlite arms, mode "cancel": Create / Submit / Delete whose context ends while the call is writing.
//
// Clause: "Create is all-or-nothing ...: afterwards either the complete plan is readable or no trace of it exists, so a
// successful Submit always implies the stored plan equals the submitted one" and "Delete removes the plan and every
// object belonging to it and nothing belonging to any other plan". The statement names two ways a Create can stop
// midway (the process dies, an object cannot be encoded); its conclusion ("afterwards either ... or ...") is
// unconditional, and a context that ends in the middle of the call is the third way the public API offers to stop a
// Create midway (every Vault method takes a Context; on sqlite the connection is interrupted when it is done).
//
// A case: 0-2 small plans created first ("others"), then a deterministic plan of 20-250 objects (BigSpec) that is
//   create  — handed to Vault.Create (or, ViaSubmit, to Workstream.Submit) with a context that is cancelled at the very
//             moment the K-th row of that call has been inserted (K = 0: cancelled before the call), or
//   delete  — created normally and then deleted with a context that is cancelled when the K-th row has been deleted.
// The position is exact and reproducible: store.RowHook puts TEMP triggers on every table of the store's one connection
// that call back into the harness after each inserted / deleted row (no table or column name is assumed). K is drawn
// over 0..rows+1 with extra weight on the last rows (the cancellation then meets the end of the transaction).
// Oracle (read with a fresh context after the call returned, whatever it returned):
//   create: either Read(id) succeeds and equals the submitted plan, or Read(id) fails and the row measurement of all
//           tables equals the one taken before the call and List does not return the id; a nil result obliges the first.
//           With ViaSubmit and a failed Submit no id is known: the row measurement must equal the one before the call.
//   delete: a nil result obliges "Read fails and the tables hold what they held before the plan was created"; after a
//           failed Delete nothing is demanded of the victim (the statement does not make Delete atomic; a half-deleted
//           victim is a label); in both cases every other plan reads equal to the model.
//   Then the same operation is repeated with a live context. For create, when the first call left no trace: a refusal
//   is a label only (the statement does not say an id can be created after a failed attempt), success obliges
//   Read == submitted. For delete, when the victim is still readable: success obliges "no rows of it".
// One case in three injects a storage fault instead (Fault): the statement that writes row K fails with an error while the
// context stays alive — "faults of Create other than encoding"; same oracle.
// No timing is involved in where the cancellation lands; the verdict is read off the final store.
// A call that does not return within the stall window is skipped under a label (the vault is abandoned), never judged.

import (
	"context"
	"fmt"

	"github.com/google/uuid"
	"pgregory.net/rapid"

	"github.com/element-of-surprise/coercion"
	"github.com/element-of-surprise/coercion/workflow"
	"github.com/element-of-surprise/coercion/workflow/storage"

	"verifharness/store"
	"verifharness/vprop"
)

// CancelParams describes the cancelled-context experiment.
type CancelParams struct {
	// Op: "create" or "delete".
	Op      string
	Seed    uint64
	Blocks  int
	Seqs    int
	Actions int
	// PosPM and End give K, the row after which the context is cancelled (0 = cancelled before the call): End 0: K =
	// PosPM per mille of the plan's rows; End 1: K = the plan's last row; End 2: the row before it; End 3: one more than
	// the plan has (never cancelled). For create the number of rows is taken to be the number of objects.
	PosPM int
	End   int
	// ViaSubmit (create): the plan goes through Workstream.Submit instead of Vault.Create.
	ViaSubmit bool
	// Others: small plans created before the experiment.
	Others []store.PlanSpec `json:",omitempty"`
	// File: file-backed store instead of the in-memory one.
	File bool
	// Fault: instead of ending the context, the statement that writes row K fails with a storage error (K = 0: no fault).
	Fault bool `json:",omitempty"`
}

func genCancelParams(t *rapid.T) *CancelParams {
	p := &CancelParams{
		Op:      "create",
		Seed:    rapid.Uint64().Draw(t, "cancelseed"),
		Blocks:  1 + store.Uniform(t, 3, "cancelblocks"),
		Seqs:    1 + store.Uniform(t, 5, "cancelseqs"),
		Actions: 2 + store.Uniform(t, 8, "cancelactions"),
		File:    store.Uniform(t, 8, "cancelfile") == 0,
	}
	if store.Uniform(t, 3, "cancelop") == 0 {
		p.Op = "delete"
	}
	if p.Op == "create" {
		p.ViaSubmit = rapid.Bool().Draw(t, "viasubmit")
	}
	p.Fault = store.Uniform(t, 3, "cancelfault") == 0
	p.PosPM = store.Uniform(t, 1001, "cancelpos")
	if e := store.Uniform(t, 8, "cancelend"); e < 4 {
		p.End = e // 0 (position by PosPM) half of the time overall, 1..3 one time in eight each
	}
	cfg := store.DefaultCfg
	cfg.MaxBlocks, cfg.MaxSeqs, cfg.MaxActions = 2, 2, 2
	cfg.Plain = true
	n := store.Uniform(t, 3, "cancelothers")
	for i := 0; i < n; i++ {
		p.Others = append(p.Others, cfg.Plan(t, fmt.Sprintf("o%d", i), i+2))
	}
	return p
}

// callWithin runs fn and reports whether it returned within the stall window (observed time).
func callWithin(fn func()) bool {
	done := make(chan struct{})
	go func() { defer close(done); fn() }()
	expired, stop := vprop.ObservedAfter(stallWindow())
	defer stop()
	select {
	case <-done:
		return true
	case <-expired:
		stallsSeen.Add(1)
		return false
	}
}

// cancelK is the row after which the context ends, for a plan of total rows.
func (p *CancelParams) cancelK(total int) int {
	switch p.End {
	case 1:
		return total
	case 2:
		return max(total-1, 0)
	case 3:
		return total + 1
	}
	return p.PosPM * total / 1000
}

func (r *c14run) cancel(c AtomCase) {
	res := r.res
	p := c.Cancel
	if p == nil || (p.Op != "create" && p.Op != "delete") || p.PosPM < 0 || p.PosPM > 1000 {
		r.skip("malformed_case")
		return
	}
	bg := context.Background()
	reg := store.NewRegistry()
	arm := store.ArmSqliteMem
	if p.File {
		arm = store.ArmSqliteFile
	}
	h, err := store.Open(arm, reg)
	if err != nil {
		r.skip("vault_open_failed")
		return
	}
	// the row hook: counts the rows the vault inserts / deletes and ends the armed context at the armed row
	var hookOp string
	var hookAt, hookSeen int
	var hookCancel context.CancelFunc
	if herr := store.RowHook(h.Sqlite, func(op string) error {
		if op != hookOp || hookCancel == nil {
			return nil
		}
		hookSeen++
		if hookSeen == hookAt {
			if p.Fault {
				return fmt.Errorf("verif: injected storage fault at row %d", hookAt)
			}
			hookCancel()
		}
		return nil
	}); herr != nil {
		h.Close()
		r.skip("row_hook_failed")
		return
	}
	abandoned := false
	defer func() {
		if abandoned {
			h.Abandon()
		} else {
			h.Close()
		}
	}()
	vprop.Count("cancel_cases", 1)
	res.Label("cancel_op:" + p.Op)

	model := store.NewModel()
	for _, o := range p.Others {
		if store.PlanID(o) == store.PlanID(store.BigSpec(p.Seed, p.Blocks, p.Seqs, p.Actions)) {
			continue
		}
		var cerr error
		if guard(res, "C14", r.arm, "Create", func() { cerr = h.Vault.Create(bg, store.Build(o)) }) {
			return
		}
		if cerr != nil {
			r.skip("cancel_setup_failed")
			return
		}
		model.Create(o)
	}
	othersIntact := func(when string) bool {
		for _, id := range model.Order {
			pm := model.Plans[id]
			var got *workflow.Plan
			var rerr error
			if guard(res, "C14", r.arm, "Read", func() { got, rerr = h.Vault.Read(bg, id) }) {
				return false
			}
			if rerr != nil {
				r.fail("cancel:other-unreadable", "%s: another stored plan %s cannot be read: %v", when, id, rerr)
				return false
			}
			if diffs := store.DiffPlans(pm.Plan, got, cmpOptFor(r.arm)); len(diffs) > 0 {
				r.fail("cancel:other-damaged:"+diffs[0].Field, "%s: another stored plan %s differs from the model:%s", when, id, diffText(diffs))
				return false
			}
		}
		return true
	}
	listed := func(id uuid.UUID) (found, usable bool) {
		var ch chan storage.Stream[storage.ListResult]
		var lerr error
		if guard(res, "C14", r.arm, "List", func() { ch, lerr = h.Vault.List(bg, 100000) }) {
			return false, false
		}
		if lerr != nil || ch == nil {
			return false, false
		}
		items, errs, closed := drain(ch)
		if !closed {
			abandoned = true
			return false, false
		}
		if len(errs) > 0 {
			return false, false
		}
		for _, it := range items {
			if it.ID == id {
				return true, true
			}
		}
		return false, true
	}

	spec := store.BigSpec(p.Seed, p.Blocks, p.Seqs, p.Actions)
	objects := store.ObjectCount(spec)
	before, merr := h.Rows(uuid.Nil)
	if merr != nil {
		r.skip("row_count_failed")
		return
	}

	if p.Op == "create" {
		k := p.cancelK(objects)
		where := fmt.Sprintf("plan of %d objects, context cancelled when row %d had been inserted (via Submit=%v)", objects, k, p.ViaSubmit)
		ctx, cancelCtx := context.WithCancel(bg)
		defer cancelCtx()
		if k == 0 && !p.Fault {
			cancelCtx()
		}
		if p.Fault {
			res.Label("cancel_kind:storage-fault")
			where = fmt.Sprintf("plan of %d objects, the statement inserting row %d fails (via Submit=%v)", objects, k, p.ViaSubmit)
		} else {
			res.Label("cancel_kind:context")
		}
		hookOp, hookAt, hookSeen, hookCancel = "i", k, 0, cancelCtx
		var cerr error
		id := store.PlanID(spec)
		idKnown := true
		var panicked bool
		returned := callWithin(func() {
			// A panic of the call is what "even if the process dies" is about as far as C14 goes: it is recovered, counted
			// under a label, and the store is judged exactly as after a failed call (that Submit must not panic is C12's
			// clause and is judged there).
			defer func() {
				if rec := recover(); rec != nil {
					panicked = true
					cerr = fmt.Errorf("the call panicked: %v", rec)
					if p.ViaSubmit {
						idKnown = false
					}
				}
			}()
			func() {
				if p.ViaSubmit {
					ws, werr := coercion.New(bg, reg, h.Vault, coercion.WithNoRecovery())
					if werr != nil {
						cerr = werr
						idKnown = false
						res.Label("cancel_setup_failed")
						return
					}
					var sid uuid.UUID
					sid, cerr = ws.Submit(ctx, store.BuildUser(spec))
					if cerr == nil {
						id = sid
					} else {
						idKnown = false
					}
				} else {
					cerr = h.Vault.Create(ctx, store.Build(spec))
				}
			}()
		})
		if !returned {
			abandoned = true
			r.skip("cancel_call_stalled_unjudged")
			return
		}
		if panicked {
			res.Label("cancel_call_panicked")
			vprop.Count("cancel_call_panicked", 1)
		}
		hookCancel = nil
		ins := hookSeen
		res.Label("cancel_create_at:" + posClass(k, objects))
		after, merr := h.Rows(uuid.Nil)
		if merr != nil {
			r.skip("row_count_failed")
			return
		}
		cmp := cmpOptFor(r.arm)
		if p.ViaSubmit {
			cmp.IgnoreIDs = true
		}
		expect := func(got *workflow.Plan) *workflow.Plan {
			exp := store.Build(spec)
			if p.ViaSubmit && got != nil {
				exp.SubmitTime = got.SubmitTime
			}
			return exp
		}
		landed := false
		switch {
		case cerr == nil:
			var got *workflow.Plan
			var rerr error
			if guard(res, "C14", r.arm, "Read after Create", func() { got, rerr = h.Vault.Read(bg, id) }) {
				return
			}
			if rerr != nil {
				r.fail("cancel:create-ok:read-error", "%s: the call returned nil but Read fails: %v", where, rerr)
				return
			}
			if diffs := store.DiffPlans(expect(got), got, cmp); len(diffs) > 0 {
				r.fail("cancel:create-ok:"+diffs[0].Field, "%s: the call returned nil but the stored plan differs:%s", where, diffText(diffs))
				return
			}
			res.Label("cancel_create_completed")
		case !idKnown:
			// Submit failed and returned no id: "no trace" is judged on the tables; a complete plan that is stored although
			// Submit reported an error would be allowed by the statement, so rows that differ are a violation only if
			// List shows no additional plan that reads back complete
			if !after.Equal(before) {
				var ch chan storage.Stream[storage.ListResult]
				var lerr error
				if guard(res, "C14", r.arm, "List", func() { ch, lerr = h.Vault.List(bg, 100000) }) {
					return
				}
				complete := false
				if lerr == nil && ch != nil {
					items, errs, closed := drain(ch)
					if !closed {
						abandoned = true
						r.skip("list_stalled_unjudged")
						return
					}
					if len(errs) == 0 {
						for _, it := range items {
							if _, known := model.Plans[it.ID]; known {
								continue
							}
							if got, rerr := h.Vault.Read(bg, it.ID); rerr == nil && len(store.DiffPlans(expect(got), got, cmp)) == 0 {
								complete = true
							}
						}
					}
				}
				if !complete {
					r.fail("cancel:submit-failed:rows-left", "%s: Submit failed (%v) after %d INSERTs; the tables held %s before the call and hold %s now, and no complete plan is readable", where, cerr, ins, before, after)
					return
				}
				res.Label("cancel_submit_error_but_complete")
			} else if ins > 0 {
				landed = true
			}
		default:
			var got *workflow.Plan
			var rerr error
			if guard(res, "C14", r.arm, "Read after failed Create", func() { got, rerr = h.Vault.Read(bg, id) }) {
				return
			}
			if rerr == nil {
				// readable: must be the complete plan
				if diffs := store.DiffPlans(expect(got), got, cmp); len(diffs) > 0 {
					r.fail("cancel:create-failed:partial-plan", "%s: the call failed (%v) after %d INSERTs and Read returns a plan that is not the submitted one:%s", where, cerr, ins, diffText(diffs))
					return
				}
				res.Label("cancel_create_error_but_complete")
			} else {
				if !after.Equal(before) {
					r.fail("cancel:create-failed:rows-left", "%s: the call failed (%v) after %d INSERTs and the plan cannot be read, yet the tables held %s before the call and hold %s now", where, cerr, ins, before, after)
					return
				}
				if found, usable := listed(id); usable && found {
					r.fail("cancel:create-failed:listed", "%s: the call failed (%v), the plan cannot be read, yet List returns its id", where, cerr)
					return
				}
				if ins > 0 {
					landed = true
				}
				// the id left no trace: creating it now is a first creation
				var c2 error
				if guard(res, "C14", r.arm, "Create after a cancelled Create", func() { c2 = h.Vault.Create(bg, store.Build(spec)) }) {
					return
				}
				if c2 != nil {
					res.Label("cancel_retry_refused")
				} else {
					var got2 *workflow.Plan
					var r2 error
					if guard(res, "C14", r.arm, "Read", func() { got2, r2 = h.Vault.Read(bg, id) }) {
						return
					}
					if r2 != nil {
						r.fail("cancel:retry-ok:read-error", "%s: the second Create (live context) returned nil but Read fails: %v", where, r2)
						return
					}
					if diffs := store.DiffPlans(store.Build(spec), got2, cmpOptFor(r.arm)); len(diffs) > 0 {
						r.fail("cancel:retry-ok:"+diffs[0].Field, "%s: the second Create (live context) returned nil but the stored plan differs:%s", where, diffText(diffs))
						return
					}
					res.Label("cancel_retry_created")
				}
			}
		}
		if landed {
			res.Label("cancel_create_landed_mid_call")
			res.NonTrivial = true
			vprop.Count("cancel_create_landed_mid_call", 1)
		}
		othersIntact(where)
		return
	}

	// delete
	var cerr error
	if guard(res, "C14", r.arm, "Create", func() { cerr = h.Vault.Create(bg, store.Build(spec)) }) {
		return
	}
	if cerr != nil {
		r.skip("cancel_setup_failed")
		return
	}
	id := store.PlanID(spec)
	full, merr := h.Rows(uuid.Nil)
	if merr != nil {
		r.skip("row_count_failed")
		return
	}
	total := rowsDiff(full, before).Total
	k := p.cancelK(total)
	where := fmt.Sprintf("plan of %d objects (%d rows), Delete with a context cancelled when row %d had been deleted", objects, total, k)
	res.Label("cancel_delete_at:" + posClass(k, total))
	ctx, cancelCtx := context.WithCancel(bg)
	defer cancelCtx()
	if k == 0 && !p.Fault {
		cancelCtx()
	}
	if p.Fault {
		res.Label("cancel_kind:storage-fault")
		where = fmt.Sprintf("plan of %d objects (%d rows), Delete while the statement deleting row %d fails", objects, total, k)
	} else {
		res.Label("cancel_kind:context")
	}
	hookOp, hookAt, hookSeen, hookCancel = "d", k, 0, cancelCtx
	var derr error
	var panicked bool
	returned := callWithin(func() {
		defer func() {
			if rec := recover(); rec != nil {
				panicked = true
				derr = fmt.Errorf("the call panicked: %v", rec)
			}
		}()
		derr = h.Vault.Delete(ctx, id)
	})
	if !returned {
		abandoned = true
		r.skip("cancel_call_stalled_unjudged")
		return
	}
	if panicked {
		res.Label("cancel_call_panicked")
		vprop.Count("cancel_call_panicked", 1)
	}
	hookCancel = nil
	after, merr := h.Rows(uuid.Nil)
	if merr != nil {
		r.skip("row_count_failed")
		return
	}
	var got *workflow.Plan
	var rerr error
	if guard(res, "C14", r.arm, "Read after Delete", func() { got, rerr = h.Vault.Read(bg, id) }) {
		return
	}
	if derr == nil {
		if rerr == nil {
			r.fail("cancel:delete-ok:victim-readable", "%s: Delete returned nil but the plan is still readable (%s)", where, planSummary(got))
			return
		}
		if !after.Equal(before) {
			r.fail("cancel:delete-ok:rows-left", "%s: Delete returned nil; the tables held %s before the plan was created, %s with it, and hold %s now", where, before, full, after)
			return
		}
		res.Label("cancel_delete_completed")
	} else {
		switch {
		case after.Equal(full):
			res.Label("cancel_delete_failed_clean")
			if k > 0 {
				res.NonTrivial = true
				vprop.Count("cancel_delete_failed", 1)
			}
		case after.Equal(before):
			res.Label("cancel_delete_error_but_deleted")
		default:
			res.Label("cancel_delete_failed_partial")
		}
		// "Delete removes the plan and every object belonging to it": a Delete with a live context that succeeds
		if rerr == nil {
			var d2 error
			if guard(res, "C14", r.arm, "Delete after a cancelled Delete", func() { d2 = h.Vault.Delete(bg, id) }) {
				return
			}
			if d2 != nil {
				res.Label("cancel_retry_refused")
			} else {
				after2, merr := h.Rows(uuid.Nil)
				if merr != nil {
					r.skip("row_count_failed")
					return
				}
				if _, r2 := h.Vault.Read(bg, id); r2 == nil {
					r.fail("cancel:retry-delete-ok:victim-readable", "%s: the second Delete (live context) returned nil but the plan is still readable", where)
					return
				}
				if !after2.Equal(before) {
					r.fail("cancel:retry-delete-ok:rows-left", "%s: the second Delete (live context) returned nil; the tables held %s before the plan was created and hold %s now", where, before, after2)
					return
				}
			}
		}
	}
	othersIntact(where)
}

// posClass names where in the call the context ended.
func posClass(k, total int) string {
	switch {
	case k == 0:
		return "before-call"
	case k > total:
		return "never"
	case k == total:
		return "last-row"
	case k == total-1:
		return "last-but-one"
	}
	return "inside"
}
