package pstore

// C14 — Create is all-or-nothing and unique; Delete removes exactly one plan.
//
// Statement: "Create is all-or-nothing even if the process dies or an object cannot be encoded midway: afterwards either
// the complete plan is readable or no trace of it exists, so a successful Submit always implies the stored plan equals
// the submitted one, and creating an id twice fails without altering the first. Delete removes the plan and every object
// belonging to it and nothing belonging to any other plan."
//
// Five fault families, one per case mode:
//   poison     — a valid plan whose actions all use the poison plugins; the request that cannot be serialised (channel or
//                func behind an `any` field, NaN, failing MarshalJSON, a string with bytes that are not valid UTF-8) is
//                placed at EVERY action position of the tree in
//                turn (exhaustive per generated shape and drawn poison kinds) and the plan is submitted through
//                coercion.Workstream.Submit on a sqlite vault. Oracle: Submit == nil  =>  Read == submitted;
//                Submit != nil  =>  no row with that plan id in any table, Read errors, List omits it.
//   dup        — Create(A), then Create(B) with the same ids and different content: the second fails, A reads back
//                unchanged, row counts unchanged.
//   interleave — creates and deletes of 2-5 plans interleaved: after a Delete the victim has no rows and is unreadable,
//                every other plan reads equal to the model, the total row counts equal the model's.
//   batch      — cosmosdb over its fake: Create of a plan of 20-400 objects while the n-th transactional batch addressed
//                to the plan's partition is refused with a permanent error (see c14_batch_test.go).
//   kill       — the test binary re-executes itself; the child submits a plan of 100-400 objects on a file-backed
//                sqlite vault while a watcher SIGKILLs the process once the k-th INSERT has been captured; the parent
//                re-opens the directory: either the complete plan is readable or no row exists in any table.

import (
	"context"
	"encoding/json"
	"errors"
	"fmt"
	"os"
	"os/exec"
	"path/filepath"
	"runtime"
	"strconv"
	"strings"
	"syscall"
	"testing"
	"time"

	"github.com/google/uuid"
	"pgregory.net/rapid"

	"github.com/element-of-surprise/coercion"
	"github.com/element-of-surprise/coercion/workflow"
	"github.com/element-of-surprise/coercion/workflow/storage"
	"github.com/element-of-surprise/coercion/workflow/storage/sqlite"

	"verifharness/store"
	"verifharness/vprop"
)

// Step is one step of the interleave mode.
type Step struct {
	// Kind: "create" or "delete".
	Kind string
	Plan int
}

// BigParams describes the kill experiment.
type BigParams struct {
	Seed    uint64
	Blocks  int
	Seqs    int
	Actions int
	// K: the watcher kills the child as soon as K INSERT statements have been captured.
	K int
}

// HugeParams turns one plan of an interleave case into the rare "huge container" class: one sequence (and optionally
// one check group) with hundreds to more than a thousand actions (store.Inflate).
type HugeParams struct {
	// Plan is the index of the plan in Plans.
	Plan int
	// SeqActions is the number of actions of the plan's first sequence.
	SeqActions int
	// ChecksActions, when > 0, is the number of actions of the plan's post-check group.
	ChecksActions int
}

// hugeSizes sit around the boundaries at which an implementation may start to batch its statements.
var hugeSizes = []int{499, 500, 501, 502, 503, 750, 999, 1000, 1001, 1002, 1003, 1203}

// BatchParams describes the cosmos batch-fault experiment.
type BatchParams struct {
	Seed    uint64
	Blocks  int
	Seqs    int
	Actions int
	// FailAt: the FailAt-th transactional batch addressed to the plan's partition is refused (1-based).
	FailAt int
}

// AtomCase is a C14 case.
type AtomCase struct {
	// Mode: "poison", "dup", "interleave", "kill", "batch", "cancel".
	Mode string
	Arm  string
	Seed uint64
	// poison
	Plan  *store.PlanSpec `json:",omitempty"`
	Kinds []int           `json:",omitempty"`
	// dup
	First  *store.PlanSpec `json:",omitempty"`
	Second *store.PlanSpec `json:",omitempty"`
	// interleave
	Plans []store.PlanSpec `json:",omitempty"`
	Steps []Step           `json:",omitempty"`
	Huge  *HugeParams      `json:",omitempty"`
	// kill
	Big *BigParams `json:",omitempty"`
	// batch
	Batch *BatchParams `json:",omitempty"`
	// cancel
	Cancel *CancelParams `json:",omitempty"`
}

var poisonKindNames = map[int]string{
	store.PoisonChan: "chan", store.PoisonFunc: "func", store.PoisonNaN: "nan", store.PoisonMarshal: "marshaljson",
	store.PoisonUTF8High: "invalid_utf8", store.PoisonUTF8Cont: "invalid_utf8", store.PoisonUTF8Truncated: "invalid_utf8",
}

// killOneIn: one case in killOneIn is a kill experiment (≈150-250 ms each).
const killOneIn = 160

func genAtomCase(t *rapid.T) AtomCase {
	c := AtomCase{Seed: rapid.Uint64().Draw(t, "seed")}
	mode := os.Getenv("VERIF_C14_MODE") // debugging aid for focused runs; never set by the driver
	if mode == "" {
		switch u := store.Uniform(t, 100*killOneIn, "mode"); {
		case u < 100:
			mode = "kill"
		case u < 59*killOneIn:
			mode = "poison"
		case u < 62*killOneIn:
			mode = "cancel"
		case u < 76*killOneIn:
			mode = "dup"
		case u >= 96*killOneIn:
			mode = "batch"
		default:
			mode = "interleave"
		}
	}
	c.Mode = mode
	switch mode {
	case "poison":
		c.Arm = store.ArmSqliteMem
		if store.Uniform(t, 16, "filearm") == 0 {
			c.Arm = store.ArmSqliteFile
		}
		cfg := store.DefaultCfg
		cfg.Poison = true
		spec := cfg.Plan(t, "p", 1)
		c.Plan = &spec
		c.Kinds = rapid.SliceOfNDistinct(rapid.IntRange(store.PoisonChan, store.PoisonLast), 1, 2, rapid.ID[int]).Draw(t, "kinds")
	case "dup":
		c.Arm = genArm(t)
		cfg := store.DefaultCfg
		cfg.MaxBlocks, cfg.MaxSeqs = 2, 2
		cfg.WithState = rapid.IntRange(0, 3).Draw(t, "withstate") == 3
		a := cfg.Plan(t, "first", 1)
		b := cfg.Plan(t, "second", 1)
		b.Seed = a.Seed // same seed => same plan id and same ids for objects at the same walk index (a re-submitted plan)
		if rapid.Bool().Draw(t, "planidonly") {
			b.IDBase = 1 << 20 // only the plan id collides (two different plans that got the same id)
		}
		c.First, c.Second = &a, &b
	case "interleave":
		c.Arm = genArm(t)
		cfg := store.DefaultCfg
		cfg.MaxBlocks, cfg.MaxSeqs, cfg.MaxActions = 2, 2, 2
		cfg.Plain = true // names from a four-letter alphabet: plans and objects with EQUAL names are common
		n := rapid.IntRange(2, 5).Draw(t, "nplans")
		for i := 0; i < n; i++ {
			c.Plans = append(c.Plans, cfg.Plan(t, fmt.Sprintf("p%d", i), i+1))
		}
		state := make([]int, n) // 0 not created, 1 live, 2 deleted
		steps := rapid.IntRange(2, 2*n).Draw(t, "nsteps")
		for s := 0; s < steps; s++ {
			var creatable, live []int
			for i, st := range state {
				if st == 0 {
					creatable = append(creatable, i)
				} else if st == 1 {
					live = append(live, i)
				}
			}
			del := len(live) > 0 && (len(creatable) == 0 || rapid.IntRange(0, 2).Draw(t, "del") == 2)
			if del {
				i := live[rapid.IntRange(0, len(live)-1).Draw(t, "victim")]
				state[i] = 2
				c.Steps = append(c.Steps, Step{Kind: "delete", Plan: i})
			} else if len(creatable) > 0 {
				i := creatable[rapid.IntRange(0, len(creatable)-1).Draw(t, "newplan")]
				state[i] = 1
				c.Steps = append(c.Steps, Step{Kind: "create", Plan: i})
			}
		}
		// about one interleave case in twenty (1% of all cases): one plan that gets created AND deleted carries a huge
		// container; sqlite arms only (a thousand documents per plan make the cosmos fake too slow for the quick tier)
		if store.Uniform(t, 20, "huge") == 0 {
			victim := -1
			for i, st := range state {
				if st == 2 {
					victim = i
					break
				}
			}
			if victim < 0 {
				for i, st := range state {
					if st == 1 {
						victim = i
						c.Steps = append(c.Steps, Step{Kind: "delete", Plan: i})
						break
					}
				}
			}
			if victim >= 0 {
				h := &HugeParams{Plan: victim}
				switch rapid.IntRange(0, 3).Draw(t, "hugewhere") {
				case 0, 1:
					h.SeqActions = rapid.SampledFrom(hugeSizes).Draw(t, "hugeseq")
				case 2:
					h.ChecksActions = rapid.SampledFrom(hugeSizes).Draw(t, "hugechecks")
				default:
					h.SeqActions = rapid.SampledFrom(hugeSizes).Draw(t, "hugeseq")
					h.ChecksActions = rapid.SampledFrom(hugeSizes).Draw(t, "hugechecks")
				}
				c.Huge = h
				if !store.IsSqlite(c.Arm) {
					c.Arm = store.ArmSqliteMem
				}
			}
		}
	case "cancel":
		c.Cancel = genCancelParams(t)
		c.Arm = store.ArmSqliteMem
		if c.Cancel.File {
			c.Arm = store.ArmSqliteFile
		}
	case "batch":
		c.Arm = store.ArmCosmosFake
		c.Batch = &BatchParams{
			Seed:    rapid.Uint64().Draw(t, "batchseed"),
			Blocks:  rapid.IntRange(1, 3).Draw(t, "batchblocks"),
			Seqs:    rapid.IntRange(3, 8).Draw(t, "batchseqs"),
			Actions: rapid.IntRange(6, 14).Draw(t, "batchactions"),
			FailAt:  rapid.IntRange(1, 5).Draw(t, "failat"),
		}
	case "kill":
		c.Arm = store.ArmSqliteFile
		b := &BigParams{
			Seed:    rapid.Uint64().Draw(t, "bigseed"),
			Blocks:  rapid.IntRange(2, 4).Draw(t, "bigblocks"),
			Seqs:    rapid.IntRange(4, 8).Draw(t, "bigseqs"),
			Actions: rapid.IntRange(4, 10).Draw(t, "bigactions"),
		}
		for bigObjects(b) > 400 && b.Actions > 1 {
			b.Actions--
		}
		for bigObjects(b) < 100 {
			b.Actions++
		}
		b.K = rapid.IntRange(1, bigObjects(b)-1).Draw(t, "k")
		c.Big = b
	}
	return c
}

func bigObjects(b *BigParams) int {
	return store.ObjectCount(store.BigSpec(b.Seed, b.Blocks, b.Seqs, b.Actions))
}

type c14run struct {
	res *vprop.Result
	arm string
}

func (r *c14run) fail(rule, format string, a ...any) {
	r.res.Fail(armRule("C14", r.arm, rule), format, a...)
}

func (r *c14run) failed() bool { return len(r.res.Violations) > 0 || r.res.Skip }

func (r *c14run) skip(label string) {
	r.res.Skip = true
	r.res.Label(label)
}

// cmpOptFor: on the cosmos fake the ORDER of actions inside a group or sequence is never judged. The vault reads actions
// with "ORDER BY c.pos ASC", the package's fake ignores ORDER BY and answers in insertion order, so the order seen there
// is an accident of how Create filled its batch (or, after a patch, of map iteration in the fake) and not of what the
// vault stores. Blocks and sequences are ordered by the id lists of their parent documents and stay judged.
func cmpOptFor(arm string) store.CmpOpt {
	if arm == store.ArmCosmosFake {
		return store.CmpOpt{ActionsAnyOrder: true}
	}
	return store.CmpOpt{}
}

// rowsDiff returns a - b table by table.
func rowsDiff(a, b store.Rows) store.Rows {
	out := store.Rows{ByTable: map[string]int{}}
	for t, n := range a.ByTable {
		out.ByTable[t] = n - b.ByTable[t]
	}
	for t, n := range b.ByTable {
		if _, ok := a.ByTable[t]; !ok {
			out.ByTable[t] = -n
		}
	}
	for _, n := range out.ByTable {
		out.Total += n
	}
	return out
}

func diffText(diffs []store.Diff) string {
	var sb strings.Builder
	for _, d := range diffs {
		sb.WriteString("\n    " + d.String())
	}
	return sb.String()
}

// ---------------------------------------------------------------------------------------------------------------------
// poison

func (r *c14run) poison(c AtomCase) {
	res := r.res
	if c.Plan == nil {
		r.skip("malformed_case")
		return
	}
	ctx := context.Background()
	reg := store.NewRegistry()
	h, err := store.Open(r.arm, reg)
	if err != nil {
		r.skip("vault_open_failed")
		return
	}
	stalled := false
	defer func() {
		if stalled {
			h.Abandon()
		} else {
			h.Close()
		}
	}()
	ws, err := coercion.New(ctx, reg, h.Vault, coercion.WithNoRecovery())
	if err != nil {
		r.skip("workstream_new_failed")
		return
	}

	spec := *c.Plan
	var positions []store.Target
	for _, tg := range store.Targets(spec) {
		if tg.Kind == "action" {
			positions = append(positions, tg)
		}
	}
	type variant struct {
		pos  int // -1: healthy baseline
		kind int
	}
	variants := []variant{{-1, store.PoisonNone}}
	for p := range positions {
		for _, k := range c.Kinds {
			if k >= store.PoisonChan && k <= store.PoisonLast {
				variants = append(variants, variant{p, k})
			}
		}
	}

	// Row accounting is relative: the tables are measured before and after every Submit (store.SqliteRows discovers the
	// schema); a Submit that failed must leave the measurement unchanged ("no trace of it exists").
	before, cerr := h.Rows(uuid.Nil)
	if cerr != nil {
		r.skip("row_count_failed")
		return
	}
	okIDs := map[uuid.UUID]bool{}
	failed := 0
	for _, v := range variants {
		where := "healthy plan"
		var poisoned *store.ActionSpec
		if v.pos >= 0 {
			tg := positions[v.pos]
			poisoned = store.ResolveActionSpec(&spec, tg)
			poisoned.Poison = v.kind
			where = fmt.Sprintf("poison kind %d at %s", v.kind, tg)
			res.Label("poison_kind:" + poisonKindNames[v.kind])
			if tg.Group >= 0 {
				res.Label("poison_in_check_group")
				res.NonTrivial = true // NT (DESIGN §5 C14): poison in a check group ...
			}
			if tg.Block >= 1 {
				res.Label("poison_below_first_block")
				res.NonTrivial = true // ... or below the first block
			}
		}
		user := store.BuildUser(spec) // what is submitted; never looked at again (Submit: "Using the Plan object after submitting it results in undefined behavior")
		exp := store.Build(spec)      // an independent image of the same specification
		if poisoned != nil {
			poisoned.Poison = store.PoisonNone // the specification is shared with the case value: restore it at once
		}
		var serr error
		var id uuid.UUID // the id Submit RETURNS is the only id the harness knows
		if guard(res, "C14", r.arm, "Submit with "+where, func() { id, serr = ws.Submit(ctx, user) }) {
			return
		}
		vprop.Count("submits", 1)
		if serr == nil {
			// Clause: "a successful Submit always implies the stored plan equals the submitted one". Equality is judged on
			// the definition and the pristine state; which ids and which submit time Submit hands out is C16's business.
			var got *workflow.Plan
			var rerr error
			if guard(res, "C14", r.arm, "Read after Submit", func() { got, rerr = h.Vault.Read(ctx, id) }) {
				return
			}
			if rerr != nil {
				r.fail("poison:submit-ok:read-error", "Submit (%s) returned %s and nil but Read of that id fails: %v", where, id, rerr)
				return
			}
			if got != nil {
				exp.SubmitTime = got.SubmitTime
			}
			if diffs := store.DiffPlans(exp, got, store.CmpOpt{IgnoreIDs: true, ReqByJSON: true}); len(diffs) > 0 {
				r.fail("poison:submit-ok:"+diffs[0].Field, "Submit (%s) returned nil but the stored plan %s differs from the submitted one:%s", where, id, diffText(diffs))
				return
			}
			okIDs[id] = true
			vprop.Count("submits_ok", 1)
		} else {
			if v.pos < 0 {
				// the healthy plan must be accepted, otherwise the shape tells nothing (Submit's validation is C16's business)
				r.skip("healthy_submit_failed")
				return
			}
			vprop.Count("submits_failed", 1)
			failed++
			// Clause: "afterwards either the complete plan is readable or no trace of it exists"
			after, cerr := h.Rows(uuid.Nil)
			if cerr != nil {
				r.skip("row_count_failed")
				return
			}
			if !after.Equal(before) {
				r.fail("poison:submit-failed:rows-left", "Submit (%s) failed (%v) but the tables changed: before %s, after %s", where, serr, before, after)
				return
			}
			if id != uuid.Nil { // a failed Submit need not return an id; if it does, that id must be unknown to the vault
				var got *workflow.Plan
				var rerr error
				if guard(res, "C14", r.arm, "Read after failed Submit", func() { got, rerr = h.Vault.Read(ctx, id) }) {
					return
				}
				if rerr == nil {
					r.fail("poison:submit-failed:readable", "Submit (%s) failed (%v) but Read(%s) returns a plan (%s)", where, serr, id, planSummary(got))
					return
				}
			}
		}
		if before, cerr = h.Rows(uuid.Nil); cerr != nil {
			r.skip("row_count_failed")
			return
		}
	}
	vprop.Count("poison_shapes_fully_enumerated", 1) // every action position x every drawn poison kind was submitted
	// "List omits it": whatever List returns must be one of the plans whose Submit succeeded
	if failed > 0 {
		var ch chan storage.Stream[storage.ListResult]
		var lerr error
		if guard(res, "C14", r.arm, "List", func() { ch, lerr = h.Vault.List(ctx, 100000) }) {
			return
		}
		if lerr != nil || ch == nil {
			res.Label("list_unusable_unjudged")
			return
		}
		items, errs, closed := drain(ch)
		if !closed {
			stalled = true
			res.Label("list_stalled_unjudged") // a never-closed List stream is C15's finding
			return
		}
		if len(errs) > 0 {
			res.Label("list_unusable_unjudged")
			return
		}
		for _, it := range items {
			if !okIDs[it.ID] {
				r.fail("poison:submit-failed:listed", "List returns plan %s, which is none of the %d plans whose Submit succeeded (%d Submits failed)", it.ID, len(okIDs), failed)
				return
			}
		}
	}
}

// ---------------------------------------------------------------------------------------------------------------------
// dup

func (r *c14run) dup(c AtomCase) {
	res := r.res
	if c.First == nil || c.Second == nil {
		r.skip("malformed_case")
		return
	}
	ctx := context.Background()
	reg := store.NewRegistry()
	h, err := store.Open(r.arm, reg)
	if err != nil {
		r.skip("vault_open_failed")
		return
	}
	defer h.Close()
	first := store.Build(*c.First)
	id := first.ID
	var cerr error
	if guard(res, "C14", r.arm, "Create(first)", func() { cerr = h.Vault.Create(ctx, first) }) {
		return
	}
	firstSpec := *c.First
	if cerr != nil && !store.IsPristine(firstSpec) {
		// C13/C14 give Create the definition; a vault may refuse a plan that already carries execution state. The case
		// is then played with the pristine image of the same plan.
		res.Label("create_nonpristine_refused")
		firstSpec = store.Pristine(firstSpec)
		first = store.Build(firstSpec)
		if guard(res, "C14", r.arm, "Create(first, pristine)", func() { cerr = h.Vault.Create(ctx, first) }) {
			return
		}
	}
	if cerr != nil {
		r.skip("setup_create_failed")
		return
	}
	var rowsBefore, totalBefore store.Rows
	if h.Sqlite != nil {
		var e1, e2 error
		rowsBefore, e1 = h.Rows(id)
		totalBefore, e2 = h.Rows(uuid.Nil)
		if e1 != nil || e2 != nil {
			r.skip("row_count_failed")
			return
		}
	}
	second := store.Build(*c.Second)
	if second.ID != id {
		r.skip("malformed_case")
		return
	}
	if guard(res, "C14", r.arm, "Create(second, same id)", func() { cerr = h.Vault.Create(ctx, second) }) {
		return
	}
	// Clause: "creating an id twice fails ..."
	if cerr == nil {
		r.fail("dup:second-create-succeeded", "the second Create of plan id %s returned nil", id)
		return
	}
	// "... without altering the first"
	var got *workflow.Plan
	var rerr error
	if guard(res, "C14", r.arm, "Read after duplicate Create", func() { got, rerr = h.Vault.Read(ctx, id) }) {
		return
	}
	if rerr != nil {
		r.fail("dup:first-altered:unreadable", "after the failed second Create the first plan %s cannot be read: %v", id, rerr)
		return
	}
	if diffs := store.DiffPlans(store.Build(firstSpec), got, cmpOptFor(r.arm)); len(diffs) > 0 {
		r.fail("dup:first-altered:"+diffs[0].Field, "after the failed second Create plan %s differs from the first:%s", id, diffText(diffs))
		return
	}
	if h.Sqlite != nil {
		rowsAfter, e1 := h.Rows(id)
		totalAfter, e2 := h.Rows(uuid.Nil)
		if e1 != nil || e2 != nil {
			r.skip("row_count_failed")
			return
		}
		if !rowsAfter.Equal(rowsBefore) || !totalAfter.Equal(totalBefore) {
			r.fail("dup:rows-changed", "row counts changed by the failed second Create: plan rows %s -> %s, all rows %s -> %s", rowsBefore, rowsAfter, totalBefore, totalAfter)
			return
		}
	}
	if c.Second.IDBase != c.First.IDBase {
		res.Label("dup_plan_id_only")
	} else {
		res.Label("dup_all_ids")
	}
	if store.ObjectCount(*c.First) != store.ObjectCount(*c.Second) {
		res.Label("dup_different_shape")
	} else {
		res.Label("dup_same_shape")
	}
}

// ---------------------------------------------------------------------------------------------------------------------
// interleave

func (r *c14run) interleave(c AtomCase) {
	res := r.res
	ctx := context.Background()
	reg := store.NewRegistry()
	h, err := store.Open(r.arm, reg)
	if err != nil {
		r.skip("vault_open_failed")
		return
	}
	defer h.Close()
	model := store.NewModel()
	pms := map[int]*store.PlanModel{}
	// Row accounting is relative (no table or row layout is assumed): the rows a plan contributes are measured when it is
	// created; deleting it must take exactly those away again, table by table.
	contribution := map[int]store.Rows{}
	for si, st := range c.Steps {
		if st.Plan < 0 || st.Plan >= len(c.Plans) {
			continue
		}
		spec := c.Plans[st.Plan]
		if c.Huge != nil && c.Huge.Plan == st.Plan {
			spec = store.Inflate(spec, c.Huge.SeqActions, c.Huge.ChecksActions)
			res.Label("huge_container")
			if st.Kind == "delete" {
				res.Label("huge_container_deleted")
				if c.Huge.SeqActions > 500 || c.Huge.ChecksActions > 500 {
					res.Label("huge_container_over_500_deleted")
				}
			}
		}
		var before store.Rows
		if h.Sqlite != nil {
			var cerr error
			if before, cerr = h.Rows(uuid.Nil); cerr != nil {
				r.skip("row_count_failed")
				return
			}
		}
		switch st.Kind {
		case "create":
			if pms[st.Plan] != nil {
				continue
			}
			var cerr error
			if guard(res, "C14", r.arm, "Create", func() { cerr = h.Vault.Create(ctx, store.Build(spec)) }) {
				return
			}
			if cerr != nil {
				r.fail("interleave:create-error", "step %d: Create of plan %d failed: %v", si, st.Plan, cerr)
				return
			}
			pms[st.Plan] = model.Create(spec)
		case "delete":
			pm := pms[st.Plan]
			if pm == nil || pm.Deleted {
				continue
			}
			var derr error
			if guard(res, "C14", r.arm, "Delete", func() { derr = h.Vault.Delete(ctx, pm.Plan.ID) }) {
				return
			}
			if derr != nil {
				r.fail("interleave:delete-error", "step %d: Delete of stored plan %s failed: %v", si, pm.Plan.ID, derr)
				return
			}
			pm.Deleted = true
			res.Label("has_delete")
		default:
			continue
		}
		// Clause: "Delete removes the plan and every object belonging to it and nothing belonging to any other plan"
		for _, id := range model.Order {
			pm := model.Plans[id]
			var got *workflow.Plan
			var rerr error
			if guard(res, "C14", r.arm, "Read", func() { got, rerr = h.Vault.Read(ctx, id) }) {
				return
			}
			if pm.Deleted {
				if rerr == nil {
					r.fail("interleave:victim-readable", "step %d (%s plan %d): deleted plan %s is still readable (%s)", si, st.Kind, st.Plan, id, planSummary(got))
					return
				}
				if h.Sqlite != nil {
					rows, cerr := h.Rows(id)
					if cerr != nil {
						r.skip("row_count_failed")
						return
					}
					if rows.Total != 0 {
						r.fail("interleave:victim-rows-left", "step %d (%s plan %d): rows of deleted plan %s remain: %s", si, st.Kind, st.Plan, id, rows)
						return
					}
				}
				continue
			}
			if rerr != nil {
				r.fail("interleave:other-unreadable", "step %d (%s plan %d): stored plan %s cannot be read: %v", si, st.Kind, st.Plan, id, rerr)
				return
			}
			if diffs := store.DiffPlans(pm.Plan, got, cmpOptFor(r.arm)); len(diffs) > 0 {
				r.fail("interleave:other-damaged:"+diffs[0].Field, "step %d (%s plan %d): stored plan %s differs from the model:%s", si, st.Kind, st.Plan, id, diffText(diffs))
				return
			}
		}
		if h.Sqlite != nil {
			after, cerr := h.Rows(uuid.Nil)
			if cerr != nil {
				r.skip("row_count_failed")
				return
			}
			if st.Kind == "create" {
				contribution[st.Plan] = rowsDiff(after, before)
			} else if want := rowsDiff(before, contribution[st.Plan]); !after.Equal(want) {
				r.fail("interleave:rows-total", "step %d (delete plan %d): the tables held %s, the plan had added %s when it was created, after its Delete they hold %s", si, st.Plan, before, contribution[st.Plan], after)
				return
			}
		}
	}
	names := map[string]int{}
	for _, p := range c.Plans {
		names[p.Name]++
	}
	for _, n := range names {
		if n > 1 {
			res.Label("plans_with_equal_names")
			break
		}
	}
}

// ---------------------------------------------------------------------------------------------------------------------
// kill

const (
	killDirEnv = "VERIF_C14_DIR"
	killKEnv   = "VERIF_C14_K"
)

// TestC14KillChild is the child of the kill experiment; it does nothing unless the parent sets killChildEnv.
func TestC14KillChild(t *testing.T) {
	if os.Getenv(killChildEnv) == "" {
		t.Skip("helper of TestC14")
	}
	dir := os.Getenv(killDirEnv)
	k, _ := strconv.Atoi(os.Getenv(killKEnv))
	var big BigParams
	b, err := os.ReadFile(filepath.Join(dir, "big.json"))
	if err != nil || json.Unmarshal(b, &big) != nil || k < 1 {
		fmt.Println("CHILD-SETUP-ERROR: parameters", err)
		os.Exit(3)
	}
	ctx := context.Background()
	reg := store.NewRegistry()
	capture := &sqlite.CaptureStmts{}
	v, err := sqlite.New(ctx, filepath.Join(dir, "db"), reg, sqlite.WithCapture(capture))
	if err != nil {
		fmt.Println("CHILD-SETUP-ERROR: vault", err)
		os.Exit(3)
	}
	ws, err := coercion.New(ctx, reg, v, coercion.WithNoRecovery())
	if err != nil {
		fmt.Println("CHILD-SETUP-ERROR: workstream", err)
		os.Exit(3)
	}
	plan := store.BuildUser(store.BigSpec(big.Seed, big.Blocks, big.Seqs, big.Actions))
	// The watcher reads the capture without synchronisation (CaptureStmts has none): a benign race that only serves as
	// a trigger. SIGKILL cannot be caught: the process dies wherever Submit happens to be.
	go func() {
		for {
			if len(capture.Inserts()) >= k {
				_ = syscall.Kill(os.Getpid(), syscall.SIGKILL)
			}
			runtime.Gosched()
		}
	}()
	_, serr := ws.Submit(ctx, plan)
	// still alive: the kill did not fire before Submit returned
	msg := "ok"
	if serr != nil {
		msg = "error: " + serr.Error()
	}
	_ = os.WriteFile(filepath.Join(dir, "submit-returned"), []byte(msg), 0o644)
	os.Exit(0)
}

func (r *c14run) kill(c AtomCase) {
	res := r.res
	if c.Big == nil || c.Big.K < 1 {
		r.skip("malformed_case")
		return
	}
	dir, err := os.MkdirTemp("", "verif-c14-kill-")
	if err != nil {
		r.skip("tempdir_failed")
		return
	}
	defer os.RemoveAll(dir)
	b, _ := json.Marshal(c.Big)
	if err := os.WriteFile(filepath.Join(dir, "big.json"), b, 0o644); err != nil {
		r.skip("tempdir_failed")
		return
	}
	spec := store.BigSpec(c.Big.Seed, c.Big.Blocks, c.Big.Seqs, c.Big.Actions)
	objects := store.ObjectCount(spec)

	// the deadline only guards the shard against a wedged child; it is far above the ~0.2 s a child needs and never
	// produces a verdict (label kill_child_error, case skipped)
	cctx, cancel := context.WithTimeout(context.Background(), 120*time.Second)
	defer cancel()
	cmd := exec.CommandContext(cctx, os.Args[0], "-test.run", "^TestC14KillChild$", "-test.count=1")
	var env []string
	for _, e := range os.Environ() {
		if strings.HasPrefix(e, "VERIF_") {
			continue
		}
		env = append(env, e)
	}
	cmd.Env = append(env, killChildEnv+"=1", killDirEnv+"="+dir, killKEnv+"="+strconv.Itoa(c.Big.K))
	t0 := time.Now()
	out, runErr := cmd.CombinedOutput()
	vprop.Count("kill_child_ms", time.Since(t0).Milliseconds())
	vprop.Count("kills_attempted", 1)

	killed := false
	var ee *exec.ExitError
	if cctx.Err() != nil {
		res.Label("kill_child_error")
		res.Skip = true
		return
	}
	if errors.As(runErr, &ee) {
		if ws, ok := ee.Sys().(syscall.WaitStatus); ok && ws.Signaled() && ws.Signal() == syscall.SIGKILL {
			killed = true
		}
	}
	marker, merr := os.ReadFile(filepath.Join(dir, "submit-returned"))
	returned := merr == nil
	if !killed && !returned {
		res.Label("kill_child_error")
		res.Skip = true
		res.Sample = fmt.Sprintf("kill child failed: %v: %s", runErr, firstFrames(string(out), 10))
		return
	}

	reg := store.NewRegistry()
	// baseline: what the tables of a freshly created, empty store of this schema hold (a schema may own rows itself)
	bh, err := store.OpenDir(filepath.Join(dir, "baseline"), reg)
	if err != nil {
		r.skip("vault_open_failed")
		return
	}
	baseline, berr := bh.Rows(uuid.Nil)
	bh.Close()
	if berr != nil {
		r.skip("row_count_failed")
		return
	}
	h, err := store.OpenDir(filepath.Join(dir, "db"), reg)
	if err != nil {
		// a database that cannot be opened after the kill: neither "complete plan readable" nor "no trace"
		r.fail("kill:store-unusable", "after SIGKILL at insert %d of %d the store cannot be opened: %v", c.Big.K, objects, err)
		return
	}
	stalled := false
	defer func() {
		if stalled {
			h.Abandon()
		} else {
			h.Close()
		}
	}()
	rows, err := h.Rows(uuid.Nil)
	if err != nil {
		r.skip("row_count_failed") // the harness could not measure; says nothing about the store
		return
	}
	submitOK := returned && string(marker) == "ok"
	if rows.Equal(baseline) {
		// "no trace of it exists"
		if submitOK {
			// Clause: "a successful Submit always implies the stored plan equals the submitted one"
			r.fail("kill:submit-ok-but-missing", "the child's Submit returned nil, yet the re-opened store holds nothing but the rows of an empty store (%s)", rows)
			return
		}
		if killed && !returned {
			// NT (DESIGN §5 C14): the kill landed after the first insert (k >= 1 inserts had been captured) and before
			// commit (nothing is visible after reopening)
			res.Label("kill_mid_transaction")
			res.NonTrivial = true
			vprop.Count("kills_mid_transaction", 1)
		} else {
			res.Label("kill_submit_failed_clean")
		}
		return
	}
	// something is there: it must be the complete plan, found through the public API
	var ch chan storage.Stream[storage.ListResult]
	var lerr error
	if guard(res, "C14", r.arm, "List after kill", func() { ch, lerr = h.Vault.List(context.Background(), 100000) }) {
		return
	}
	if lerr != nil || ch == nil {
		r.skip("list_unusable_unjudged")
		return
	}
	items, errs, closed := drain(ch)
	if !closed {
		stalled = true
		r.skip("list_stalled_unjudged")
		return
	}
	if len(errs) > 0 {
		r.skip("list_unusable_unjudged")
		return
	}
	if len(items) != 1 {
		r.fail("kill:partial-plan", "after SIGKILL at insert %d of %d (killed=%v, submit returned=%v %q) the tables hold %s (an empty store holds %s) but List returns %d plans: neither the complete plan nor no trace",
			c.Big.K, objects, killed, returned, marker, rows, baseline, len(items))
		return
	}
	id := items[0].ID
	var got *workflow.Plan
	var rerr error
	if guard(res, "C14", r.arm, "Read after kill", func() { got, rerr = h.Vault.Read(context.Background(), id) }) {
		return
	}
	if rerr != nil {
		r.fail("kill:partial-plan", "after SIGKILL at insert %d of %d the tables hold %s and List returns plan %s, which cannot be read: %v", c.Big.K, objects, rows, id, rerr)
		return
	}
	exp := store.Build(spec)
	if got != nil {
		exp.SubmitTime = got.SubmitTime // assigned by Submit in the child
	}
	if diffs := store.DiffPlans(exp, got, store.CmpOpt{IgnoreIDs: true}); len(diffs) > 0 {
		r.fail("kill:partial-plan", "after SIGKILL at insert %d of %d the stored plan differs from the submitted one:%s", c.Big.K, objects, diffText(diffs))
		return
	}
	switch {
	case killed && !returned:
		res.Label("kill_after_commit")
	default:
		res.Label("kill_not_fired_before_return")
	}
}

func checkAtomCase(c AtomCase) (res vprop.Result) {
	defer func() { res.Labels = dedupe(res.Labels) }()
	res.Label("mode:" + c.Mode)
	res.Label("arm:" + c.Arm)
	vprop.Count("cases:"+c.Mode, 1)
	r := &c14run{res: &res, arm: c.Arm}
	switch c.Mode {
	case "poison":
		if !store.IsSqlite(c.Arm) {
			r.skip("malformed_case")
			return res
		}
		r.poison(c)
	case "dup":
		r.dup(c)
	case "interleave":
		r.interleave(c)
	case "kill":
		r.kill(c)
	case "batch":
		r.batch(c)
	case "cancel":
		r.cancel(c)
	default:
		r.skip("malformed_case")
	}
	return res
}

func TestC14(t *testing.T) {
	if os.Getenv(killChildEnv) != "" {
		t.Skip("kill child process")
	}
	vprop.Run(t, vprop.Spec[AtomCase]{
		ID:    "C14",
		Gen:   genAtomCase,
		Check: checkAtomCase,
	})
}
