package pstore

// C15, cosmosdb arm, mode "lost search replace": status searches after the vault's start-up repair.
//
// Same experiment as C13's mode of that name (c13_lostsearch_test.go): a plan stored Running, then a terminal UpdatePlan
// whose search-partition batch is refused, so that the plan document is terminal while the search entry still says
// Running; then Vault.Recovery(), the repair that coercion.New runs before anything else uses the vault.
// Clause: "Search returns exactly the plans matching all given filters ... In particular every plan durably Running is
// returned by a status search, which is what crash recovery relies on": after Recovery a search for Running returns the
// plan if and only if Read says it is Running, and a search for its terminal status returns it if and only if Read says
// it has that status (either outcome of the cut update is accepted, the two views must agree). Plans stored Running and
// left alone are still returned by the search for Running. Uses the verif hook NewVerifFakeVaultWithStatusSearch.

import (
	"context"
	"fmt"
	"time"

	"github.com/google/uuid"

	"github.com/element-of-surprise/coercion/workflow"
	"github.com/element-of-surprise/coercion/workflow/storage"
	"github.com/element-of-surprise/coercion/workflow/storage/cosmosdb"

	"verifharness/store"
	"verifharness/vprop"
)

func checkLostSearchC15(ls *LostSearch) (res vprop.Result) {
	arm := store.ArmCosmosFake
	res.Label("arm:" + arm)
	res.Label("mode:lost-search-replace")
	vprop.Count("cases:"+arm, 1)
	fail := func(rule, format string, a ...any) { res.Fail(armRule("C15", arm, rule), format, a...) }
	ctx := context.Background()
	reg := store.NewRegistry()
	var v *cosmosdb.Vault
	var ctl *cosmosdb.VerifFakeControl
	if guard(&res, "C15", arm, "opening the vault", func() { v, ctl = cosmosdb.NewVerifFakeVaultWithStatusSearch(reg) }) {
		return res
	}
	start := time.Unix(ls.StartSec, 0).UTC()
	end := start.Add(time.Duration(ls.RunSec) * time.Second)
	setup := func() { res.Skip = true; res.Label("lost_search_setup_failed") }
	storeRunning := func(spec store.PlanSpec) *workflow.Plan {
		var err error
		plan := store.Build(spec)
		var p *workflow.Plan
		if guard(&res, "C15", arm, "Create/Read/UpdatePlan", func() {
			if err = v.Create(ctx, plan); err != nil {
				return
			}
			if p, err = v.Read(ctx, plan.ID); err != nil || p == nil || p.State == nil {
				if err == nil {
					err = fmt.Errorf("plan read back without a state")
				}
				return
			}
			p.State.Status, p.State.Start = workflow.Running, start
			err = v.UpdatePlan(ctx, p)
		}) {
			return nil
		}
		if err != nil {
			setup()
			return nil
		}
		return p
	}
	pristine := store.Pristine(ls.Spec)
	p := storeRunning(pristine)
	if p == nil {
		return res
	}
	var others []uuid.UUID
	for i := 0; i < ls.Others; i++ {
		o := store.Pristine(pristine)
		o.Seed += uint64(1000 * (i + 1))
		op := storeRunning(o)
		if op == nil {
			return res
		}
		others = append(others, op.ID)
	}
	term := []workflow.Status{workflow.Completed, workflow.Failed, workflow.Stopped}[ls.Terminal%3]
	if term == workflow.Failed {
		p.Reason = store.ReasonOf(ls.Reason)
	}
	p.State.Status, p.State.End = term, end
	ctl.FailBatch(cosmosdb.VerifSearchPartition, 1)
	var uerr error
	if guard(&res, "C15", arm, "UpdatePlan under a refused search batch", func() { uerr = v.UpdatePlan(ctx, p) }) {
		return res
	}
	hit := ctl.Batches() >= 1
	ctl.FailBatch("", 0)
	if hit && uerr != nil {
		res.Label("lost_search_update_failed_midway")
		res.NonTrivial = true
		vprop.Count("lost_search_update_failed_midway", 1)
	}
	var rerr error
	if guard(&res, "C15", arm, "Recovery", func() { rerr = storage.Recovery(v).Recovery(ctx) }) {
		return res
	}
	var got *workflow.Plan
	var err error
	if guard(&res, "C15", arm, "Read after Recovery", func() { got, err = v.Read(ctx, p.ID) }) {
		return res
	}
	if err != nil || got == nil || got.State == nil {
		res.Skip = true
		res.Label("lost_search_plan_unreadable_unjudged") // C13's business
		return res
	}
	where := fmt.Sprintf("plan stored Running, then UpdatePlan(%v) with the search-partition batch refused (update error: %v), then Recovery (error: %v); Read says %v", term, uerr, rerr, got.State.Status)
	searchIDs := func(st workflow.Status) (map[uuid.UUID]bool, bool) {
		var ch chan storage.Stream[storage.ListResult]
		var serr error
		if guard(&res, "C15", arm, "Search by status", func() { ch, serr = v.Search(ctx, storage.Filters{ByStatus: []workflow.Status{st}}) }) {
			return nil, false
		}
		if serr != nil || ch == nil {
			res.Skip = true
			res.Label("lost_search_search_unusable_unjudged")
			return nil, false
		}
		items, errs, closed := drain(ch)
		if !closed {
			fail("stream-not-closed:search-after-recovery", "%s: the stream of Search(%v) was not closed", where, st)
			return nil, false
		}
		if len(errs) > 0 {
			res.Skip = true
			res.Label("lost_search_search_unusable_unjudged")
			return nil, false
		}
		ids := map[uuid.UUID]bool{}
		for _, it := range items {
			ids[it.ID] = true
		}
		return ids, true
	}
	running, ok := searchIDs(workflow.Running)
	if !ok {
		return res
	}
	if want := got.State.Status == workflow.Running; running[p.ID] != want {
		fail("search-after-recovery:running", "%s, but Search(Running) returns it: %v", where, running[p.ID])
		return res
	}
	terminal, ok := searchIDs(term)
	if !ok {
		return res
	}
	if want := got.State.Status == term; terminal[p.ID] != want {
		fail("search-after-recovery:terminal", "%s, but Search(%v) returns it: %v", where, term, terminal[p.ID])
		return res
	}
	for _, id := range others {
		if !running[id] {
			fail("search-after-recovery:missing-running", "%s: plan %s was stored Running and left alone, Search(Running) does not return it", where, id)
			return res
		}
	}
	res.Label("lost_search_views_agree")
	return res
}
