package pstore

// C15 — Exists, Search and List answer exactly from stored state and terminate.
//
// Statement: "Exists is true exactly for plans that were created and not deleted. Search returns exactly the plans
// matching all given filters (one of the ids, one of the group ids, any of the listed statuses) and List returns all
// plans up to the limit, both ordered newest submission first, and every result stream is eventually closed. In
// particular every plan durably Running is returned by a status search, which is what crash recovery relies on."
//
// A case is a plain-data store description (0-8 small plans with statuses, groups, submit times; some deleted) plus a
// list of queries. The store is built through the public Vault API (Create, UpdatePlan, Delete), then every query is
// answered by the vault and by a reference filter over the model.
//
// Readings (weaker ones where the statement is silent):
//   * identity of a result is its plan id. "Returns the plans": once a stream has been drained COMPLETELY, every entry must
//     describe its own plan as stored (rules search:entry-state / list:entry-state / *:entry-fields): State is present
//     (the sqlite reader sets it for every row) and State.Status is the status last written for that plan (Create, then
//     UpdatePlan), State.Start / State.End are the instants last written when the model has a non-zero instant (the zero
//     time.Time has no documented stored form: label entry_zero_time_unjudged), and ID, GroupID, Name, Descr and
//     SubmitTime (by instant) are those of the plan. For a Search with a status filter every entry's State.Status must
//     be one of the statuses asked for (rule search:entry-status-unasked). The comparison happens after the drain, as
//     crash recovery and listings use the entries: a producer that keeps writing into memory its entries share shows;
//   * "huge store" (about one case in 400, sqlite in-memory arm): 1001-2049 minimal plans (1 block, 1 sequence, 1 action)
//     are added to the store, most of them Running, and the case asks Search(Running), Search(Running|other) and
//     List(N+5): "every plan durably Running is returned by a status search" has no size bound;
//   * order is judged with the submit times of the model, ties in any order;
//   * List(limit >= 1): exactly min(limit, n) results and no omitted plan is newer than a returned one. List(0) is not
//     documented in storage.Reader (sqlite treats <= 0 as "no limit", the cosmos comment says 0 = no limit): only what
//     holds under both readings is asserted for it (closed stream, existing ids, no duplicates, newest first);
//   * "eventually closed": the consumer reads until the channel is closed; a stream still open 10 s after the call is a
//     violation (the only wall-clock rule, DESIGN §2.4; nothing is runnable that could still close it: the producer of a
//     result set of <= 8 rows needs microseconds). After a stall the vault is abandoned, not closed.
//   * a group filter may contain uuid.Nil: a plan submitted without a group is stored with the zero group id, so the
//     reference filter (plain equality on the group id) selects the ungrouped plans for it;
//   * "contended" queries: a List/Search stream is opened and NOT consumed (with >= 2 result rows its producer blocks on
//     the 1-slot channel and keeps the vault's single pooled connection), then Search/List is called with a context that
//     expires after 5-20 ms. The statement promises nothing about the content of that second answer; it only says "every
//     result stream is eventually closed": so either the call returns an error (no stream exists) or the stream it
//     returned is closed within the stall window. The deadline only shapes the schedule, the verdict is the stall rule.
//     Afterwards the first stream is drained (it must close as well). The same closure-only rule is applied to a Search
//     issued after Vault.Close (optional last step of a case) and to "cancelled" queries: Search/List entered with a
//     context that is already cancelled;
//   * "busy" queries: a goroutine keeps writing to plans of the store through the public API (UpdatePlan and UpdateAction
//     with objects obtained from Read and NOTHING changed, i.e. it re-writes the stored state) while Search/List queries
//     run; the writes change nothing a query depends on, so the full oracle applies, in particular "every result stream
//     is eventually closed" (rules carry the suffix "+writer"). The engine does exactly this: it records progress while
//     a service lists plans;
//   * On the cosmos fake only Exists is judged: the fake discards the query text of Search/List (it filters by @ids only
//     and ignores ORDER BY, status and group predicates), so their semantics would be the fake's, not the vault's.

import (
	"context"
	"fmt"
	"sort"
	"sync/atomic"
	"testing"
	"time"

	"github.com/google/uuid"
	"pgregory.net/rapid"

	"github.com/element-of-surprise/coercion/workflow"
	"github.com/element-of-surprise/coercion/workflow/storage"

	"verifharness/store"
	"verifharness/vprop"
)

// StorePlan is one plan of the generated store.
type StorePlan struct {
	Spec store.PlanSpec
	// Status is the status (index into store.Statuses) the plan has at rest.
	Status int
	// ViaUpdate: the plan is created pristine (as Submit does) and brought to Status by UpdatePlan; otherwise it is
	// created with that status.
	ViaUpdate bool
	// Deleted: the plan is deleted again before the queries run.
	Deleted bool
	// Start / End: the plan's State.Start / State.End at rest (store.TimeOf encoding, 0 = the zero time), written together
	// with Status.
	Start int64 `json:",omitempty"`
	End   int64 `json:",omitempty"`
}

// Query is one query against the store. Plan references are indices into Plans; an index >= len(Plans) denotes an id that
// was never created.
type Query struct {
	// Kind: "exists", "search", "list", "contended", "cancelled", "busy".
	Kind   string
	Exists int   `json:",omitempty"`
	IDs    []int `json:",omitempty"`
	// Groups holds group indices; 0 is uuid.Nil (the group id of every ungrouped plan), 4 a group no plan has.
	Groups   []int `json:",omitempty"`
	Statuses []int `json:",omitempty"`
	Limit    int   `json:",omitempty"`
	// busy: Second/filters/Limit as for contended, executed Repeat times while a writer goroutine re-writes plan and action
	// states of the store.
	Repeat int `json:",omitempty"`
	// contended: First ("list" | "search") is opened and left unconsumed, then Second ("search" with the filters above |
	// "list" with Limit) is called with a context that expires after DeadlineMS milliseconds.
	First      string `json:",omitempty"`
	Second     string `json:",omitempty"`
	DeadlineMS int    `json:",omitempty"`
}

// StoreCase is a C15 case.
type StoreCase struct {
	Arm    string
	Seed   uint64
	Plans  []StorePlan
	Reopen bool `json:",omitempty"`
	// SearchAfterClose: as the very last step the vault is closed and a Search is issued on it (closure-only rule).
	SearchAfterClose bool `json:",omitempty"`
	// Queries; a Search(ByStatus=[Running]) is always appended by the interpreter.
	Queries []Query
	// Huge > 0: the "huge store" class. After Plans, Huge minimal plans (1 block, 1 sequence, 1 action, no check groups;
	// ids, names and submit times are a pure function of Seed and the index, see c15HugeSpec) are created; the first
	// HugeOthers of them are brought to status HugeOther (index into store.Statuses, never Running), all the others to
	// Running.
	Huge       int `json:",omitempty"`
	HugeOthers int `json:",omitempty"`
	HugeOther  int `json:",omitempty"`
	// Lost, when set, makes the case a "lost search replace" experiment on the cosmosdb arm (c15_lostsearch_test.go).
	Lost *LostSearch `json:",omitempty"`
}

// c15HugeSizes are the store sizes of the huge class: just above 1000 rows, and well above.
var c15HugeSizes = []int{1001, 1002, 1500, 2049}

// c15HugeOneIn: a sqlite-mem case is a huge store with probability 1/c15HugeOneIn (86% of the cases are sqlite-mem: 1 in 400).
const c15HugeOneIn = 344

// c15HugeMax bounds Huge for hand-written replay files.
const c15HugeMax = 5000

var c15Cfg = store.GenCfg{MaxBlocks: 1, MaxSeqs: 1, MaxActions: 1, MaxGroupActions: 1, GroupOneIn: 4, Plain: true}

// submitPool forces equal submit times (ties) and neighbours one nanosecond apart.
var submitPool = []int64{1_600_000_000_000_000_000, 1_600_000_000_000_000_001, 1_600_000_000_000_000_001, 1_700_000_000_500_000_000, 999, 4_102_444_800_000_000_000}

func genStoreCase(t *rapid.T) StoreCase {
	c := StoreCase{Arm: genArm(t), Seed: rapid.Uint64().Draw(t, "seed")}
	if c.Arm == store.ArmCosmosFake && store.Uniform(t, 4, "lostsearch") == 3 {
		c.Lost = genLostSearch(t)
		return c
	}
	n := rapid.IntRange(0, 8).Draw(t, "nplans")
	for i := 0; i < n; i++ {
		l := fmt.Sprintf("p%d", i)
		sp := StorePlan{
			Spec:      c15Cfg.Plan(t, l, i+1),
			Status:    rapid.IntRange(0, len(store.Statuses)-1).Draw(t, l+".status"),
			ViaUpdate: rapid.IntRange(0, 3).Draw(t, l+".direct") != 3, // default: the engine's way (pristine Create + UpdatePlan)
			Deleted:   rapid.IntRange(0, 4).Draw(t, l+".deleted") == 4,
		}
		if k := rapid.IntRange(0, len(submitPool)+1).Draw(t, l+".submitk"); k < len(submitPool) {
			sp.Spec.Submit = submitPool[k]
		}
		if rapid.IntRange(0, 2).Draw(t, l+".times") != 0 {
			sp.Start = store.GenNonZeroTime(t, l+".start")
			sp.End = store.GenTime(t, l+".end")
		}
		c.Plans = append(c.Plans, sp)
	}
	if c.Arm == store.ArmSqliteFile {
		c.Reopen = rapid.Bool().Draw(t, "reopen")
	}
	filters := func(q *Query) {
		mask := rapid.IntRange(1, 7).Draw(t, "mask")
		if mask&1 != 0 {
			k := rapid.IntRange(1, 3).Draw(t, "nids")
			for j := 0; j < k; j++ {
				q.IDs = append(q.IDs, rapid.IntRange(0, n+1).Draw(t, "id")) // >= n: an id that was never created
			}
		}
		if mask&2 != 0 {
			k := rapid.IntRange(1, 3).Draw(t, "ngroups")
			for j := 0; j < k; j++ {
				q.Groups = append(q.Groups, rapid.IntRange(0, 4).Draw(t, "group")) // 0: uuid.Nil, 4: a group no plan has
			}
		}
		if mask&4 != 0 {
			k := rapid.IntRange(1, 3).Draw(t, "nstatuses")
			for j := 0; j < k; j++ {
				q.Statuses = append(q.Statuses, rapid.IntRange(0, len(store.Statuses)-1).Draw(t, "status"))
			}
		}
	}
	if c.Arm == store.ArmSqliteMem && store.Uniform(t, c15HugeOneIn, "huge") == c15HugeOneIn-1 { // not 0: shrinking (all draws towards 0) must lead out of the class
		c.Huge = rapid.SampledFrom(c15HugeSizes).Draw(t, "hugesize")
		c.HugeOther = rapid.SampledFrom([]int{0, 2, 3, 4}).Draw(t, "hugeother")
		switch rapid.IntRange(0, 3).Draw(t, "hugeotherskind") {
		case 0: // every plan Running
		case 1:
			c.HugeOthers = 1
		case 2:
			c.HugeOthers = c.Huge - 1001 // exactly 1001 Running
		default:
			c.HugeOthers = rapid.IntRange(0, c.Huge-1000).Draw(t, "hugeothers") // at least 1000 Running
		}
		c.Queries = []Query{
			{Kind: "search", Statuses: []int{1}},
			{Kind: "search", Statuses: []int{c.HugeOther, 1}},
			{Kind: "list", Limit: c.Huge + 5},
		}
		c.SearchAfterClose = rapid.IntRange(0, 3).Draw(t, "searchafterclose") == 3
		return c
	}
	nq := rapid.IntRange(1, 12).Draw(t, "nqueries")
	for i := 0; i < nq; i++ {
		var q Query
		switch r := rapid.IntRange(0, 10).Draw(t, "qkind"); {
		case r <= 3:
			q.Kind = "search"
			filters(&q)
		case r <= 5:
			q.Kind = "exists"
			q.Exists = rapid.IntRange(0, n).Draw(t, "exists")
		case r <= 7:
			q.Kind = "list"
			q.Limit = rapid.IntRange(0, n+2).Draw(t, "limit")
		case r == 10:
			q.Kind = "busy"
			q.Second = rapid.SampledFrom([]string{"search", "list"}).Draw(t, "second")
			q.Repeat = rapid.IntRange(2, 6).Draw(t, "repeat")
			if q.Second == "search" {
				filters(&q)
			} else {
				q.Limit = rapid.IntRange(1, n+2).Draw(t, "limit")
			}
		case r == 9:
			// Search/List entered with a context that is ALREADY cancelled (closure-only rule). Before /repo cff7769 the
			// error of the worker pool's Submit was ignored: about one such call in four returned a stream that was never
			// closed and leaked the vault's only connection (regressions/C15/sqlite-submit-error-ignored.json).
			q.Kind = "cancelled"
			q.Second = rapid.SampledFrom([]string{"search", "list"}).Draw(t, "second")
			q.Limit = rapid.IntRange(1, n+2).Draw(t, "limit")
		default:
			q.Kind = "contended"
			q.First = rapid.SampledFrom([]string{"list", "search"}).Draw(t, "first")
			q.Second = rapid.SampledFrom([]string{"search", "search", "list"}).Draw(t, "second")
			q.DeadlineMS = rapid.IntRange(5, 20).Draw(t, "deadline")
			if q.Second == "search" {
				filters(&q)
			} else {
				q.Limit = rapid.IntRange(1, n+2).Draw(t, "limit")
			}
		}
		c.Queries = append(c.Queries, q)
	}
	c.SearchAfterClose = rapid.IntRange(0, 3).Draw(t, "searchafterclose") == 3
	return c
}

// stallWindow is how long a result stream may stay open. The first stall observed in a process is judged with the full
// window; while rapid shrinks that failure the window is shortened so that shrinking terminates (a correct producer
// closes within microseconds). Replays (--replay, regressions) always run in a fresh process with the full window.
var stallsSeen atomic.Int64

func stallWindow() time.Duration {
	if stallsSeen.Load() > 0 {
		return 2 * time.Second
	}
	return 10 * time.Second
}

// drain consumes the stream until it is closed or the window expires.
func drain(ch chan storage.Stream[storage.ListResult]) (items []storage.ListResult, errs []error, closed bool) {
	type out struct {
		items []storage.ListResult
		errs  []error
	}
	done := make(chan out, 1)
	var progress atomic.Int64
	go func() {
		var o out
		for e := range ch {
			progress.Add(1)
			if e.Err != nil {
				o.errs = append(o.errs, e.Err)
			} else {
				o.items = append(o.items, e.Result)
			}
		}
		done <- o
	}()
	// the window is observed time, not wall-clock time (vprop.ObservedAfter): a frozen or starved process cannot
	// produce a stall verdict
	expired, stopTimer := vprop.ObservedAfter(stallWindow())
	defer stopTimer()
	select {
	case o := <-done:
		return o.items, o.errs, true
	case <-expired:
		stallsSeen.Add(1)
		return nil, nil, false
	}
}

type c15plan struct {
	id      uuid.UUID
	group   uuid.UUID
	status  workflow.Status
	submit  int64
	present bool
	// what was last written for the plan besides the status: name and description (Create), State.Start / State.End in
	// the store.TimeOf encoding (Create or UpdatePlan)
	name, descr string
	start, end  int64
}

type c15run struct {
	res   *vprop.Result
	arm   string
	h     *store.Handle
	plans []c15plan
	// nspec is the number of plans that come from StoreCase.Plans (query indices refer to those); huge-class plans follow
	nspec int
	index map[uuid.UUID]int
	seed  uint64
	// stalled: a stream was never closed; the vault's only connection may still be in use and must not be touched again
	stalled bool
	// closed: the case itself closed the vault
	closed bool
	// tag is appended to every rule while a special context is active ("+writer")
	tag string
}

func (r *c15run) fail(rule, format string, a ...any) {
	r.res.Fail(armRule("C15", r.arm, rule+r.tag), format, a...)
}

// busy runs the query Repeat times while a goroutine re-writes plan and action states of the store (nothing changes).
func (r *c15run) busy(ctx context.Context, q Query) {
	var lives []*workflow.Plan
	for _, p := range r.plans {
		if !p.present {
			continue
		}
		var live *workflow.Plan
		var err error
		if guard(r.res, "C15", r.arm, "Read for the concurrent writer", func() { live, err = r.h.Vault.Read(ctx, p.id) }) {
			return
		}
		if err != nil || live == nil || live.State == nil {
			r.res.Label("busy_read_failed_skipped") // Read is C13's business
			return
		}
		lives = append(lives, live)
	}
	if len(lives) == 0 {
		r.res.Label("busy_skipped_empty_store")
		return
	}
	stop, done := make(chan struct{}), make(chan struct{})
	var writes, werrs atomic.Int64
	go func() {
		defer close(done)
		defer func() {
			if rec := recover(); rec != nil {
				werrs.Add(1 << 20)
			}
		}()
		for i := 0; ; i++ {
			select {
			case <-stop:
				return
			default:
			}
			p := lives[i%len(lives)]
			var err error
			if i%2 == 0 {
				err = r.h.Vault.UpdatePlan(ctx, p) // same status, times and reason as stored
			} else if len(p.Blocks) > 0 && p.Blocks[0] != nil && len(p.Blocks[0].Sequences) > 0 && p.Blocks[0].Sequences[0] != nil &&
				len(p.Blocks[0].Sequences[0].Actions) > 0 && p.Blocks[0].Sequences[0].Actions[0] != nil && p.Blocks[0].Sequences[0].Actions[0].State != nil {
				err = r.h.Vault.UpdateAction(ctx, p.Blocks[0].Sequences[0].Actions[0]) // same state and attempts as stored
			}
			if err != nil {
				werrs.Add(1)
			}
			writes.Add(1)
		}
	}()
	r.tag = "+writer"
	for i := 0; i < max(1, q.Repeat) && len(r.res.Violations) == 0 && !r.res.Skip; i++ {
		if q.Second == "list" {
			r.list(ctx, q.Limit)
		} else {
			r.search(ctx, q, "search")
		}
	}
	r.tag = ""
	close(stop)
	timer := time.NewTimer(stallWindow())
	defer timer.Stop()
	select {
	case <-done:
	case <-timer.C:
		// the writer is wedged inside the vault: whatever the reason, this vault must not be used or closed any more
		r.stalled = true
		r.res.Label("busy_writer_wedged")
	}
	if writes.Load() > 0 {
		r.res.Label("busy_writer_wrote")
	}
	if werrs.Load() > 0 {
		r.res.Label("busy_writer_update_errors_unjudged") // Update* errors are C13's business
	}
	vprop.Count("busy_writes", writes.Load())
}

func (r *c15run) idOf(i int) uuid.UUID {
	if i >= 0 && i < r.nspec && i < len(r.plans) {
		return r.plans[i].id
	}
	return store.UnknownID(r.seed, uint32(i))
}

func (r *c15run) byID(id uuid.UUID) *c15plan {
	if len(r.plans) > 32 {
		if len(r.index) != len(r.plans) {
			r.index = make(map[uuid.UUID]int, len(r.plans))
			for i := range r.plans {
				r.index[r.plans[i].id] = i
			}
		}
		if i, ok := r.index[id]; ok {
			return &r.plans[i]
		}
		return nil
	}
	for i := range r.plans {
		if r.plans[i].id == id {
			return &r.plans[i]
		}
	}
	return nil
}

// checkEntries judges the content of the entries of a stream that has been drained completely and whose ids have passed
// checkCommon (every id is a stored plan): each entry must describe its own plan as stored. asked is the status filter
// of a Search (nil otherwise).
func (r *c15run) checkEntries(kind, descr string, items []storage.ListResult, asked []workflow.Status) bool {
	stamp := func(t time.Time) string {
		if t.IsZero() {
			return "the zero time"
		}
		return t.UTC().Format(time.RFC3339Nano)
	}
	for i, it := range items {
		p := r.byID(it.ID)
		if p == nil {
			continue // checkCommon has reported it
		}
		if it.State == nil {
			// only the sqlite arms get here, and their reader builds a State for every row
			r.fail(kind+":entry-state", "%s: result %d (%s) has no State; stored status %v", descr, i, it.ID, p.status)
			return false
		}
		if len(asked) > 0 {
			ok := false
			for _, s := range asked {
				ok = ok || s == it.State.Status
			}
			if !ok {
				r.fail(kind+":entry-status-unasked", "%s: result %d (%s) reports status %v, which was not asked for (stored status %v); entry read after the stream was drained",
					descr, i, it.ID, it.State.Status, p.status)
				return false
			}
		}
		if it.State.Status != p.status {
			r.fail(kind+":entry-state", "%s: result %d (%s) reports status %v, the status last written for that plan is %v; entry read after the stream was drained (%d results)",
				descr, i, it.ID, it.State.Status, p.status, len(items))
			return false
		}
		for _, tm := range []struct {
			name string
			want int64
			got  time.Time
		}{{"Start", p.start, it.State.Start}, {"End", p.end, it.State.End}} {
			if tm.want == 0 {
				r.res.Label("entry_zero_time_unjudged")
				continue
			}
			if !tm.got.Equal(store.TimeOf(tm.want)) {
				r.fail(kind+":entry-state", "%s: result %d (%s) reports State.%s %s, last written for that plan: %s; entry read after the stream was drained (%d results)",
					descr, i, it.ID, tm.name, stamp(tm.got), stamp(store.TimeOf(tm.want)), len(items))
				return false
			}
		}
		switch {
		case it.GroupID != p.group:
			r.fail(kind+":entry-fields", "%s: result %d (%s) reports group %s, stored group %s", descr, i, it.ID, it.GroupID, p.group)
		case it.Name != p.name:
			r.fail(kind+":entry-fields", "%s: result %d (%s) reports name %q, stored name %q", descr, i, it.ID, it.Name, p.name)
		case it.Descr != p.descr:
			r.fail(kind+":entry-fields", "%s: result %d (%s) reports description %q, stored description %q", descr, i, it.ID, it.Descr, p.descr)
		case !it.SubmitTime.Equal(store.TimeOf(p.submit)):
			r.fail(kind+":entry-fields", "%s: result %d (%s) reports submit time %s, stored submit time %s", descr, i, it.ID, stamp(it.SubmitTime), stamp(store.TimeOf(p.submit)))
		default:
			continue
		}
		return false
	}
	if len(items) >= 2 {
		r.res.Label("entries_judged_multi")
		for _, it := range items[1:] {
			if a, b := r.byID(items[0].ID), r.byID(it.ID); a != nil && b != nil && (a.status != b.status || a.start != b.start || a.end != b.end) {
				r.res.Label("entries_judged_distinct_states")
				break
			}
		}
	}
	return true
}

// checkStream validates a result list against the expected id set. exact = the set must be exactly want; otherwise want
// is the universe and count/newest rules are applied by the caller.
func (r *c15run) checkCommon(kind, descr string, items []storage.ListResult, want map[uuid.UUID]bool) bool {
	seen := map[uuid.UUID]bool{}
	for _, it := range items {
		if seen[it.ID] {
			r.fail(kind+":duplicate", "%s: plan %s returned twice", descr, it.ID)
			return false
		}
		seen[it.ID] = true
		if !want[it.ID] {
			p := r.byID(it.ID)
			why := "an id that was never created"
			if p != nil && !p.present {
				why = "a deleted plan"
			} else if p != nil {
				why = fmt.Sprintf("a plan that does not match (status %v, group %s)", p.status, p.group)
			}
			r.fail(kind+":extra", "%s: returned %s, %s", descr, it.ID, why)
			return false
		}
	}
	// Clause: "both ordered newest submission first" (ties in any order)
	for i := 1; i < len(items); i++ {
		a, b := r.byID(items[i-1].ID), r.byID(items[i].ID)
		if a.submit < b.submit {
			r.fail(kind+":order", "%s: result %d (%s, submitted %s) is older than result %d (%s, submitted %s)", descr,
				i-1, a.id, store.TimeOf(a.submit).Format(time.RFC3339Nano), i, b.id, store.TimeOf(b.submit).Format(time.RFC3339Nano))
			return false
		}
	}
	return true
}

func (r *c15run) filtersOf(q Query) storage.Filters {
	f := storage.Filters{}
	for _, i := range q.IDs {
		f.ByIDs = append(f.ByIDs, r.idOf(i))
	}
	for _, g := range q.Groups {
		f.ByGroupIDs = append(f.ByGroupIDs, store.GroupID(g)) // GroupID(0) == uuid.Nil
	}
	for _, s := range q.Statuses {
		f.ByStatus = append(f.ByStatus, store.StatusOf(s))
	}
	return f
}

// openFirst opens the stream that is left unconsumed in a contended query.
func (r *c15run) openFirst(ctx context.Context, kind string) (ch chan storage.Stream[storage.ListResult], err error, panicked bool) {
	panicked = guard(r.res, "C15", r.arm, "opening the unconsumed "+kind+" stream", func() {
		if kind == "list" {
			ch, err = r.h.Vault.List(ctx, len(r.plans)+2)
		} else {
			ch, err = r.h.Vault.Search(ctx, storage.Filters{ByStatus: append([]workflow.Status(nil), store.Statuses...)})
		}
	})
	return ch, err, panicked
}

// closureOnly applies the only clause that speaks about a call whose context expires or whose vault is closed: "every
// result stream is eventually closed". Legal outcomes: an error and no stream, or a stream that gets closed.
func (r *c15run) closureOnly(what, rule string, ch chan storage.Stream[storage.ListResult], err error) {
	if err != nil {
		r.res.Label(rule + ":error-no-stream")
		return
	}
	if ch == nil {
		r.fail("stream-not-closed:"+rule, "%s returned a nil channel and a nil error", what)
		return
	}
	window := stallWindow()
	items, errs, closed := drain(ch)
	if !closed {
		r.stalled = true
		r.fail("stream-not-closed:"+rule, "%s returned a stream (nil error) that was not closed within %v", what, window)
		return
	}
	if len(errs) > 0 {
		r.res.Label(rule + ":closed-with-error-item")
	} else {
		_ = items
		r.res.Label(rule + ":closed-with-results")
	}
}

func (r *c15run) contended(ctx context.Context, q Query) {
	present := 0
	for _, p := range r.plans {
		if p.present {
			present++
		}
	}
	if present < 2 {
		// With fewer than two rows the producer of the first stream finishes and releases the connection: the second
		// call would then race its own deadline against the worker-pool submission instead of waiting for the
		// connection (see the "cancelled" kind for that window). Only the deterministic, contended schedule is run.
		r.res.Label("contended_skipped_conn_free")
		return
	}
	first, ferr, panicked := r.openFirst(ctx, q.First)
	if panicked {
		return
	}
	if ferr != nil || first == nil {
		r.res.Label("contended_first_stream_unavailable") // judged by the plain search/list queries
		return
	}
	// the producer has one row in the channel buffer and blocks on the second: it keeps the only connection until the
	// stream is consumed, which happens at the end of this function
	r.res.Label("contended_conn_held")
	dctx, cancel := context.WithTimeout(ctx, time.Duration(q.DeadlineMS)*time.Millisecond)
	var ch chan storage.Stream[storage.ListResult]
	var err error
	what := ""
	if q.Second == "list" {
		what = fmt.Sprintf("List(%d) with a %d ms deadline while an unconsumed %s stream is open", q.Limit, q.DeadlineMS, q.First)
		panicked = guard(r.res, "C15", r.arm, what, func() { ch, err = r.h.Vault.List(dctx, q.Limit) })
	} else {
		f := r.filtersOf(q)
		what = fmt.Sprintf("Search(ids=%v groups=%v statuses=%v) with a %d ms deadline while an unconsumed %s stream is open", q.IDs, q.Groups, f.ByStatus, q.DeadlineMS, q.First)
		panicked = guard(r.res, "C15", r.arm, what, func() { ch, err = r.h.Vault.Search(dctx, f) })
	}
	if !panicked {
		r.closureOnly(what, q.Second+"-contended", ch, err)
	}
	cancel()
	// whatever happened, the first stream is consumed now so that its producer gives the connection back
	window := stallWindow()
	if _, _, closed := drain(first); !closed {
		r.stalled = true
		if len(r.res.Violations) == 0 {
			r.fail("stream-not-closed:"+q.First, "the %s stream that was consumed late was not closed within %v", q.First, window)
		}
	}
}

func (r *c15run) search(ctx context.Context, q Query, rulePrefix string) {
	f := r.filtersOf(q)
	descr := fmt.Sprintf("Search(ids=%v groups=%v statuses=%v)", q.IDs, q.Groups, f.ByStatus)
	// reference filter — clause: "exactly the plans matching all given filters (one of the ids, one of the group ids, any
	// of the listed statuses)"
	want := map[uuid.UUID]bool{}
	for _, p := range r.plans {
		if !p.present {
			continue
		}
		ok := true
		if len(f.ByIDs) > 0 {
			ok = ok && containsID(f.ByIDs, p.id)
		}
		if len(f.ByGroupIDs) > 0 {
			ok = ok && containsID(f.ByGroupIDs, p.group)
		}
		if len(f.ByStatus) > 0 {
			m := false
			for _, s := range f.ByStatus {
				m = m || s == p.status
			}
			ok = ok && m
		}
		if ok {
			want[p.id] = true
		}
	}
	var ch chan storage.Stream[storage.ListResult]
	var err error
	if guard(r.res, "C15", r.arm, descr, func() { ch, err = r.h.Vault.Search(ctx, f) }) {
		return
	}
	if err != nil {
		r.fail(rulePrefix+"-error", "%s failed: %v", descr, err)
		return
	}
	if ch == nil {
		r.fail("stream-not-closed:"+rulePrefix, "%s returned a nil channel and a nil error", descr)
		return
	}
	window := stallWindow()
	items, errs, closed := drain(ch)
	if !closed {
		r.stalled = true
		r.fail("stream-not-closed:"+rulePrefix, "%s: the result stream was not closed within %v", descr, window)
		return
	}
	if len(errs) > 0 {
		r.fail(rulePrefix+"-error", "%s: the stream carried an error: %v", descr, errs[0])
		return
	}
	if !r.checkCommon(rulePrefix, descr, items, want) {
		return
	}
	if !r.checkEntries(rulePrefix, descr, items, f.ByStatus) {
		return
	}
	if len(items) != len(want) {
		got := map[uuid.UUID]bool{}
		for _, it := range items {
			got[it.ID] = true
		}
		var missing []string
		for id := range want {
			if !got[id] {
				missing = append(missing, id.String())
			}
		}
		sort.Strings(missing)
		more := ""
		if len(missing) > 10 {
			more = fmt.Sprintf(" and %d more", len(missing)-10)
			missing = missing[:10]
		}
		r.fail(rulePrefix+":missing", "%s: %d matching plans, %d returned; missing %v%s", descr, len(want), len(items), missing, more)
	}
}

func containsID(ids []uuid.UUID, id uuid.UUID) bool {
	for _, x := range ids {
		if x == id {
			return true
		}
	}
	return false
}

func (r *c15run) list(ctx context.Context, limit int) {
	descr := fmt.Sprintf("List(%d)", limit)
	all := map[uuid.UUID]bool{}
	for _, p := range r.plans {
		if p.present {
			all[p.id] = true
		}
	}
	var ch chan storage.Stream[storage.ListResult]
	var err error
	if guard(r.res, "C15", r.arm, descr, func() { ch, err = r.h.Vault.List(ctx, limit) }) {
		return
	}
	if err != nil {
		r.fail("list-error", "%s failed: %v", descr, err)
		return
	}
	if ch == nil {
		r.fail("stream-not-closed:list", "%s returned a nil channel and a nil error", descr)
		return
	}
	window := stallWindow()
	items, errs, closed := drain(ch)
	if !closed {
		r.stalled = true
		r.fail("stream-not-closed:list", "%s: the result stream was not closed within %v", descr, window)
		return
	}
	if len(errs) > 0 {
		r.fail("list-error", "%s: the stream carried an error: %v", descr, errs[0])
		return
	}
	if !r.checkCommon("list", descr, items, all) {
		return
	}
	if !r.checkEntries("list", descr, items, nil) {
		return
	}
	if limit <= 0 {
		r.res.Label("list_limit0_count_unjudged")
		return
	}
	// Clause: "List returns all plans up to the limit"
	wantN := min(limit, len(all))
	if len(items) != wantN {
		r.fail("list:count", "%s over %d stored plans returned %d results, want %d", descr, len(all), len(items), wantN)
		return
	}
	// ... "newest submission first": no omitted plan may be newer than a returned one
	if len(items) > 0 {
		oldest := r.byID(items[len(items)-1].ID).submit
		got := map[uuid.UUID]bool{}
		for _, it := range items {
			got[it.ID] = true
		}
		for _, p := range r.plans {
			if p.present && !got[p.id] && p.submit > oldest {
				r.fail("list:not-newest", "%s omitted plan %s (submitted %s) although it is newer than a returned plan (%s)", descr, p.id,
					store.TimeOf(p.submit).Format(time.RFC3339Nano), store.TimeOf(oldest).Format(time.RFC3339Nano))
				return
			}
		}
	}
}

// c15HugeSpec is plan i of the huge class: the smallest plan Submit accepts (1 block, 1 sequence, 1 action, no check groups),
// pristine. Everything is a pure function of (caseSeed, i, n): the id seed, the group (all four group values occur), the
// name and a submit time that is distinct for every i and NOT monotone in the creation order (i*7919 mod n is a
// permutation for every size in use, 7919 being prime and larger than none of their factors).
func c15HugeSpec(caseSeed uint64, i, n int) store.PlanSpec {
	return store.PlanSpec{
		Seed:    store.Mix64(caseSeed^store.Mix64(0x4855474500000000+uint64(i)))&^0xFF | uint64(0x80|i&0x7F),
		Name:    fmt.Sprintf("h%d", i),
		Descr:   "huge",
		Group:   i % 4,
		MetaNil: true,
		Submit:  1_650_000_000_000_000_001 + int64((i*7919)%n)*1_000,
		Blocks: []store.BlockSpec{{Name: "b", Descr: "b", Concurrency: 1, Seqs: []store.SeqSpec{{Name: "s", Descr: "s",
			Actions: []store.ActionSpec{{Name: "a", Descr: "a", Plugin: store.PlugNilAction, Timeout: int64(30 * time.Second)}}}}}},
	}
}

// buildHuge adds the plans of the huge class to the store: pristine Create, then Read + UpdatePlan to the status at rest
// (and a Start instant of its own), exactly as the small plans are written. false: the case is over (skip or verdict).
func (r *c15run) buildHuge(ctx context.Context, c StoreCase) bool {
	res, h := r.res, r.h
	n := min(c.Huge, c15HugeMax)
	others := min(max(c.HugeOthers, 0), n)
	other := store.StatusOf(c.HugeOther)
	res.Label("huge_store")
	began := time.Now()
	taken := map[uuid.UUID]bool{}
	for _, p := range r.plans {
		taken[p.id] = true
	}
	running := 0
	for i := 0; i < n; i++ {
		spec := c15HugeSpec(c.Seed, i, n)
		for taken[store.PlanID(spec)] { // 2^-60 per pair; the ids of a case must be distinct by construction
			spec.Seed += 0x100
		}
		taken[store.PlanID(spec)] = true
		plan := store.Build(spec)
		id := plan.ID
		var cerr error
		if guard(res, "C15", r.arm, fmt.Sprintf("Create of huge-class plan %d", i), func() { cerr = h.Vault.Create(ctx, plan) }) {
			return false
		}
		if cerr != nil {
			res.Skip = true
			res.Label("setup_create_failed")
			return false
		}
		status := workflow.Running
		if i < others {
			status = other
		} else {
			running++
		}
		start := spec.Submit + 1
		var live *workflow.Plan
		var rerr, uerr error
		if guard(res, "C15", r.arm, "Read during setup", func() { live, rerr = h.Vault.Read(ctx, id) }) {
			return false
		}
		if rerr != nil || live == nil || live.State == nil {
			res.Skip = true
			res.Label("setup_read_failed")
			return false
		}
		live.State.Status, live.State.Start = status, store.TimeOf(start)
		if guard(res, "C15", r.arm, "UpdatePlan during setup", func() { uerr = h.Vault.UpdatePlan(ctx, live) }) {
			return false
		}
		if uerr != nil {
			res.Skip = true
			res.Label("setup_update_failed")
			return false
		}
		r.plans = append(r.plans, c15plan{id: id, group: store.GroupID(spec.Group), status: status, submit: spec.Submit, present: true,
			name: spec.Name, descr: spec.Descr, start: start})
	}
	if running > 1000 {
		res.Label("huge_store_over_1000_matching")
	}
	vprop.Count("huge_build_ms", time.Since(began).Milliseconds())
	return true
}

func checkStoreCase(c StoreCase) (res vprop.Result) {
	if c.Lost != nil {
		return checkLostSearchC15(c.Lost)
	}
	arm := c.Arm
	defer func() { res.Labels = dedupe(res.Labels) }() // labels are counted once per case
	res.Label("arm:" + arm)
	res.Label("plans:" + sizeClass(len(c.Plans), 0, 2, 5, 8))
	vprop.Count("cases:"+arm, 1)

	reg := store.NewRegistry()
	h, err := store.Open(arm, reg)
	if err != nil {
		res.Skip = true
		res.Label("vault_open_failed")
		return res
	}
	r := &c15run{res: &res, arm: arm, h: h, seed: c.Seed}
	defer func() {
		if r.stalled || r.closed {
			h.Abandon() // never close a pool twice or one whose connection may still be in use
		} else {
			h.Close()
		}
	}()
	ctx := context.Background()

	// 1. build the store through the public API
	for i, sp := range c.Plans {
		spec := sp.Spec
		want := store.StateSpec{Status: sp.Status, Start: sp.Start, End: sp.End}
		pristine := want == store.StateSpec{}
		viaUpdate := sp.ViaUpdate || pristine
		spec.State = store.StateSpec{}
		if !viaUpdate {
			spec.State = want
			res.Label("create_with_status_direct")
		}
		plan := store.Build(spec)
		id := plan.ID
		var cerr error
		if guard(&res, "C15", arm, fmt.Sprintf("Create of plan %d", i), func() { cerr = h.Vault.Create(ctx, plan) }) {
			return res
		}
		if cerr != nil && !viaUpdate {
			// a vault may refuse a plan that already carries a status (the statements give Create the definition only):
			// build the same store the engine's way instead
			res.Label("create_nonpristine_refused")
			spec.State = store.StateSpec{}
			viaUpdate = true
			plan = store.Build(spec)
			if guard(&res, "C15", arm, fmt.Sprintf("Create of plan %d (pristine)", i), func() { cerr = h.Vault.Create(ctx, plan) }) {
				return res
			}
		}
		if cerr != nil {
			res.Skip = true // Create is C13/C14's business; without the store there is nothing to query
			res.Label("setup_create_failed")
			return res
		}
		if viaUpdate && !pristine {
			var live *workflow.Plan
			var rerr, uerr error
			if guard(&res, "C15", arm, "Read during setup", func() { live, rerr = h.Vault.Read(ctx, id) }) {
				return res
			}
			if rerr != nil || live == nil || live.State == nil {
				res.Skip = true
				res.Label("setup_read_failed")
				return res
			}
			live.State.Status = store.StatusOf(sp.Status)
			live.State.Start, live.State.End = store.TimeOf(sp.Start), store.TimeOf(sp.End)
			if guard(&res, "C15", arm, "UpdatePlan during setup", func() { uerr = h.Vault.UpdatePlan(ctx, live) }) {
				return res
			}
			if uerr != nil {
				res.Skip = true
				res.Label("setup_update_failed")
				return res
			}
		}
		r.plans = append(r.plans, c15plan{id: id, group: store.GroupID(spec.Group), status: store.StatusOf(sp.Status), submit: spec.Submit, present: true,
			name: spec.Name, descr: spec.Descr, start: sp.Start, end: sp.End})
	}
	r.nspec = len(r.plans)
	for i, sp := range c.Plans {
		if !sp.Deleted {
			continue
		}
		var derr error
		if guard(&res, "C15", arm, "Delete during setup", func() { derr = h.Vault.Delete(ctx, r.plans[i].id) }) {
			return res
		}
		if derr != nil {
			res.Skip = true
			res.Label("setup_delete_failed")
			return res
		}
		r.plans[i].present = false
		res.Label("has_deleted")
	}
	if c.Huge > 0 {
		if !r.buildHuge(ctx, c) {
			return res
		}
	}
	if c.Reopen && arm == store.ArmSqliteFile {
		if err := h.Reopen(); err != nil {
			res.Skip = true
			res.Label("vault_reopen_failed")
			return res
		}
		res.Label("reopened")
	}
	running := 0
	for _, p := range r.plans {
		if p.present && p.status == workflow.Running {
			running++
		}
	}
	if running > 0 {
		res.Label("has_running")
	}

	// 2. queries
	multi := false
	queries := append(append([]Query(nil), c.Queries...), Query{Kind: "search-running"})
	for _, q := range queries {
		switch q.Kind {
		case "exists":
			// Clause: "Exists is true exactly for plans that were created and not deleted."
			id := r.idOf(q.Exists)
			p := r.byID(id)
			want := p != nil && p.present
			var got bool
			var eerr error
			if guard(&res, "C15", arm, "Exists", func() { got, eerr = h.Vault.Exists(ctx, id) }) {
				return res
			}
			switch {
			case eerr != nil:
				r.fail("exists-error", "Exists(%s) failed: %v", id, eerr)
			case want && !got:
				r.fail("exists:false-for-stored", "Exists(%s) is false for a plan that was created and not deleted", id)
			case !want && got && p == nil:
				r.fail("exists:true-for-unknown", "Exists(%s) is true for an id that was never created", id)
			case !want && got:
				r.fail("exists:true-for-deleted", "Exists(%s) is true for a deleted plan", id)
			}
			vprop.Count("exists_queries:"+arm, 1)
		case "search", "search-running":
			if arm == store.ArmCosmosFake {
				res.Label("cosmos_fake_search_unjudged")
				continue
			}
			prefix := "search"
			if q.Kind == "search-running" {
				// Clause: "every plan durably Running is returned by a status search"
				q = Query{Kind: "search", Statuses: []int{1}}
				prefix = "search-running"
			}
			if len(q.IDs)+len(q.Groups)+len(q.Statuses) >= 2 {
				multi = true
			}
			if len(q.Statuses) >= 2 {
				res.Label("search_multi_status")
			}
			for _, g := range q.Groups {
				if g == 0 {
					res.Label("search_group_nil")
					for _, p := range r.plans {
						if p.present && p.group == uuid.Nil {
							res.Label("search_group_nil_with_ungrouped_plans")
						}
					}
				}
			}
			known, unknown := false, false
			for _, i := range q.IDs {
				if i >= 0 && i < r.nspec {
					known = true
				} else {
					unknown = true
				}
			}
			if known && unknown {
				res.Label("search_ids_known_and_unknown")
			}
			if len(q.IDs) > 0 && len(q.Statuses) > 0 || len(q.Groups) > 0 && len(q.Statuses) > 0 || len(q.IDs) > 0 && len(q.Groups) > 0 {
				res.Label("search_combined_filters")
			}
			r.search(ctx, q, prefix)
			vprop.Count("search_queries:"+arm, 1)
		case "list":
			if arm == store.ArmCosmosFake {
				res.Label("cosmos_fake_list_unjudged")
				continue
			}
			r.list(ctx, q.Limit)
			vprop.Count("list_queries:"+arm, 1)
		case "cancelled":
			if arm == store.ArmCosmosFake {
				continue
			}
			res.Label("cancelled_ctx")
			cctx, cancel := context.WithCancel(ctx)
			cancel()
			var ch chan storage.Stream[storage.ListResult]
			var err error
			what := q.Second + " with an already cancelled context"
			if !guard(&res, "C15", arm, what, func() {
				if q.Second == "list" {
					ch, err = h.Vault.List(cctx, q.Limit)
				} else {
					ch, err = h.Vault.Search(cctx, storage.Filters{ByStatus: []workflow.Status{workflow.Running}})
				}
			}) {
				r.closureOnly(what, q.Second+"-cancelled-ctx", ch, err)
			}
		case "busy":
			if arm == store.ArmCosmosFake {
				res.Label("cosmos_fake_search_unjudged")
				continue
			}
			res.Label("busy_writer")
			r.busy(ctx, q)
			if r.stalled {
				return res // the vault is abandoned
			}
		case "contended":
			if arm == store.ArmCosmosFake {
				res.Label("cosmos_fake_search_unjudged")
				continue
			}
			res.Label("contended")
			r.contended(ctx, q)
			vprop.Count("contended_queries:"+arm, 1)
		}
		if len(res.Violations) > 0 || res.Skip {
			return res
		}
	}
	if c.SearchAfterClose && arm != store.ArmCosmosFake {
		_ = h.Vault.Close(ctx)
		r.closed = true
		var ch chan storage.Stream[storage.ListResult]
		var err error
		what := "Search(ByStatus=[Running]) on a closed vault"
		if !guard(&res, "C15", arm, what, func() {
			ch, err = h.Vault.Search(ctx, storage.Filters{ByStatus: []workflow.Status{workflow.Running}})
		}) {
			res.Label("search_after_close")
			r.closureOnly(what, "search-after-close", ch, err)
		}
		if len(res.Violations) > 0 || res.Skip {
			return res
		}
	}
	present := 0
	for _, p := range r.plans {
		if p.present {
			present++
		}
	}
	// NT (DESIGN §5 C15): store of >= 3 plans and a query with >= 2 filter values
	res.NonTrivial = present >= 3 && multi
	return res
}

func c15Spec() vprop.Spec[StoreCase] {
	return vprop.Spec[StoreCase]{
		ID:    "C15",
		Gen:   genStoreCase,
		Check: checkStoreCase,
	}
}

func TestC15(t *testing.T) { vprop.Run(t, c15Spec()) }

// FuzzC15 is the byte-driven arm (thorough tier), see vprop.Fuzz.
func FuzzC15(f *testing.F) { vprop.Fuzz(f, c15Spec()) }
