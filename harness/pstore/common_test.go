package pstore

import (
	"fmt"
	"runtime/debug"
	"strings"

	"verifharness/store"
	"verifharness/vprop"
)

// killChildEnv marks the re-executed child process of the C14 kill experiment.
const killChildEnv = "VERIF_C14_CHILD"

// armRule builds the stable rule signature "<ID>/<arm>/<rule>".
func armRule(id, arm, rule string) string { return id + "/" + arm + "/" + rule }

// guard runs fn and converts a panic of the code under test into a verdict. A panic that originates inside the cosmos
// package's fake client (fake_storage.go panics on everything it does not emulate) is a limitation of the fake, not of the
// vault: the case is skipped under a counted label. Any other panic means the call did not do what the statement
// promises for a valid input, reported under rule "<id>/<arm>/panic".
func guard(res *vprop.Result, id, arm, what string, fn func()) (panicked bool) {
	defer func() {
		if r := recover(); r != nil {
			panicked = true
			stack := string(debug.Stack())
			if arm == store.ArmCosmosFake && panicInFake(stack) {
				res.Label("cosmos_fake_panic_skipped")
				res.Skip = true
				return
			}
			res.Fail(armRule(id, arm, "panic"), "%s panicked: %v\n%s", what, r, firstFrames(stack, 14))
		}
	}()
	fn()
	return false
}

// panicInFake reports whether the innermost non-runtime frame of the panic is in fake_storage.go.
func panicInFake(stack string) bool {
	lines := strings.Split(stack, "\n")
	seenPanic := false
	for _, l := range lines {
		l = strings.TrimSpace(l)
		if strings.HasPrefix(l, "panic(") {
			seenPanic = true
			continue
		}
		if !seenPanic || !strings.HasPrefix(l, "/") {
			continue
		}
		if strings.Contains(l, "/runtime/") {
			continue
		}
		return strings.Contains(l, "cosmosdb/fake_storage.go")
	}
	return false
}

func firstFrames(stack string, n int) string {
	lines := strings.Split(stack, "\n")
	if len(lines) > n {
		lines = lines[:n]
	}
	return strings.Join(lines, "\n")
}

func sizeClass(n int, bounds ...int) string {
	lo := 0
	for _, b := range bounds {
		if n <= b {
			return fmt.Sprintf("%d-%d", lo, b)
		}
		lo = b + 1
	}
	return fmt.Sprintf("%d+", lo)
}

// dedupe keeps the first occurrence of every label.
func dedupe(labels []string) []string {
	seen := map[string]bool{}
	out := labels[:0]
	for _, l := range labels {
		if !seen[l] {
			seen[l] = true
			out = append(out, l)
		}
	}
	return out
}
