package pstore

import (
	"os"
	"testing"

	"verifharness/vprop"
)

func TestMain(m *testing.M) {
	// The C14 kill child re-executes this binary; it must not write stats or replay files of its own.
	if os.Getenv(killChildEnv) != "" {
		os.Exit(m.Run())
	}
	vprop.Main(m)
}
