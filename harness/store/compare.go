package store

import (
	"bytes"
	"fmt"
	"reflect"
	"sort"
	"strings"
	"time"
	"unicode/utf8"

	"github.com/go-json-experiment/json"
	"github.com/google/uuid"

	"github.com/element-of-surprise/coercion/plugins"
	"github.com/element-of-surprise/coercion/workflow"
)

// Diff is one difference between the expected and the stored plan.
type Diff struct {
	// Field is a stable class name such as "plan.reason" or "action.attempts" (used in rule signatures).
	Field string
	// Path locates the object, e.g. "blocks[1].sequences[0].actions[2]".
	Path string
	Want string
	Got  string
}

func (d Diff) String() string {
	return fmt.Sprintf("%s at %s: want %s, got %s", d.Field, d.Path, d.Want, d.Got)
}

// CmpOpt selects the documented relaxations of the comparison. The equivalences that always hold (DESIGN §4.4): times
// are compared by instant (time.Equal); nil ≡ empty for Meta, Attempts and for slices and maps inside requests and
// responses; State.ETag and unexported fields are ignored.
type CmpOpt struct {
	// ActionsAnyOrder matches the actions of a group or sequence by id instead of by position (used for the cosmos
	// fake after an update, because the fake ignores ORDER BY c.pos).
	ActionsAnyOrder bool
	// IgnoreIDs skips the comparison of object ids (kill child: ids were assigned in another process).
	IgnoreIDs bool
	// ReqByJSON compares requests by the equality of their JSON encodings instead of structurally (C14: requests with
	// an interface-typed field).
	ReqByJSON bool
}

const maxDiffs = 6

type differ struct {
	opt   CmpOpt
	diffs []Diff
}

func (d *differ) full() bool { return len(d.diffs) >= maxDiffs }

func (d *differ) add(field, path string, want, got any) {
	if d.full() {
		return
	}
	d.diffs = append(d.diffs, Diff{Field: field, Path: path, Want: trunc(fmt.Sprintf("%+v", want)), Got: trunc(fmt.Sprintf("%+v", got))})
}

func trunc(s string) string {
	if len(s) > 240 {
		s = s[:240] + "…"
	}
	return escapeInvalid(s)
}

// escapeInvalid renders every byte that is not part of a valid UTF-8 sequence as \xNN, so that a message shows which bytes
// differ (a replacement character U+FFFD that really is in the string stays what it is) and log files stay valid UTF-8.
func escapeInvalid(s string) string {
	if utf8.ValidString(s) {
		return s
	}
	var sb strings.Builder
	for i := 0; i < len(s); {
		r, n := utf8.DecodeRuneInString(s[i:])
		if r == utf8.RuneError && n == 1 {
			fmt.Fprintf(&sb, "\\x%02x", s[i])
		} else {
			sb.WriteString(s[i : i+n])
		}
		i += n
	}
	return sb.String()
}

func (d *differ) str(field, path, want, got string) {
	if want != got {
		d.add(field, path, fmt.Sprintf("%q", want), fmt.Sprintf("%q", got))
	}
}

func (d *differ) id(field, path string, want, got uuid.UUID) {
	if d.opt.IgnoreIDs {
		return
	}
	if want != got {
		d.add(field, path, want, got)
	}
}

func (d *differ) val(field, path string, want, got any) {
	if want != got {
		d.add(field, path, want, got)
	}
}

func (d *differ) time(field, path string, want, got time.Time) {
	if !want.Equal(got) {
		d.add(field, path, want.Format(time.RFC3339Nano), got.Format(time.RFC3339Nano))
	}
}

func (d *differ) state(prefix, path string, want, got *workflow.State) {
	if want == nil {
		return // the model always carries a state; nothing to demand otherwise
	}
	if got == nil {
		d.add(prefix+".state", path, "state", "nil")
		return
	}
	d.val(prefix+".status", path, want.Status, got.Status)
	d.time(prefix+".start", path, want.Start, got.Start)
	d.time(prefix+".end", path, want.End, got.End)
}

// errEqual compares two plugins.Error chains link by link; messages are compared byte for byte (Go string equality, no
// UTF-8 normalisation: "\xff" and U+FFFD are different).
func errEqual(a, b *plugins.Error) bool {
	for depth := 0; depth < 64; depth++ {
		if a == nil || b == nil {
			return a == nil && b == nil
		}
		if a.Code != b.Code || a.Message != b.Message || a.Permanent != b.Permanent {
			return false
		}
		a, b = a.Wrapped, b.Wrapped
	}
	return false
}

func errChain(e *plugins.Error) string {
	s := ""
	for depth := 0; e != nil && depth < 16; depth++ {
		s += fmt.Sprintf("{%d %q %v}", e.Code, e.Message, e.Permanent)
		e = e.Wrapped
	}
	if s == "" {
		return "nil"
	}
	return s
}

func (d *differ) attempts(path string, want, got []*workflow.Attempt) {
	if len(want) != len(got) { // nil ≡ empty
		d.add("action.attempts", path, fmt.Sprintf("%d attempts", len(want)), fmt.Sprintf("%d attempts", len(got)))
		return
	}
	for i := range want {
		p := fmt.Sprintf("%s.attempts[%d]", path, i)
		w, g := want[i], got[i]
		if g == nil {
			d.add("action.attempts", p, "attempt", "nil")
			continue
		}
		if !EquivValues(w.Resp, g.Resp) {
			d.add("attempt.resp", p, describe(w.Resp), describe(g.Resp))
		}
		if !errEqual(w.Err, g.Err) {
			d.add("attempt.err", p, errChain(w.Err), errChain(g.Err))
		}
		d.time("attempt.start", p, w.Start, g.Start)
		d.time("attempt.end", p, w.End, g.End)
	}
}

func describe(v any) string {
	if v == nil {
		return "nil"
	}
	return fmt.Sprintf("(%T) %+v", v, derefForPrint(v))
}

func derefForPrint(v any) any {
	rv := reflect.ValueOf(v)
	if rv.Kind() == reflect.Pointer && !rv.IsNil() {
		return rv.Elem().Interface()
	}
	return v
}

func (d *differ) action(path string, want, got *workflow.Action) {
	if got == nil {
		d.add("action.missing", path, "action", "nil")
		return
	}
	d.id("action.id", path, want.ID, got.ID)
	d.val("action.key", path, want.Key, got.Key)
	d.str("action.name", path, want.Name, got.Name)
	d.str("action.descr", path, want.Descr, got.Descr)
	d.str("action.plugin", path, want.Plugin, got.Plugin)
	d.val("action.timeout", path, want.Timeout, got.Timeout)
	d.val("action.retries", path, want.Retries, got.Retries)
	if d.opt.ReqByJSON {
		// equal when structurally identical (byte for byte in every string) or, for values behind interface-typed
		// fields, when both encode to the same JSON
		if !EquivValues(want.Req, got.Req) && !JSONEquiv(want.Req, got.Req) {
			d.add("action.req", path, describe(want.Req), describe(got.Req))
		}
	} else if !EquivValues(want.Req, got.Req) {
		d.add("action.req", path, describe(want.Req), describe(got.Req))
	}
	d.state("action", path, want.State, got.State)
	d.attempts(path, want.Attempts, got.Attempts)
}

func ids[T interface{ GetID() uuid.UUID }](objs []T) []string {
	out := make([]string, 0, len(objs))
	for _, o := range objs {
		out = append(out, o.GetID().String())
	}
	return out
}

func sameIDSet(a, b []string) bool {
	if len(a) != len(b) {
		return false
	}
	x := append([]string(nil), a...)
	y := append([]string(nil), b...)
	sort.Strings(x)
	sort.Strings(y)
	for i := range x {
		if x[i] != y[i] {
			return false
		}
	}
	return true
}

// order reports a length or order/identity difference of a child list; it returns true when the lists can be compared
// element by element.
func (d *differ) order(field, path string, want, got []string) bool {
	if len(want) != len(got) {
		d.add(field+".len", path, fmt.Sprintf("%d %v", len(want), want), fmt.Sprintf("%d %v", len(got), got))
		return false
	}
	if d.opt.IgnoreIDs {
		return true
	}
	for i := range want {
		if want[i] != got[i] {
			if sameIDSet(want, got) {
				d.add(field+".order", path, want, got)
			} else {
				d.add(field+".ids", path, want, got)
			}
			return false
		}
	}
	return true
}

func (d *differ) actions(path string, field string, want, got []*workflow.Action) {
	for _, g := range got {
		if g == nil {
			d.add(field+".nil", path, "actions", "nil entry")
			return
		}
	}
	if d.opt.ActionsAnyOrder && !d.opt.IgnoreIDs {
		if len(want) != len(got) || !sameIDSet(ids(want), ids(got)) {
			d.add(field+".ids", path, ids(want), ids(got))
			return
		}
		byID := map[uuid.UUID]*workflow.Action{}
		for _, g := range got {
			byID[g.ID] = g
		}
		for i, w := range want {
			d.action(fmt.Sprintf("%s.actions[%d]", path, i), w, byID[w.ID])
		}
		return
	}
	if !d.order(field, path, ids(want), ids(got)) {
		return
	}
	for i := range want {
		d.action(fmt.Sprintf("%s.actions[%d]", path, i), want[i], got[i])
	}
}

func (d *differ) checks(owner, name, path string, want, got *workflow.Checks) {
	p := path + name
	if (want == nil) != (got == nil) {
		d.add(owner+".group-presence", p, presence(want != nil), presence(got != nil))
		return
	}
	if want == nil {
		return
	}
	d.id("checks.id", p, want.ID, got.ID)
	d.val("checks.key", p, want.Key, got.Key)
	d.val("checks.delay", p, want.Delay, got.Delay)
	d.state("checks", p, want.State, got.State)
	d.actions(p, "checks.actions", want.Actions, got.Actions)
}

func presence(b bool) string {
	if b {
		return "present"
	}
	return "nil"
}

func (d *differ) block(path string, want, got *workflow.Block) {
	if got == nil {
		d.add("block.missing", path, "block", "nil")
		return
	}
	d.id("block.id", path, want.ID, got.ID)
	d.val("block.key", path, want.Key, got.Key)
	d.str("block.name", path, want.Name, got.Name)
	d.str("block.descr", path, want.Descr, got.Descr)
	d.val("block.entrancedelay", path, want.EntranceDelay, got.EntranceDelay)
	d.val("block.exitdelay", path, want.ExitDelay, got.ExitDelay)
	d.val("block.concurrency", path, want.Concurrency, got.Concurrency)
	d.val("block.toleratedfailures", path, want.ToleratedFailures, got.ToleratedFailures)
	d.state("block", path, want.State, got.State)
	d.checks("block", "bypass", path+".", want.BypassChecks, got.BypassChecks)
	d.checks("block", "pre", path+".", want.PreChecks, got.PreChecks)
	d.checks("block", "cont", path+".", want.ContChecks, got.ContChecks)
	d.checks("block", "post", path+".", want.PostChecks, got.PostChecks)
	d.checks("block", "deferred", path+".", want.DeferredChecks, got.DeferredChecks)
	for _, g := range got.Sequences {
		if g == nil {
			d.add("block.sequences.nil", path, "sequences", "nil entry")
			return
		}
	}
	if !d.order("block.sequences", path, ids(want.Sequences), ids(got.Sequences)) {
		return
	}
	for i := range want.Sequences {
		w, g := want.Sequences[i], got.Sequences[i]
		p := fmt.Sprintf("%s.sequences[%d]", path, i)
		d.id("seq.id", p, w.ID, g.ID)
		d.val("seq.key", p, w.Key, g.Key)
		d.str("seq.name", p, w.Name, g.Name)
		d.str("seq.descr", p, w.Descr, g.Descr)
		d.state("seq", p, w.State, g.State)
		d.actions(p, "seq.actions", w.Actions, g.Actions)
		if d.full() {
			return
		}
	}
}

// DiffPlans compares the stored plan (got) with the expected one (want) and returns up to a handful of differences.
func DiffPlans(want, got *workflow.Plan, opt CmpOpt) []Diff {
	d := &differ{opt: opt}
	if got == nil {
		d.add("plan.nil", "plan", "plan", "nil")
		return d.diffs
	}
	d.id("plan.id", "plan", want.ID, got.ID)
	d.str("plan.name", "plan", want.Name, got.Name)
	d.str("plan.descr", "plan", want.Descr, got.Descr)
	d.val("plan.groupid", "plan", want.GroupID, got.GroupID)
	if !bytes.Equal(want.Meta, got.Meta) { // nil ≡ empty
		d.add("plan.meta", "plan", fmt.Sprintf("%d bytes %q", len(want.Meta), want.Meta), fmt.Sprintf("%d bytes %q", len(got.Meta), got.Meta))
	}
	d.time("plan.submittime", "plan", want.SubmitTime, got.SubmitTime)
	d.state("plan", "plan", want.State, got.State)
	d.val("plan.reason", "plan", want.Reason, got.Reason)
	d.checks("plan", "bypass", "plan.", want.BypassChecks, got.BypassChecks)
	d.checks("plan", "pre", "plan.", want.PreChecks, got.PreChecks)
	d.checks("plan", "cont", "plan.", want.ContChecks, got.ContChecks)
	d.checks("plan", "post", "plan.", want.PostChecks, got.PostChecks)
	d.checks("plan", "deferred", "plan.", want.DeferredChecks, got.DeferredChecks)
	for _, g := range got.Blocks {
		if g == nil {
			d.add("plan.blocks.nil", "plan", "blocks", "nil entry")
			return d.diffs
		}
	}
	if !d.order("plan.blocks", "plan", ids(want.Blocks), ids(got.Blocks)) {
		return d.diffs
	}
	for i := range want.Blocks {
		d.block(fmt.Sprintf("blocks[%d]", i), want.Blocks[i], got.Blocks[i])
		if d.full() {
			break
		}
	}
	return d.diffs
}

// ---------------------------------------------------------------------------------------------------------------------
// value equivalence

var timeType = reflect.TypeOf(time.Time{})

// EquivValues reports whether two request/response values are the same typed value: identical dynamic types (a value
// and a pointer to it are different: "typed requests"), equal exported content, with nil ≡ empty for slices and maps and
// times compared by instant.
func EquivValues(a, b any) bool {
	if a == nil || b == nil {
		return a == nil && b == nil
	}
	va, vb := reflect.ValueOf(a), reflect.ValueOf(b)
	if va.Type() != vb.Type() {
		return false
	}
	return equivRV(va, vb, 0)
}

func equivRV(a, b reflect.Value, depth int) bool {
	if depth > 32 {
		return false
	}
	if a.Type() != b.Type() {
		return false
	}
	switch a.Kind() {
	case reflect.Pointer:
		if a.IsNil() || b.IsNil() {
			return a.IsNil() && b.IsNil()
		}
		return equivRV(a.Elem(), b.Elem(), depth+1)
	case reflect.Interface:
		if a.IsNil() || b.IsNil() {
			return a.IsNil() && b.IsNil()
		}
		return equivRV(a.Elem(), b.Elem(), depth+1)
	case reflect.Struct:
		if a.Type() == timeType {
			return a.Interface().(time.Time).Equal(b.Interface().(time.Time))
		}
		for i := 0; i < a.NumField(); i++ {
			if !a.Type().Field(i).IsExported() {
				continue
			}
			if !equivRV(a.Field(i), b.Field(i), depth+1) {
				return false
			}
		}
		return true
	case reflect.Slice, reflect.Array:
		if a.Len() != b.Len() { // nil ≡ empty
			return false
		}
		for i := 0; i < a.Len(); i++ {
			if !equivRV(a.Index(i), b.Index(i), depth+1) {
				return false
			}
		}
		return true
	case reflect.Map:
		if a.Len() != b.Len() { // nil ≡ empty
			return false
		}
		it := a.MapRange()
		for it.Next() {
			bv := b.MapIndex(it.Key())
			if !bv.IsValid() || !equivRV(it.Value(), bv, depth+1) {
				return false
			}
		}
		return true
	case reflect.Float32, reflect.Float64:
		x, y := a.Float(), b.Float()
		return x == y || (x != x && y != y)
	case reflect.Chan, reflect.Func, reflect.UnsafePointer:
		return a.Pointer() == b.Pointer()
	default:
		// strings land here: Go's == on strings is byte-wise, no UTF-8 normalisation ("\xe9" != "\ufffd")
		return a.Interface() == b.Interface()
	}
}

// JSONEquiv reports whether both values have the same JSON encoding (the encoder the vaults use, deterministic map
// order) and the same dynamic type. A value that cannot be encoded is equivalent to nothing.
func JSONEquiv(a, b any) bool {
	if a == nil || b == nil {
		return a == nil && b == nil
	}
	if reflect.TypeOf(a) != reflect.TypeOf(b) {
		return false
	}
	x, err := json.Marshal(a, json.Deterministic(true))
	if err != nil {
		return false
	}
	y, err := json.Marshal(b, json.Deterministic(true))
	if err != nil {
		return false
	}
	return bytes.Equal(x, y)
}
