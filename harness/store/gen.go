package store

import (
	"fmt"
	"time"

	"pgregory.net/rapid"
)

// Every function in this file draws from *rapid.T only: a generated value is a pure function of the draws.
// Generated values stay inside what Submit / the Vault API accept (DESIGN §2.2): valid UTF-8 strings (including quotes,
// '%', newlines, NUL and non-BMP runes), names and descriptions that are not blank, times that are zero or inside
// (1970, 2200) with nanosecond precision in UTC, statuses and failure reasons from the workflow constants, timeouts of
// at least 5 s, retries >= 0, concurrency >= 1, tolerated failures >= -1, v7 keys that are unique inside the plan, at
// least one block / sequence / action wherever Submit demands one.

// Uniform returns an (almost) uniformly distributed number in [0, n) built from fair coin draws. rapid's integer
// generators are deliberately biased towards small and extreme values, which is what one wants for sizes but not for
// rare-mode selection with a known probability.
func Uniform(t *rapid.T, n int, label string) int {
	v := 0
	for i := 0; i < 24; i++ {
		v <<= 1
		if rapid.Bool().Draw(t, label) {
			v |= 1
		}
	}
	return v % n
}

var firstRunes = []rune{'a', 'b', 'Z', '7', '\u00e9', '\u4e16', '\U0001F600', '_', '"', '\'', '%'}

var poolRunes = []rune{'a', 'b', 'c', 'Z', '0', '9', ' ', ' ', '\'', '"', '%', '\n', '\t', '\r', '\\', '_', '-', '$', '?', ';', ')', '(',
	',', '\u00e9', '\u00df', '\u4e16', '\u754c', '\U0001F600', '\u00a0', '\u2028', '\x00', '\u0301', '|', '{', '}', '[', ']', ':', '/', '<', '>', '&', '*', '=', '@', '#', '\u202e', '\ufeff'}

// GenName draws a non-blank name or description.
func GenName(t *rapid.T, label string) string {
	first := rapid.SampledFrom(firstRunes).Draw(t, label+".first")
	maxTail := rapid.SampledFrom([]int{3, 3, 8, 8, 24, 300}).Draw(t, label+".max")
	tail := rapid.StringOfN(rapid.RuneFrom(poolRunes), 0, maxTail, -1).Draw(t, label+".tail")
	return string(first) + tail
}

// GenText draws any valid UTF-8 string, possibly empty.
func GenText(t *rapid.T, label string) string {
	return rapid.StringOfN(rapid.RuneFrom(poolRunes), 0, 10, -1).Draw(t, label)
}

var edgeTimes = []int64{1, 999, 999_999_999, 1_000_000_000, 1_000_000_001, 1_700_000_000_123_456_789, MaxTimeNS - 1}

// GenTime draws a time in the TimeOf encoding: zero (about one in four), an edge value, or any instant in (1970, 2200).
func GenTime(t *rapid.T, label string) int64 {
	switch rapid.IntRange(0, 5).Draw(t, label+".kind") {
	case 0, 1:
		return 0
	case 2:
		return rapid.SampledFrom(edgeTimes).Draw(t, label+".edge")
	}
	return GenNonZeroTime(t, label)
}

// GenNonZeroTime draws any instant in (1970, 2200) with nanosecond precision.
func GenNonZeroTime(t *rapid.T, label string) int64 {
	sec := rapid.Int64Range(0, MaxTimeNS/1_000_000_000-1).Draw(t, label+".sec")
	ns := rapid.Int64Range(0, 999_999_999).Draw(t, label+".ns")
	v := sec*1_000_000_000 + ns
	if v == 0 {
		v = 1
	}
	return v
}

// GenState draws an object state.
func GenState(t *rapid.T, label string) StateSpec {
	return StateSpec{
		Status: rapid.IntRange(0, len(Statuses)-1).Draw(t, label+".status"),
		Start:  GenTime(t, label+".start"),
		End:    GenTime(t, label+".end"),
	}
}

// GenVal draws the content of a typed request or response.
func GenVal(t *rapid.T, label string) ValSpec {
	v := ValSpec{
		Text:  GenText(t, label+".text"),
		Num:   rapid.Int64().Draw(t, label+".num"),
		Ratio: rapid.Float64().Draw(t, label+".ratio"),
		Flag:  rapid.Bool().Draw(t, label+".flag"),
		When:  GenTime(t, label+".when"),
	}
	n := rapid.IntRange(0, 3).Draw(t, label+".nlist")
	for i := 0; i < n; i++ {
		v.List = append(v.List, GenText(t, label+".list"))
	}
	if n == 0 {
		v.ListNil = rapid.Bool().Draw(t, label+".listnil")
	}
	n = rapid.IntRange(0, 3).Draw(t, label+".ndict")
	for i := 0; i < n; i++ {
		if v.Dict == nil {
			v.Dict = map[string]int64{}
		}
		v.Dict[GenText(t, label+".dictk")] = rapid.Int64().Draw(t, label+".dictv")
	}
	if n == 0 {
		v.DictNil = rapid.Bool().Draw(t, label+".dictnil")
	}
	if rapid.Bool().Draw(t, label+".hasinner") {
		in := &InnerSpec{Label: GenText(t, label+".inner.label")}
		k := rapid.IntRange(0, 3).Draw(t, label+".inner.n")
		for i := 0; i < k; i++ {
			in.Vals = append(in.Vals, rapid.Int64().Draw(t, label+".inner.v"))
		}
		v.Inner = in
	}
	if rapid.Bool().Draw(t, label+".hasraw") {
		v.Raw = rapid.SliceOfN(rapid.Byte(), 0, 8).Draw(t, label+".raw")
		if v.Raw == nil {
			v.Raw = []byte{}
		}
	}
	return v
}

// GenErrChain draws a plugins.Error chain of depth 0..3 (0 = no error).
func GenErrChain(t *rapid.T, label string) []ErrLink {
	n := rapid.IntRange(0, 3).Draw(t, label+".depth")
	var out []ErrLink
	for i := 0; i < n; i++ {
		out = append(out, genErrLink(t, label))
	}
	return out
}

// genErrLink draws one link of an error chain.
func genErrLink(t *rapid.T, label string) ErrLink {
	return ErrLink{
		Code:      uint(rapid.Uint32().Draw(t, label+".code")),
		Message:   GenText(t, label+".msg"),
		Permanent: rapid.Bool().Draw(t, label+".perm"),
	}
}

// GenAttempts draws 0..3 attempts for an action of the plugin kind: typed responses, nil responses, error chains.
func GenAttempts(t *rapid.T, label string, plugin int) []AttemptSpec {
	n := rapid.IntRange(0, 3).Draw(t, label+".n")
	var out []AttemptSpec
	for i := 0; i < n; i++ {
		out = append(out, genAttempt(t, label, plugin))
	}
	return out
}

// genAttempt draws one attempt.
func genAttempt(t *rapid.T, label string, plugin int) AttemptSpec {
	at := AttemptSpec{Start: GenTime(t, label+".start"), End: GenTime(t, label+".end"), Err: GenErrChain(t, label+".err")}
	if !IsNilKind(plugin) && rapid.IntRange(0, 2).Draw(t, label+".hasresp") > 0 {
		at.HasResp = true
		at.Resp = GenVal(t, label+".resp")
	}
	return at
}

// GenCfg bounds the generated plans.
type GenCfg struct {
	MaxBlocks       int
	MaxSeqs         int
	MaxActions      int
	MaxGroupActions int
	// GroupOneIn: a check-group slot is present when a draw from [0, GroupOneIn) hits the top value (1 = always), so
	// that shrinking removes groups.
	GroupOneIn int
	// WithState draws statuses, times, reason and attempts for every object; otherwise the plan is pristine (what
	// Submit creates: NotStarted, zero times, no attempts, no reason).
	WithState bool
	// Poison makes every action use the poison plugins with a healthy request (C14 moves the poison around).
	Poison bool
	// Plain keeps names short and requests small (for checks that are not about field fidelity).
	Plain bool
	// BadUTF8Percent > 0 makes cfg.Update turn that percentage of the updates of actions into the rare class "attempt
	// strings with invalid UTF-8" (AttemptSpec.BadUTF8). Zero everywhere but in C13: a vault may refuse such a write, so a
	// check that uses it needs an oracle for both outcomes. Plan (Create) never draws the class.
	BadUTF8Percent int
}

// DefaultCfg is the 3×3×3 bound of DESIGN §4.6.
var DefaultCfg = GenCfg{MaxBlocks: 3, MaxSeqs: 3, MaxActions: 3, MaxGroupActions: 2, GroupOneIn: 3}

var timeouts = []int64{int64(30 * time.Second), int64(5 * time.Second), int64(5*time.Second) + 1, int64(time.Hour), int64(90*time.Second) + 123}
var delays = []int64{0, int64(30 * time.Second), 1, int64(time.Hour) + 1, int64(250 * time.Millisecond)}

func (cfg GenCfg) name(t *rapid.T, label string) string {
	if cfg.Plain {
		return string(rapid.SampledFrom([]rune{'a', 'b', 'c', 'd'}).Draw(t, label))
	}
	return GenName(t, label)
}

func (cfg GenCfg) action(t *rapid.T, label string, check bool) ActionSpec {
	a := ActionSpec{
		HasKey:  rapid.IntRange(0, 3).Draw(t, label+".haskey") == 3,
		Name:    cfg.name(t, label+".name"),
		Descr:   cfg.name(t, label+".descr"),
		Timeout: rapid.SampledFrom(timeouts).Draw(t, label+".timeout"),
		Retries: rapid.IntRange(0, 5).Draw(t, label+".retries"),
	}
	switch {
	case cfg.Poison && check:
		a.Plugin = PlugPoisonCheck
	case cfg.Poison:
		a.Plugin = PlugPoisonAction
	case check:
		a.Plugin = rapid.SampledFrom([]int{PlugValCheck, PlugNilCheck}).Draw(t, label+".plugin")
	default:
		a.Plugin = rapid.SampledFrom([]int{PlugValAction, PlugPtrAction, PlugNilAction}).Draw(t, label+".plugin")
	}
	switch {
	case IsNilKind(a.Plugin):
	case cfg.Poison:
		a.Req = ValSpec{Text: GenText(t, label+".req.text"), Ratio: rapid.Float64().Draw(t, label+".req.ratio"), Flag: rapid.Bool().Draw(t, label+".req.flag")}
	case cfg.Plain:
		a.Req = ValSpec{Text: GenText(t, label+".req.text"), ListNil: true, DictNil: true}
	default:
		a.Req = GenVal(t, label+".req")
	}
	if cfg.WithState {
		a.State = GenState(t, label+".state")
		a.Attempts = GenAttempts(t, label+".attempts", a.Plugin)
	}
	return a
}

func (cfg GenCfg) checks(t *rapid.T, label string) *ChecksSpec {
	one := cfg.GroupOneIn
	if one < 1 {
		one = 3
	}
	if one > 1 && rapid.IntRange(0, one-1).Draw(t, label+".present") != one-1 {
		return nil
	}
	c := &ChecksSpec{
		HasKey: rapid.IntRange(0, 3).Draw(t, label+".haskey") == 3,
		Delay:  rapid.SampledFrom(delays).Draw(t, label+".delay"),
	}
	n := rapid.IntRange(1, max(1, cfg.MaxGroupActions)).Draw(t, label+".n")
	for i := 0; i < n; i++ {
		c.Actions = append(c.Actions, cfg.action(t, fmt.Sprintf("%s.a%d", label, i), true))
	}
	if cfg.WithState {
		c.State = GenState(t, label+".state")
	}
	return c
}

// Plan draws a plan specification. ordinal (1..254) must be unique among the plans of the case: it becomes the low byte
// of the id seed.
func (cfg GenCfg) Plan(t *rapid.T, label string, ordinal int) PlanSpec {
	ps := PlanSpec{
		Seed:   rapid.Uint64().Draw(t, label+".seed")&^0xFF | uint64(ordinal&0xFF),
		Name:   cfg.name(t, label+".name"),
		Descr:  cfg.name(t, label+".descr"),
		Group:  rapid.IntRange(0, 3).Draw(t, label+".group"),
		Submit: GenNonZeroTime(t, label+".submit"),
	}
	switch rapid.IntRange(0, 4).Draw(t, label+".metakind") {
	case 0:
		ps.MetaNil = true
	case 1: // empty, non-nil
	case 2:
		ps.Meta = []byte(GenText(t, label+".metatext"))
	case 3:
		ps.Meta = rapid.SliceOfN(rapid.Byte(), 1, 40).Draw(t, label+".metabytes")
	case 4:
		unit := rapid.SliceOfN(rapid.Byte(), 1, 16).Draw(t, label+".metaunit")
		rep := rapid.IntRange(20, 300).Draw(t, label+".metarep")
		for i := 0; i < rep; i++ {
			ps.Meta = append(ps.Meta, unit...)
		}
	}
	if len(ps.Meta) == 0 && !ps.MetaNil {
		ps.Meta = nil
	}
	for g := range ps.Checks {
		ps.Checks[g] = cfg.checks(t, fmt.Sprintf("%s.%s", label, GroupNames[g]))
	}
	nb := rapid.IntRange(1, max(1, cfg.MaxBlocks)).Draw(t, label+".blocks")
	for b := 0; b < nb; b++ {
		bl := fmt.Sprintf("%s.b%d", label, b)
		bs := BlockSpec{
			HasKey:      rapid.IntRange(0, 3).Draw(t, bl+".haskey") == 3,
			Name:        cfg.name(t, bl+".name"),
			Descr:       cfg.name(t, bl+".descr"),
			Entrance:    rapid.SampledFrom(delays).Draw(t, bl+".entrance"),
			Exit:        rapid.SampledFrom(delays).Draw(t, bl+".exit"),
			Concurrency: rapid.IntRange(1, 4).Draw(t, bl+".conc"),
			Tolerated:   rapid.IntRange(-1, 3).Draw(t, bl+".tol"),
		}
		for g := range bs.Checks {
			bs.Checks[g] = cfg.checks(t, fmt.Sprintf("%s.%s", bl, GroupNames[g]))
		}
		ns := rapid.IntRange(1, max(1, cfg.MaxSeqs)).Draw(t, bl+".seqs")
		for s := 0; s < ns; s++ {
			sl := fmt.Sprintf("%s.s%d", bl, s)
			ss := SeqSpec{
				HasKey: rapid.IntRange(0, 3).Draw(t, sl+".haskey") == 3,
				Name:   cfg.name(t, sl+".name"),
				Descr:  cfg.name(t, sl+".descr"),
			}
			na := rapid.IntRange(1, max(1, cfg.MaxActions)).Draw(t, sl+".actions")
			for a := 0; a < na; a++ {
				ss.Actions = append(ss.Actions, cfg.action(t, fmt.Sprintf("%s.a%d", sl, a), false))
			}
			if cfg.WithState {
				ss.State = GenState(t, sl+".state")
			}
			bs.Seqs = append(bs.Seqs, ss)
		}
		if cfg.WithState {
			bs.State = GenState(t, bl+".state")
		}
		ps.Blocks = append(ps.Blocks, bs)
	}
	if cfg.WithState {
		ps.State = GenState(t, label+".state")
		ps.Reason = rapid.IntRange(0, len(Reasons)-1).Draw(t, label+".reason")
	}
	return ps
}

// GenUpdate draws the state written by one Update* call on the target of the plan specification.
func GenUpdate(t *rapid.T, label string, ps *PlanSpec, tg Target) Update {
	u := Update{State: GenState(t, label+".state")}
	if tg.Kind == "plan" {
		u.Reason = rapid.IntRange(0, len(Reasons)-1).Draw(t, label+".reason")
	}
	if a := ResolveActionSpec(ps, tg); a != nil {
		u.Attempts = GenAttempts(t, label+".attempts", a.Plugin)
	}
	return u
}

// Update draws what GenUpdate draws and then, for BadUTF8Percent percent of the updates of actions, turns the update into
// one of the rare class "attempt strings with invalid UTF-8": one attempt (drawn, one is added when the update has none)
// gets one string with invalid bytes (kind drawn from BadUTF8High..BadUTF8Latin1) at a drawn place: the message of the
// error at depth 0, 1 or 2 of the Wrapped chain (links are drawn and added until the chain is that deep) or, for plugins
// with a typed response, a string field of the response (a response is drawn when the attempt has none). With
// BadUTF8Percent == 0 it is exactly GenUpdate (no extra draw).
func (cfg GenCfg) Update(t *rapid.T, label string, ps *PlanSpec, tg Target) Update {
	u := GenUpdate(t, label, ps, tg)
	a := ResolveActionSpec(ps, tg)
	if a == nil || cfg.BadUTF8Percent <= 0 {
		return u
	}
	if Uniform(t, 100, label+".badutf8") >= cfg.BadUTF8Percent {
		return u
	}
	if len(u.Attempts) == 0 {
		u.Attempts = append(u.Attempts, genAttempt(t, label+".badutf8.attempt", a.Plugin))
	}
	at := &u.Attempts[rapid.IntRange(0, len(u.Attempts)-1).Draw(t, label+".badutf8.idx")]
	at.BadUTF8 = rapid.IntRange(BadUTF8High, BadUTF8Last).Draw(t, label+".badutf8.kind")
	maxPlace := BadAtLast
	if IsNilKind(a.Plugin) {
		maxPlace = BadAtErr2 // no typed response: only the error chain has strings
	}
	at.BadAt = rapid.IntRange(0, maxPlace).Draw(t, label+".badutf8.at")
	if at.BadAt <= BadAtErr2 {
		at.Err = append([]ErrLink(nil), at.Err...)
		for len(at.Err) <= at.BadAt {
			at.Err = append(at.Err, genErrLink(t, label+".badutf8.err"))
		}
	} else if !at.HasResp {
		at.HasResp = true
		at.Resp = GenVal(t, label+".badutf8.resp")
	}
	return u
}

// BigSpec builds, as a pure function of its plain arguments, a pristine plan of blocks × seqs × actions sequence actions
// plus a plan-level pre-check group (2 actions) and a post-check group (1 action) on every block. It is the payload of
// the C14 kill experiment (100-400 objects).
func BigSpec(seed uint64, blocks, seqs, actions int) PlanSpec {
	rnd := seed
	next := func() uint64 { rnd = Mix64(rnd); return rnd }
	txt := func(p string) string { return fmt.Sprintf("%s-%x", p, next()&0xffff) }
	act := func(plugin int) ActionSpec {
		a := ActionSpec{Name: txt("a"), Descr: txt("action"), Plugin: plugin, Timeout: timeouts[int(next()%uint64(len(timeouts)))], Retries: int(next() % 4)}
		if !IsNilKind(plugin) {
			a.Req = ValSpec{Text: txt("req"), Num: int64(next()), Flag: next()&1 == 0, List: []string{txt("l")}, DictNil: true}
		}
		return a
	}
	ps := PlanSpec{Seed: seed&^0xFF | 1, Name: txt("plan"), Descr: txt("big"), Group: int(next() % 3), Submit: 1, Meta: []byte(txt("meta"))}
	ps.Checks[GPre] = &ChecksSpec{Actions: []ActionSpec{act(PlugValCheck), act(PlugNilCheck)}}
	seqPlugs := []int{PlugValAction, PlugPtrAction, PlugNilAction}
	for b := 0; b < blocks; b++ {
		bs := BlockSpec{Name: txt("b"), Descr: txt("block"), Concurrency: 1 + int(next()%3), Tolerated: int(next()%3) - 1, Entrance: delays[int(next()%uint64(len(delays)))]}
		bs.Checks[GPost] = &ChecksSpec{Delay: delays[int(next()%uint64(len(delays)))], Actions: []ActionSpec{act(PlugValCheck)}}
		for s := 0; s < seqs; s++ {
			ss := SeqSpec{Name: txt("s"), Descr: txt("seq"), HasKey: next()&3 == 0}
			for a := 0; a < actions; a++ {
				ss.Actions = append(ss.Actions, act(seqPlugs[int(next()%3)]))
			}
			bs.Seqs = append(bs.Seqs, ss)
		}
		ps.Blocks = append(ps.Blocks, bs)
	}
	return ps
}

// Inflate returns a copy of the specification in which the first sequence of the first block has seqActions actions
// (seqActions <= 0: unchanged) and, when checksActions > 0, the plan-level post-check group has checksActions actions
// (the group is created if the plan has none). The added actions are copies of the container's first action with distinct
// names; the result is a pure function of the arguments. It builds the rare "huge container" class (hundreds to more than
// a thousand actions in one container) without putting that many generated actions into the case value.
func Inflate(ps PlanSpec, seqActions, checksActions int) PlanSpec {
	out := Pristine(ps) // deep copy; these plans are created pristine anyway
	grow := func(as []ActionSpec, n int, fallbackPlugin int) []ActionSpec {
		proto := ActionSpec{Name: "x", Descr: "x", Plugin: fallbackPlugin, Timeout: timeouts[0]}
		if len(as) > 0 {
			proto = as[0]
		}
		o := append([]ActionSpec(nil), as...)
		for i := len(o); i < n; i++ {
			a := proto
			a.Name = fmt.Sprintf("%s#%d", proto.Name, i)
			a.HasKey = false
			o = append(o, a)
		}
		return o
	}
	if seqActions > 0 && len(out.Blocks) > 0 && len(out.Blocks[0].Seqs) > 0 {
		sq := &out.Blocks[0].Seqs[0]
		sq.Actions = grow(sq.Actions, seqActions, PlugNilAction)
	}
	if checksActions > 0 {
		g := out.Checks[GPost]
		if g == nil {
			g = &ChecksSpec{}
		}
		g.Actions = grow(g.Actions, checksActions, PlugNilCheck)
		out.Checks[GPost] = g
	}
	return out
}
