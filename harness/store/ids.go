// Package store is the storage lab shared by the checks C13, C14 and C15: plain-data plan specifications and their
// rapid generators, builders that turn a specification into a *workflow.Plan carrying the full engine-owned state of a
// stored plan, harness-owned plugins, an in-memory model store, structural comparers and vault factories.
package store

import (
	"encoding/binary"
	"time"

	"github.com/google/uuid"
)

// Mix64 is the splitmix64 finaliser. It is used to derive ids deterministically from plain-data seeds.
func Mix64(x uint64) uint64 {
	x += 0x9E3779B97F4A7C15
	x = (x ^ (x >> 30)) * 0xBF58476D1CE4E5B9
	x = (x ^ (x >> 27)) * 0x94D049BB133111EB
	return x ^ (x >> 31)
}

// V7 returns a deterministic, syntactically valid version-7 UUID for (seed, idx). The leading (timestamp) bytes are
// pseudo-random on purpose: ids of neighbouring objects are NOT monotone in their position, so code that relies on id
// order instead of the stored position shows. The last four bytes carry idx and byte 11 the low byte of the seed, which
// makes ids unique inside a case by construction (generators give every plan of a case a distinct low seed byte).
func V7(seed uint64, idx uint32) uuid.UUID {
	a := Mix64(seed ^ (0xA24BAED4963EE407 * uint64(idx+1)))
	b := Mix64(a ^ seed ^ 0xD1B54A32D192ED03)
	var u uuid.UUID
	binary.BigEndian.PutUint64(u[0:8], a)
	binary.BigEndian.PutUint64(u[8:16], b)
	u[11] = byte(seed)
	binary.BigEndian.PutUint32(u[12:16], idx)
	u[6] = (u[6] & 0x0f) | 0x70 // version 7
	u[8] = (u[8] & 0x3f) | 0x80 // RFC 4122 variant
	return u
}

// GroupID maps a group index to a group id: 0 is "no group" (uuid.Nil), g > 0 a fixed v7 id shared by all plans of the
// case that carry the same index.
func GroupID(g int) uuid.UUID {
	if g <= 0 {
		return uuid.Nil
	}
	return V7(0x67726F7570000000, uint32(g))
}

// UnknownID is an id that no builder of this package ever hands out to an object (seed space reserved).
func UnknownID(caseSeed uint64, n uint32) uuid.UUID {
	return V7(Mix64(caseSeed)|0xFF, 0x7F000000+n)
}

// MaxTimeNS is 2200-01-01T00:00:00Z in nanoseconds since the Unix epoch (exclusive upper bound of generated times).
const MaxTimeNS int64 = 7258118400 * 1_000_000_000

// TimeOf decodes the plain-data time encoding used in specifications: 0 is the zero time.Time, any other value is that
// many nanoseconds after the Unix epoch, in UTC.
func TimeOf(ns int64) time.Time {
	if ns == 0 {
		return time.Time{}
	}
	return time.Unix(0, ns).UTC()
}
