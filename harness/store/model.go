package store

import (
	"fmt"

	"github.com/google/uuid"

	"github.com/element-of-surprise/coercion/workflow"
)

// Target addresses one object of a plan by position (plain data).
type Target struct {
	// Kind is one of "plan", "checks", "block", "seq", "action".
	Kind string
	// Block is the block index, -1 for plan-level check groups.
	Block int
	// Group is the check-group slot (GBypass..GDeferred) for "checks" and for actions inside a group, else -1.
	Group int
	// Seq is the sequence index for "seq" and for actions inside a sequence, else -1.
	Seq int
	// Action is the action index for "action", else -1.
	Action int
}

func (t Target) String() string {
	return fmt.Sprintf("%s[b%d g%d s%d a%d]", t.Kind, t.Block, t.Group, t.Seq, t.Action)
}

func groupOf(p *workflow.Plan, b *workflow.Block, g int) *workflow.Checks {
	if b != nil {
		switch g {
		case GBypass:
			return b.BypassChecks
		case GPre:
			return b.PreChecks
		case GCont:
			return b.ContChecks
		case GPost:
			return b.PostChecks
		case GDeferred:
			return b.DeferredChecks
		}
		return nil
	}
	switch g {
	case GBypass:
		return p.BypassChecks
	case GPre:
		return p.PreChecks
	case GCont:
		return p.ContChecks
	case GPost:
		return p.PostChecks
	case GDeferred:
		return p.DeferredChecks
	}
	return nil
}

// Resolve returns the object the target addresses inside p, or nil when p does not have such an object.
func Resolve(p *workflow.Plan, t Target) workflow.Object {
	if p == nil {
		return nil
	}
	if t.Kind == "plan" {
		return p
	}
	var blk *workflow.Block
	if t.Block >= 0 {
		if t.Block >= len(p.Blocks) || p.Blocks[t.Block] == nil {
			return nil
		}
		blk = p.Blocks[t.Block]
	}
	switch t.Kind {
	case "block":
		if blk == nil {
			return nil
		}
		return blk
	case "checks":
		c := groupOf(p, blk, t.Group)
		if c == nil {
			return nil
		}
		return c
	case "seq":
		if blk == nil || t.Seq < 0 || t.Seq >= len(blk.Sequences) || blk.Sequences[t.Seq] == nil {
			return nil
		}
		return blk.Sequences[t.Seq]
	case "action":
		var acts []*workflow.Action
		if t.Group >= 0 {
			c := groupOf(p, blk, t.Group)
			if c == nil {
				return nil
			}
			acts = c.Actions
		} else {
			if blk == nil || t.Seq < 0 || t.Seq >= len(blk.Sequences) || blk.Sequences[t.Seq] == nil {
				return nil
			}
			acts = blk.Sequences[t.Seq].Actions
		}
		if t.Action < 0 || t.Action >= len(acts) || acts[t.Action] == nil {
			return nil
		}
		return acts[t.Action]
	}
	return nil
}

// ResolveActionSpec returns the specification of the action the target addresses (nil if there is none).
func ResolveActionSpec(ps *PlanSpec, t Target) *ActionSpec {
	if t.Kind != "action" {
		return nil
	}
	var groups *[5]*ChecksSpec
	var blk *BlockSpec
	if t.Block >= 0 {
		if t.Block >= len(ps.Blocks) {
			return nil
		}
		blk = &ps.Blocks[t.Block]
		groups = &blk.Checks
	} else {
		groups = &ps.Checks
	}
	if t.Group >= 0 {
		if t.Group > 4 || groups[t.Group] == nil || t.Action < 0 || t.Action >= len(groups[t.Group].Actions) {
			return nil
		}
		return &groups[t.Group].Actions[t.Action]
	}
	if blk == nil || t.Seq < 0 || t.Seq >= len(blk.Seqs) || t.Action < 0 || t.Action >= len(blk.Seqs[t.Seq].Actions) {
		return nil
	}
	return &blk.Seqs[t.Seq].Actions[t.Action]
}

// Targets enumerates every addressable object of the specification in walk order (plan first).
func Targets(ps PlanSpec) []Target {
	out := []Target{{Kind: "plan", Block: -1, Group: -1, Seq: -1, Action: -1}}
	groups := func(block int, cs [5]*ChecksSpec) {
		for g, c := range cs {
			if c == nil {
				continue
			}
			out = append(out, Target{Kind: "checks", Block: block, Group: g, Seq: -1, Action: -1})
			for a := range c.Actions {
				out = append(out, Target{Kind: "action", Block: block, Group: g, Seq: -1, Action: a})
			}
		}
	}
	groups(-1, ps.Checks)
	for bi, b := range ps.Blocks {
		out = append(out, Target{Kind: "block", Block: bi, Group: -1, Seq: -1, Action: -1})
		groups(bi, b.Checks)
		for si, s := range b.Seqs {
			out = append(out, Target{Kind: "seq", Block: bi, Group: -1, Seq: si, Action: -1})
			for a := range s.Actions {
				out = append(out, Target{Kind: "action", Block: bi, Group: -1, Seq: si, Action: a})
			}
		}
	}
	return out
}

// ---------------------------------------------------------------------------------------------------------------------
// Model store

// PlanModel is what the vault is expected to hold for one plan: the object tree that was last written, object by object.
type PlanModel struct {
	Spec PlanSpec
	// Plan is the expected stored plan. It is never handed to the code under test.
	Plan    *workflow.Plan
	Deleted bool
	// Updates counts successful Update* calls on objects of this plan.
	Updates int
	// MaxAttempts is the largest number of attempts written to any action of the plan.
	MaxAttempts int
}

// Model is the in-memory model store: plan id -> what was last written.
type Model struct {
	Plans map[uuid.UUID]*PlanModel
	// Order lists the ids in creation order (deterministic iteration).
	Order []uuid.UUID
}

// NewModel returns an empty model store.
func NewModel() *Model { return &Model{Plans: map[uuid.UUID]*PlanModel{}} }

// Create records a successful Vault.Create of the plan built from ps.
func (m *Model) Create(ps PlanSpec) *PlanModel {
	pm := &PlanModel{Spec: ps, Plan: Build(ps)}
	for _, t := range Targets(ps) {
		if a := ResolveActionSpec(&ps, t); a != nil && len(a.Attempts) > pm.MaxAttempts {
			pm.MaxAttempts = len(a.Attempts)
		}
	}
	m.Plans[pm.Plan.ID] = pm
	m.Order = append(m.Order, pm.Plan.ID)
	return pm
}

// CreatePlan records a successful create of an already built expected plan (C14: ids assigned by Submit).
func (m *Model) CreatePlan(ps PlanSpec, expected *workflow.Plan) *PlanModel {
	pm := &PlanModel{Spec: ps, Plan: expected}
	m.Plans[expected.ID] = pm
	m.Order = append(m.Order, expected.ID)
	return pm
}

// Live returns the models of the plans that were created and not deleted, in creation order.
func (m *Model) Live() []*PlanModel {
	var out []*PlanModel
	for _, id := range m.Order {
		if pm := m.Plans[id]; pm != nil && !pm.Deleted {
			out = append(out, pm)
		}
	}
	return out
}

// Update describes the state written by one Update* call.
type Update struct {
	State StateSpec
	// Reason is used for plans only.
	Reason int
	// Attempts is used for actions only.
	Attempts []AttemptSpec
}

// HasBadUTF8 reports whether the update, applied to an action of the plugin kind, writes an attempt that holds a string
// with bytes that are not valid UTF-8 (see AttemptSpec.BadUTF8).
func (u Update) HasBadUTF8(plugin int) bool {
	for _, at := range u.Attempts {
		if k, _ := at.BadPlace(plugin); k != BadUTF8None {
			return true
		}
	}
	return false
}

// ApplyTo writes the update into obj the way the engine mutates an object before it calls Update*: only the object's own
// state fields (status, start, end; reason for plans; attempts for actions) change. The ETag, which belongs to the
// storage layer, is kept.
func (u Update) ApplyTo(obj workflow.Object, plugin int) {
	set := func(s **workflow.State) {
		if *s == nil {
			*s = &workflow.State{}
		}
		(*s).Status = StatusOf(u.State.Status)
		(*s).Start = TimeOf(u.State.Start)
		(*s).End = TimeOf(u.State.End)
	}
	switch o := obj.(type) {
	case *workflow.Plan:
		set(&o.State)
		o.Reason = ReasonOf(u.Reason)
	case *workflow.Checks:
		set(&o.State)
	case *workflow.Block:
		set(&o.State)
	case *workflow.Sequence:
		set(&o.State)
	case *workflow.Action:
		set(&o.State)
		o.Attempts = BuildAttempts(plugin, u.Attempts)
	}
}

// Apply records a successful Update* call in the model: following the doc comments of storage.Updater an update writes
// only that object's own state, never the hierarchy below it and never the definition.
func (pm *PlanModel) Apply(t Target, u Update) bool {
	obj := Resolve(pm.Plan, t)
	if obj == nil {
		return false
	}
	plugin := -1
	if a := ResolveActionSpec(&pm.Spec, t); a != nil {
		plugin = a.Plugin
		if len(u.Attempts) > pm.MaxAttempts {
			pm.MaxAttempts = len(u.Attempts)
		}
	}
	u.ApplyTo(obj, plugin)
	pm.Updates++
	return true
}

// ObjectID returns the id of a workflow object.
func ObjectID(o workflow.Object) uuid.UUID {
	if g, ok := o.(interface{ GetID() uuid.UUID }); ok {
		return g.GetID()
	}
	return uuid.Nil
}

// FindByID returns the object with the id inside the plan tree (nil when there is none). Objects are looked up by id
// rather than by position because a vault is free to hand back lists in an order the caller did not expect; an update
// must reach the object it was meant for.
func FindByID(p *workflow.Plan, id uuid.UUID) workflow.Object {
	if p == nil {
		return nil
	}
	if p.ID == id {
		return p
	}
	inActions := func(as []*workflow.Action) workflow.Object {
		for _, a := range as {
			if a != nil && a.ID == id {
				return a
			}
		}
		return nil
	}
	inChecks := func(cs ...*workflow.Checks) workflow.Object {
		for _, c := range cs {
			if c == nil {
				continue
			}
			if c.ID == id {
				return c
			}
			if o := inActions(c.Actions); o != nil {
				return o
			}
		}
		return nil
	}
	if o := inChecks(p.BypassChecks, p.PreChecks, p.ContChecks, p.PostChecks, p.DeferredChecks); o != nil {
		return o
	}
	for _, b := range p.Blocks {
		if b == nil {
			continue
		}
		if b.ID == id {
			return b
		}
		if o := inChecks(b.BypassChecks, b.PreChecks, b.ContChecks, b.PostChecks, b.DeferredChecks); o != nil {
			return o
		}
		for _, s := range b.Sequences {
			if s == nil {
				continue
			}
			if s.ID == id {
				return s
			}
			if o := inActions(s.Actions); o != nil {
				return o
			}
		}
	}
	return nil
}
