package store

import (
	"errors"
	"fmt"
	"time"

	"github.com/gostdlib/base/context"
	"github.com/gostdlib/base/retry/exponential"

	"github.com/element-of-surprise/coercion/plugins"
	"github.com/element-of-surprise/coercion/plugins/registry"
)

// Plugin kinds. The numeric values are part of the plain-data case encoding (ActionSpec.Plugin): never renumber.
const (
	PlugValAction    = 0 // non-check plugin, value-typed request/response (ValReq / ValResp)
	PlugPtrAction    = 1 // non-check plugin, pointer-typed request/response (*PtrReq / *PtrResp)
	PlugNilAction    = 2 // non-check plugin, Request() and Response() are nil
	PlugValCheck     = 3 // check plugin, value-typed request/response (ChkReq / ChkResp)
	PlugNilCheck     = 4 // check plugin, Request() and Response() are nil
	PlugPoisonAction = 5 // non-check plugin whose request type can hold values that cannot be serialised (C14)
	PlugPoisonCheck  = 6 // check plugin, same request type
	numPlugs         = 7
)

var plugNames = [numPlugs]string{
	"verifharness/store.ValAction",
	"verifharness/store.PtrAction",
	"verifharness/store.NilAction",
	"verifharness/store.ValCheck",
	"verifharness/store.NilCheck",
	"verifharness/store.PoisonAction",
	"verifharness/store.PoisonCheck",
}

// PluginName returns the registry name of a plugin kind.
func PluginName(kind int) string {
	if kind < 0 || kind >= numPlugs {
		return fmt.Sprintf("verifharness/store.Unknown%d", kind)
	}
	return plugNames[kind]
}

// IsCheckKind says whether the plugin kind is a check plugin.
func IsCheckKind(kind int) bool {
	return kind == PlugValCheck || kind == PlugNilCheck || kind == PlugPoisonCheck
}

// IsNilKind says whether the plugin kind has nil Request()/Response().
func IsNilKind(kind int) bool { return kind == PlugNilAction || kind == PlugNilCheck }

// IsPoisonKind says whether the plugin kind uses PoisonReq.
func IsPoisonKind(kind int) bool { return kind == PlugPoisonAction || kind == PlugPoisonCheck }

// Inner is a nested struct inside the payloads.
type Inner struct {
	Label string
	Vals  []int64
}

// Payload is the field set shared by all typed requests and responses of the harness plugins. No field name may match
// the registry's secret detector (token|pass|jwt|hash|secret|bearer|cred|secure|signing|cert|code|key).
type Payload struct {
	Text  string
	Num   int64
	Ratio float64
	Flag  bool
	List  []string
	Dict  map[string]int64
	Inner *Inner
	When  time.Time
	Raw   []byte
}

// Distinct named types so that a reader that confuses plugins produces a value of the wrong type.
type (
	ValReq  Payload
	ValResp Payload
	PtrReq  Payload
	PtrResp Payload
	ChkReq  Payload
	ChkResp Payload
)

// FailingMarshaler is a value whose JSON encoding always fails.
type FailingMarshaler struct{ Why string }

// MarshalJSON implements json.Marshaler (honoured by encoding/json and by go-json-experiment).
func (f FailingMarshaler) MarshalJSON() ([]byte, error) {
	return nil, errors.New("FailingMarshaler: " + f.Why)
}

// UnmarshalJSON accepts anything (never reached: the value cannot be written).
func (f *FailingMarshaler) UnmarshalJSON([]byte) error { return nil }

// PoisonReq is the request type of the poison plugins. With Any == nil (or a string/bool), a finite Ratio and
// Bad == nil it is plain JSON-serialisable data; a channel or func behind Any, a NaN in Ratio or a non-nil Bad make the
// encoder fail.
type PoisonReq struct {
	Text  string
	Any   any
	Ratio float64
	Bad   *FailingMarshaler
}

type plug struct {
	kind int
}

var _ plugins.Plugin = (*plug)(nil)

func (p *plug) Name() string { return plugNames[p.kind] }

func (p *plug) Execute(ctx context.Context, req any) (any, *plugins.Error) {
	return nil, &plugins.Error{Message: "storage-lab plugins are never executed", Permanent: true}
}

func (p *plug) ValidateReq(req any) error {
	ok := false
	switch p.kind {
	case PlugValAction:
		_, ok = req.(ValReq)
	case PlugPtrAction:
		var r *PtrReq
		r, ok = req.(*PtrReq)
		ok = ok && r != nil
	case PlugNilAction, PlugNilCheck:
		ok = req == nil
	case PlugValCheck:
		_, ok = req.(ChkReq)
	case PlugPoisonAction, PlugPoisonCheck:
		_, ok = req.(PoisonReq)
	}
	if !ok {
		return fmt.Errorf("%s: invalid request object (%T)", p.Name(), req)
	}
	return nil
}

func (p *plug) Request() any {
	switch p.kind {
	case PlugValAction:
		return ValReq{}
	case PlugPtrAction:
		return &PtrReq{}
	case PlugValCheck:
		return ChkReq{}
	case PlugPoisonAction, PlugPoisonCheck:
		return PoisonReq{}
	}
	return nil
}

func (p *plug) Response() any {
	switch p.kind {
	case PlugValAction, PlugPoisonAction:
		return ValResp{}
	case PlugPtrAction:
		return &PtrResp{}
	case PlugValCheck, PlugPoisonCheck:
		return ChkResp{}
	}
	return nil
}

func (p *plug) IsCheck() bool { return IsCheckKind(p.kind) }

func (p *plug) RetryPolicy() exponential.Policy { return plugins.FastRetryPolicy() }

func (p *plug) Init() error { return nil }

// NewRegistry returns a fresh registry holding fresh instances of all harness plugins.
func NewRegistry() *registry.Register {
	reg := registry.New()
	for k := 0; k < numPlugs; k++ {
		reg.MustRegister(&plug{kind: k})
	}
	return reg
}
