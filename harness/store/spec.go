package store

import (
	"math"
	"time"

	"github.com/google/uuid"

	"github.com/element-of-surprise/coercion/plugins"
	"github.com/element-of-surprise/coercion/workflow"
)

// ---------------------------------------------------------------------------------------------------------------------
// Plain-data specifications. Everything in here survives a JSON round trip (replay files).

// Statuses / Reasons are the values a StateSpec.Status / PlanSpec.Reason index selects.
var Statuses = []workflow.Status{workflow.NotStarted, workflow.Running, workflow.Completed, workflow.Failed, workflow.Stopped}

var Reasons = []workflow.FailureReason{workflow.FRUnknown, workflow.FRPreCheck, workflow.FRBlock, workflow.FRPostCheck,
	workflow.FRContCheck, workflow.FRDeferredCheck, workflow.FRStopped, workflow.FRExceedRecovery}

// StatusOf maps an index to a workflow.Status constant.
func StatusOf(i int) workflow.Status {
	if i < 0 || i >= len(Statuses) {
		return workflow.NotStarted
	}
	return Statuses[i]
}

// ReasonOf maps an index to a workflow.FailureReason constant.
func ReasonOf(i int) workflow.FailureReason {
	if i < 0 || i >= len(Reasons) {
		return workflow.FRUnknown
	}
	return Reasons[i]
}

// StateSpec is the engine-owned state of one object. Times use the TimeOf encoding.
type StateSpec struct {
	Status int
	Start  int64
	End    int64
}

// InnerSpec is the nested struct of a payload.
type InnerSpec struct {
	Label string
	Vals  []int64
}

// ValSpec is the content of a typed request or response.
type ValSpec struct {
	Text  string
	Num   int64
	Ratio float64
	Flag  bool
	// List == nil with ListNil false yields an empty non-nil slice.
	List    []string
	ListNil bool
	Dict    map[string]int64
	DictNil bool
	Inner   *InnerSpec
	When    int64
	Raw     []byte
}

// Poison kinds for C14.
const (
	PoisonNone    = 0
	PoisonChan    = 1 // a channel behind the `any` field
	PoisonFunc    = 2 // a func behind the `any` field
	PoisonNaN     = 3 // NaN in the float field
	PoisonMarshal = 4 // a value whose MarshalJSON fails
	// string fields holding bytes that are not valid UTF-8: the JSON encoder the vaults use refuses them
	PoisonUTF8High      = 5 // "\xff\xfe" inside the text
	PoisonUTF8Cont      = 6 // a lone continuation byte
	PoisonUTF8Truncated = 7 // a truncated multi-byte sequence at the end
	PoisonLast          = PoisonUTF8Truncated
)

// IsUTF8Poison says whether the poison kind is one of the invalid-UTF-8 kinds.
func IsUTF8Poison(kind int) bool { return kind >= PoisonUTF8High && kind <= PoisonUTF8Truncated }

// ErrLink is one element of a plugins.Error chain (outermost first).
type ErrLink struct {
	Code      uint
	Message   string
	Permanent bool
}

// AttemptSpec is one attempt of an action.
type AttemptSpec struct {
	HasResp bool
	Resp    ValSpec
	Err     []ErrLink
	Start   int64
	End     int64
	// BadUTF8 (one of the BadUTF8* kinds, 0 = none) puts bytes that are not valid UTF-8 into one string of the attempt,
	// BadAt (BadAt*) says into which one. The case encoding is JSON, which cannot carry such bytes inside a string, so the
	// choice is plain data and the bytes are synthesised at build time (BuildAttempts). Only generated when
	// GenCfg.BadUTF8Percent > 0 (C13).
	BadUTF8 int `json:",omitempty"`
	BadAt   int `json:",omitempty"`
}

// Kinds of invalid UTF-8 (AttemptSpec.BadUTF8).
const (
	BadUTF8None   = 0
	BadUTF8High   = 1 // "\xff\xfe": bytes that never occur in UTF-8
	BadUTF8Cont   = 2 // "ab\x80cd": a lone continuation byte
	BadUTF8Trunc  = 3 // "x\xe2\x82": a multi-byte sequence cut short at the end of the string
	BadUTF8Latin1 = 4 // "caf\xe9": Latin-1 text
	BadUTF8Last   = BadUTF8Latin1
)

// Places of the invalid bytes (AttemptSpec.BadAt).
const (
	BadAtErr0      = 0 // Err.Message
	BadAtErr1      = 1 // Err.Wrapped.Message
	BadAtErr2      = 2 // Err.Wrapped.Wrapped.Message
	BadAtRespText  = 3 // Text of the typed response
	BadAtRespList  = 4 // an extra last element of List of the typed response
	BadAtRespInner = 5 // Inner.Label of the typed response (Inner is created when the response has none)
	BadAtLast      = BadAtRespInner
)

// BadString returns s with the invalid bytes of the kind added (in front for BadUTF8High, else at the end, so that the
// truncated sequence really ends the string). The result is never valid UTF-8 for a kind in 1..BadUTF8Last.
func BadString(kind int, s string) string {
	switch kind {
	case BadUTF8High:
		return "\xff\xfe" + s
	case BadUTF8Cont:
		return s + "ab\x80cd"
	case BadUTF8Trunc:
		return s + "x\xe2\x82"
	case BadUTF8Latin1:
		return s + "caf\xe9"
	}
	return s
}

// BadPlace normalises BadUTF8/BadAt for an attempt of an action of the plugin kind: kind 0 means the attempt has no
// invalid string. It is total (hand-edited or shrunk cases): an error depth beyond the chain means its last link, a
// place that does not exist (no error chain, no typed response) falls over to the other family, and an attempt with
// neither an error nor a typed response has no string at all.
func (at AttemptSpec) BadPlace(plugin int) (kind, place int) {
	if at.BadUTF8 < 1 || at.BadUTF8 > BadUTF8Last {
		return BadUTF8None, 0
	}
	respOK := at.HasResp && BuildResp(plugin, AttemptSpec{HasResp: true}) != nil
	place = at.BadAt
	if place >= BadAtRespText && place <= BadAtLast {
		if respOK {
			return at.BadUTF8, place
		}
		place = len(at.Err) - 1
	}
	if place < 0 || place > BadAtLast {
		place = 0
	}
	if len(at.Err) == 0 {
		if respOK {
			return at.BadUTF8, BadAtRespText
		}
		return BadUTF8None, 0
	}
	if place >= len(at.Err) {
		place = len(at.Err) - 1
	}
	return at.BadUTF8, place
}

// withBadUTF8 returns the attempt with the invalid bytes written into the string BadPlace selects (copy on write).
func (at AttemptSpec) withBadUTF8(plugin int) AttemptSpec {
	kind, place := at.BadPlace(plugin)
	if kind == BadUTF8None {
		return at
	}
	switch place {
	case BadAtErr0, BadAtErr1, BadAtErr2:
		at.Err = append([]ErrLink(nil), at.Err...)
		at.Err[place].Message = BadString(kind, at.Err[place].Message)
	case BadAtRespText:
		at.Resp.Text = BadString(kind, at.Resp.Text)
	case BadAtRespList:
		at.Resp.List = append(append([]string(nil), at.Resp.List...), BadString(kind, ""))
	case BadAtRespInner:
		in := InnerSpec{}
		if at.Resp.Inner != nil {
			in = *at.Resp.Inner
		}
		in.Label = BadString(kind, in.Label)
		at.Resp.Inner = &in
	}
	return at
}

// ActionSpec describes an action.
type ActionSpec struct {
	HasKey  bool
	Name    string
	Descr   string
	Plugin  int
	Timeout int64
	Retries int
	Req     ValSpec
	// Poison selects an unserialisable request (only with the poison plugins).
	Poison   int
	Attempts []AttemptSpec
	State    StateSpec
}

// ChecksSpec describes a check group.
type ChecksSpec struct {
	HasKey  bool
	Delay   int64
	Actions []ActionSpec
	State   StateSpec
}

// SeqSpec describes a sequence.
type SeqSpec struct {
	HasKey  bool
	Name    string
	Descr   string
	Actions []ActionSpec
	State   StateSpec
}

// Group slots of a plan or block, in the order used by Checks arrays in the specifications.
const (
	GBypass   = 0
	GPre      = 1
	GCont     = 2
	GPost     = 3
	GDeferred = 4
)

var GroupNames = [5]string{"bypass", "pre", "cont", "post", "deferred"}

// BlockSpec describes a block.
type BlockSpec struct {
	HasKey      bool
	Name        string
	Descr       string
	Entrance    int64
	Exit        int64
	Checks      [5]*ChecksSpec
	Seqs        []SeqSpec
	Concurrency int
	Tolerated   int
	State       StateSpec
}

// PlanSpec describes a whole plan as it is stored.
type PlanSpec struct {
	// Seed derives every id and key of the plan (see V7). Its low byte is unique among the plans of a case.
	Seed uint64
	// IDBase is added to the id index of every object below the plan (the plan id itself stays V7(Seed, 0)): two
	// specifications with the same Seed and different IDBase collide in the plan id only.
	IDBase  uint32 `json:",omitempty"`
	Name    string
	Descr   string
	Group   int
	Meta    []byte
	MetaNil bool
	Checks  [5]*ChecksSpec
	Blocks  []BlockSpec
	Submit  int64
	State   StateSpec
	Reason  int
}

// ---------------------------------------------------------------------------------------------------------------------
// Builders

func buildState(s StateSpec) *workflow.State {
	return &workflow.State{Status: StatusOf(s.Status), Start: TimeOf(s.Start), End: TimeOf(s.End)}
}

func buildPayload(v ValSpec) Payload {
	p := Payload{Text: v.Text, Num: v.Num, Ratio: v.Ratio, Flag: v.Flag, When: TimeOf(v.When)}
	if len(v.List) > 0 {
		p.List = append([]string(nil), v.List...)
	} else if !v.ListNil {
		p.List = []string{}
	}
	if len(v.Dict) > 0 {
		p.Dict = make(map[string]int64, len(v.Dict))
		for k, x := range v.Dict {
			p.Dict[k] = x
		}
	} else if !v.DictNil {
		p.Dict = map[string]int64{}
	}
	if v.Inner != nil {
		in := &Inner{Label: v.Inner.Label}
		if v.Inner.Vals != nil {
			in.Vals = append([]int64{}, v.Inner.Vals...)
		}
		p.Inner = in
	}
	if v.Raw != nil {
		p.Raw = append([]byte{}, v.Raw...)
	}
	return p
}

// BuildReq returns the typed request of an action.
func BuildReq(a ActionSpec) any {
	switch a.Plugin {
	case PlugValAction:
		return ValReq(buildPayload(a.Req))
	case PlugPtrAction:
		r := PtrReq(buildPayload(a.Req))
		return &r
	case PlugValCheck:
		return ChkReq(buildPayload(a.Req))
	case PlugPoisonAction, PlugPoisonCheck:
		r := PoisonReq{Text: a.Req.Text, Ratio: a.Req.Ratio}
		if a.Req.Flag {
			r.Any = a.Req.Text // a healthy value behind the interface field
		}
		switch a.Poison {
		case PoisonChan:
			r.Any = make(chan int)
		case PoisonFunc:
			r.Any = func() {}
		case PoisonNaN:
			r.Ratio = math.NaN()
		case PoisonMarshal:
			r.Bad = &FailingMarshaler{Why: "poison"}
		case PoisonUTF8High:
			r.Text = "na\xff\xfeve " + r.Text
		case PoisonUTF8Cont:
			r.Text = r.Text + "\x80tail"
		case PoisonUTF8Truncated:
			r.Text = r.Text + "\xe4\xb8" // the first two bytes of U+4E16
		}
		return r
	}
	return nil
}

// BuildResp returns the typed response for an attempt of an action that uses the plugin kind.
func BuildResp(plugin int, at AttemptSpec) any {
	if !at.HasResp {
		return nil
	}
	switch plugin {
	case PlugValAction, PlugPoisonAction:
		return ValResp(buildPayload(at.Resp))
	case PlugPtrAction:
		r := PtrResp(buildPayload(at.Resp))
		return &r
	case PlugValCheck, PlugPoisonCheck:
		return ChkResp(buildPayload(at.Resp))
	}
	return nil
}

// BuildErr builds the plugins.Error chain (nil for an empty chain).
func BuildErr(chain []ErrLink) *plugins.Error {
	var out *plugins.Error
	for i := len(chain) - 1; i >= 0; i-- {
		l := chain[i]
		out = &plugins.Error{Code: plugins.ErrCode(l.Code), Message: l.Message, Permanent: l.Permanent, Wrapped: out}
	}
	return out
}

// BuildAttempts builds the attempts of an action using the plugin kind.
func BuildAttempts(plugin int, ats []AttemptSpec) []*workflow.Attempt {
	if len(ats) == 0 {
		return nil
	}
	out := make([]*workflow.Attempt, 0, len(ats))
	for _, at := range ats {
		at = at.withBadUTF8(plugin) // a no-op unless the specification asks for invalid UTF-8 (C13's rare class)
		out = append(out, &workflow.Attempt{Resp: BuildResp(plugin, at), Err: BuildErr(at.Err), Start: TimeOf(at.Start), End: TimeOf(at.End)})
	}
	return out
}

type builder struct {
	seed   uint64
	base   uint32
	next   uint32
	planID uuid.UUID
	user   bool // build what a user hands to Submit: no ids, no state, no attempts
}

func (b *builder) id() uuid.UUID {
	if b.user {
		return uuid.Nil
	}
	idx := b.next
	if idx > 0 {
		idx += b.base
	}
	b.next++
	return V7(b.seed, idx)
}

// key returns the user key for the object that has just been given its id (same index, separate seed space). In user
// mode the index is still advanced so that keys are identical in both modes.
func (b *builder) key(has bool, idx uint32) uuid.UUID {
	if !has {
		return uuid.Nil
	}
	return V7(b.seed^0x4B45590000000000, idx)
}

func (b *builder) state(s StateSpec) *workflow.State {
	if b.user {
		return nil
	}
	return buildState(s)
}

func (b *builder) action(a ActionSpec) *workflow.Action {
	idx := b.next
	out := &workflow.Action{
		ID: b.id(), Key: b.key(a.HasKey, idx), Name: a.Name, Descr: a.Descr, Plugin: PluginName(a.Plugin),
		Timeout: time.Duration(a.Timeout), Retries: a.Retries, Req: BuildReq(a), State: b.state(a.State),
	}
	if b.user {
		b.next++
	} else {
		out.Attempts = BuildAttempts(a.Plugin, a.Attempts)
		out.SetPlanID(b.planID)
	}
	return out
}

func (b *builder) checks(c *ChecksSpec) *workflow.Checks {
	if c == nil {
		return nil
	}
	idx := b.next
	out := &workflow.Checks{ID: b.id(), Key: b.key(c.HasKey, idx), Delay: time.Duration(c.Delay), State: b.state(c.State)}
	if b.user {
		b.next++
	} else {
		out.SetPlanID(b.planID)
	}
	out.Actions = make([]*workflow.Action, 0, len(c.Actions))
	for _, a := range c.Actions {
		out.Actions = append(out.Actions, b.action(a))
	}
	return out
}

func (b *builder) plan(ps PlanSpec) *workflow.Plan {
	b.seed, b.base = ps.Seed, ps.IDBase
	p := &workflow.Plan{Name: ps.Name, Descr: ps.Descr, GroupID: GroupID(ps.Group)}
	p.ID = b.id()
	if b.user {
		b.next++
	}
	b.planID = p.ID
	if len(ps.Meta) > 0 {
		p.Meta = append([]byte{}, ps.Meta...)
	} else if !ps.MetaNil {
		p.Meta = []byte{}
	}
	if !b.user {
		p.State = buildState(ps.State)
		p.SubmitTime = TimeOf(ps.Submit)
		p.Reason = ReasonOf(ps.Reason)
	}
	p.BypassChecks = b.checks(ps.Checks[GBypass])
	p.PreChecks = b.checks(ps.Checks[GPre])
	p.ContChecks = b.checks(ps.Checks[GCont])
	p.PostChecks = b.checks(ps.Checks[GPost])
	p.DeferredChecks = b.checks(ps.Checks[GDeferred])
	p.Blocks = make([]*workflow.Block, 0, len(ps.Blocks))
	for _, bs := range ps.Blocks {
		idx := b.next
		blk := &workflow.Block{
			ID: b.id(), Key: b.key(bs.HasKey, idx), Name: bs.Name, Descr: bs.Descr,
			EntranceDelay: time.Duration(bs.Entrance), ExitDelay: time.Duration(bs.Exit),
			Concurrency: bs.Concurrency, ToleratedFailures: bs.Tolerated, State: b.state(bs.State),
		}
		if b.user {
			b.next++
		} else {
			blk.SetPlanID(b.planID)
		}
		blk.BypassChecks = b.checks(bs.Checks[GBypass])
		blk.PreChecks = b.checks(bs.Checks[GPre])
		blk.ContChecks = b.checks(bs.Checks[GCont])
		blk.PostChecks = b.checks(bs.Checks[GPost])
		blk.DeferredChecks = b.checks(bs.Checks[GDeferred])
		blk.Sequences = make([]*workflow.Sequence, 0, len(bs.Seqs))
		for _, ss := range bs.Seqs {
			sidx := b.next
			seq := &workflow.Sequence{ID: b.id(), Key: b.key(ss.HasKey, sidx), Name: ss.Name, Descr: ss.Descr, State: b.state(ss.State)}
			if b.user {
				b.next++
			} else {
				seq.SetPlanID(b.planID)
			}
			seq.Actions = make([]*workflow.Action, 0, len(ss.Actions))
			for _, a := range ss.Actions {
				seq.Actions = append(seq.Actions, b.action(a))
			}
			blk.Sequences = append(blk.Sequences, seq)
		}
		p.Blocks = append(p.Blocks, blk)
	}
	return p
}

// Build returns the plan as it is handed to Vault.Create by the engine: ids on every object, State on every object,
// SubmitTime, plan id on every sub-object. Two calls return two independent, equal object trees.
func Build(ps PlanSpec) *workflow.Plan {
	return (&builder{}).plan(ps)
}

// BuildUser returns the plan as a user hands it to Workstream.Submit: definition only (no ids, states, attempts, submit
// time or reason). Keys are the same as in Build.
func BuildUser(ps PlanSpec) *workflow.Plan {
	return (&builder{user: true}).plan(ps)
}

// PlanID is the id Build gives to the plan object of the specification.
func PlanID(ps PlanSpec) uuid.UUID { return V7(ps.Seed, 0) }

// ObjectCount is the number of objects (plan, groups, blocks, sequences, actions) in the specification.
func ObjectCount(ps PlanSpec) int {
	n := 1
	cnt := func(c *ChecksSpec) {
		if c != nil {
			n += 1 + len(c.Actions)
		}
	}
	for _, c := range ps.Checks {
		cnt(c)
	}
	for _, b := range ps.Blocks {
		n++
		for _, c := range b.Checks {
			cnt(c)
		}
		for _, s := range b.Seqs {
			n += 1 + len(s.Actions)
		}
	}
	return n
}

// IsPristine reports whether the specification carries no execution state at all (what Submit creates: NotStarted, zero
// times, no reason, no attempts).
func IsPristine(ps PlanSpec) bool {
	zero := StateSpec{}
	if ps.State != zero || ps.Reason != 0 {
		return false
	}
	okChecks := func(c *ChecksSpec) bool {
		if c == nil {
			return true
		}
		if c.State != zero {
			return false
		}
		for _, a := range c.Actions {
			if a.State != zero || len(a.Attempts) > 0 {
				return false
			}
		}
		return true
	}
	for _, c := range ps.Checks {
		if !okChecks(c) {
			return false
		}
	}
	for _, b := range ps.Blocks {
		if b.State != zero {
			return false
		}
		for _, c := range b.Checks {
			if !okChecks(c) {
				return false
			}
		}
		for _, sq := range b.Seqs {
			if sq.State != zero {
				return false
			}
			for _, a := range sq.Actions {
				if a.State != zero || len(a.Attempts) > 0 {
					return false
				}
			}
		}
	}
	return true
}

// Pristine returns a deep copy of the specification without any execution state: the same definition as Submit would
// create it.
func Pristine(ps PlanSpec) PlanSpec {
	out := ps
	out.State, out.Reason = StateSpec{}, 0
	cpActions := func(as []ActionSpec) []ActionSpec {
		o := append([]ActionSpec(nil), as...)
		for i := range o {
			o[i].State, o[i].Attempts = StateSpec{}, nil
		}
		return o
	}
	cpChecks := func(c *ChecksSpec) *ChecksSpec {
		if c == nil {
			return nil
		}
		o := *c
		o.State = StateSpec{}
		o.Actions = cpActions(c.Actions)
		return &o
	}
	for i, c := range ps.Checks {
		out.Checks[i] = cpChecks(c)
	}
	out.Blocks = append([]BlockSpec(nil), ps.Blocks...)
	for bi := range out.Blocks {
		b := &out.Blocks[bi]
		b.State = StateSpec{}
		for i, c := range ps.Blocks[bi].Checks {
			b.Checks[i] = cpChecks(c)
		}
		b.Seqs = append([]SeqSpec(nil), ps.Blocks[bi].Seqs...)
		for si := range b.Seqs {
			b.Seqs[si].State = StateSpec{}
			b.Seqs[si].Actions = cpActions(ps.Blocks[bi].Seqs[si].Actions)
		}
	}
	return out
}

// UpdateFor returns the Update that brings the object the target addresses from pristine to the state the specification
// gives it.
func UpdateFor(ps *PlanSpec, tg Target) Update {
	u := Update{}
	switch tg.Kind {
	case "plan":
		u.State, u.Reason = ps.State, ps.Reason
		return u
	case "block":
		if tg.Block >= 0 && tg.Block < len(ps.Blocks) {
			u.State = ps.Blocks[tg.Block].State
		}
		return u
	case "seq":
		if tg.Block >= 0 && tg.Block < len(ps.Blocks) && tg.Seq >= 0 && tg.Seq < len(ps.Blocks[tg.Block].Seqs) {
			u.State = ps.Blocks[tg.Block].Seqs[tg.Seq].State
		}
		return u
	case "checks":
		groups := &ps.Checks
		if tg.Block >= 0 && tg.Block < len(ps.Blocks) {
			groups = &ps.Blocks[tg.Block].Checks
		}
		if tg.Group >= 0 && tg.Group < 5 && groups[tg.Group] != nil {
			u.State = groups[tg.Group].State
		}
		return u
	case "action":
		if a := ResolveActionSpec(ps, tg); a != nil {
			u.State, u.Attempts = a.State, a.Attempts
		}
	}
	return u
}
