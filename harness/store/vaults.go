package store

import (
	"context"
	"fmt"
	"os"

	"github.com/element-of-surprise/coercion/plugins/registry"
	"github.com/element-of-surprise/coercion/workflow/storage"
	"github.com/element-of-surprise/coercion/workflow/storage/cosmosdb"
	"github.com/element-of-surprise/coercion/workflow/storage/sqlite"
	zsqlite "zombiezen.com/go/sqlite"
	"zombiezen.com/go/sqlite/sqlitex"
)

// Arms of the storage lab.
const (
	ArmSqliteMem  = "sqlite-mem"
	ArmSqliteFile = "sqlite-file"
	ArmCosmosFake = "cosmos-fake"
)

// IsSqlite says whether the arm is one of the sqlite arms.
func IsSqlite(arm string) bool { return arm == ArmSqliteMem || arm == ArmSqliteFile }

// Handle is an open vault of one arm.
type Handle struct {
	Arm   string
	Vault storage.Vault
	// Sqlite is the concrete vault of the sqlite arms (nil otherwise); gives access to Pool() for row counting.
	Sqlite *sqlite.Vault
	// Dir is the directory of the file-backed arm.
	Dir    string
	ownDir bool
	reg    *registry.Register
	opts   []sqlite.Option
}

// Open opens a fresh, empty vault of the arm over the registry.
func Open(arm string, reg *registry.Register) (*Handle, error) {
	h := &Handle{Arm: arm, reg: reg}
	ctx := context.Background()
	switch arm {
	case ArmSqliteMem:
		v, err := sqlite.New(ctx, "", reg, sqlite.WithInMemory())
		if err != nil {
			return nil, err
		}
		h.Vault, h.Sqlite = v, v
	case ArmSqliteFile:
		dir, err := os.MkdirTemp("", "verif-store-")
		if err != nil {
			return nil, err
		}
		h.Dir, h.ownDir = dir, true
		v, err := sqlite.New(ctx, dir, reg)
		if err != nil {
			os.RemoveAll(dir)
			return nil, err
		}
		h.Vault, h.Sqlite = v, v
	case ArmCosmosFake:
		h.Vault = cosmosdb.NewVerifFakeVault(reg)
	default:
		return nil, fmt.Errorf("unknown arm %q", arm)
	}
	return h, nil
}

// OpenDir opens a file-backed sqlite vault on an existing directory (which the caller owns).
func OpenDir(dir string, reg *registry.Register, opts ...sqlite.Option) (*Handle, error) {
	v, err := sqlite.New(context.Background(), dir, reg, opts...)
	if err != nil {
		return nil, err
	}
	return &Handle{Arm: ArmSqliteFile, Vault: v, Sqlite: v, Dir: dir, reg: reg, opts: opts}, nil
}

// Reopen closes the vault and opens a new one on the same directory (file-backed arm only).
func (h *Handle) Reopen() error {
	if h.Arm != ArmSqliteFile {
		return fmt.Errorf("reopen is only possible on the file-backed arm")
	}
	_ = h.Vault.Close(context.Background())
	v, err := sqlite.New(context.Background(), h.Dir, h.reg, h.opts...)
	if err != nil {
		return err
	}
	h.Vault, h.Sqlite = v, v
	return nil
}

// Close closes the vault and removes the temporary directory of the file-backed arm. A vault whose connection is still
// held by a leaked goroutine must be abandoned instead (Abandon).
func (h *Handle) Close() {
	if h.Vault != nil {
		_ = h.Vault.Close(context.Background())
	}
	if h.ownDir && h.Dir != "" {
		os.RemoveAll(h.Dir)
	}
}

// Abandon gives the vault up without closing it (closing a pool whose connection is in use blocks); only the temporary
// directory is removed.
func (h *Handle) Abandon() {
	if h.ownDir && h.Dir != "" {
		os.RemoveAll(h.Dir)
	}
}

// SqliteTables are the tables of the sqlite vault and the column that carries the plan id.
var SqliteTables = []struct{ Table, Column string }{
	{"plans", "id"}, {"blocks", "plan_id"}, {"checks", "plan_id"}, {"sequences", "plan_id"}, {"actions", "plan_id"},
}

func countQuery(conn *zsqlite.Conn, q string, args ...any) (int, error) {
	n := -1
	err := sqlitex.ExecuteTransient(conn, q, &sqlitex.ExecOptions{
		Args: args,
		ResultFunc: func(stmt *zsqlite.Stmt) error {
			n = stmt.ColumnInt(0)
			return nil
		},
	})
	if err != nil {
		return 0, err
	}
	if n < 0 {
		return 0, fmt.Errorf("count query returned no row")
	}
	return n, nil
}

// Rows counts the rows of every table; with planID != "" only the rows that carry that plan id.
func (h *Handle) Rows(planID string) (RowCounts, error) {
	var r RowCounts
	if h.Sqlite == nil {
		return r, fmt.Errorf("row counting needs a sqlite arm")
	}
	pool := h.Sqlite.Pool()
	conn, err := pool.Take(context.Background())
	if err != nil {
		return r, err
	}
	defer pool.Put(conn)
	dst := []*int{&r.Plans, &r.Blocks, &r.Checks, &r.Sequences, &r.Actions}
	for i, t := range SqliteTables {
		var n int
		if planID == "" {
			n, err = countQuery(conn, "SELECT COUNT(*) FROM "+t.Table)
		} else {
			n, err = countQuery(conn, "SELECT COUNT(*) FROM "+t.Table+" WHERE "+t.Column+" = ?", planID)
		}
		if err != nil {
			return r, fmt.Errorf("counting %s: %w", t.Table, err)
		}
		*dst[i] = n
	}
	return r, nil
}
