package store

import (
	"context"
	"fmt"
	"os"
	"sort"
	"strings"

	"github.com/google/uuid"

	"github.com/element-of-surprise/coercion/plugins/registry"
	"github.com/element-of-surprise/coercion/workflow/storage"
	"github.com/element-of-surprise/coercion/workflow/storage/cosmosdb"
	"github.com/element-of-surprise/coercion/workflow/storage/sqlite"
	zsqlite "zombiezen.com/go/sqlite"
	"zombiezen.com/go/sqlite/sqlitex"
)

// Arms of the storage lab.
const (
	ArmSqliteMem  = "sqlite-mem"
	ArmSqliteFile = "sqlite-file"
	ArmCosmosFake = "cosmos-fake"
)

// IsSqlite says whether the arm is one of the sqlite arms.
func IsSqlite(arm string) bool { return arm == ArmSqliteMem || arm == ArmSqliteFile }

// Handle is an open vault of one arm.
type Handle struct {
	Arm   string
	Vault storage.Vault
	// Sqlite is the concrete vault of the sqlite arms (nil otherwise); gives access to Pool() for row counting.
	Sqlite *sqlite.Vault
	// Dir is the directory of the file-backed arm.
	Dir    string
	ownDir bool
	reg    *registry.Register
	opts   []sqlite.Option
}

// Open opens a fresh, empty vault of the arm over the registry.
func Open(arm string, reg *registry.Register) (*Handle, error) {
	h := &Handle{Arm: arm, reg: reg}
	ctx := context.Background()
	switch arm {
	case ArmSqliteMem:
		v, err := sqlite.New(ctx, "", reg, sqlite.WithInMemory())
		if err != nil {
			return nil, err
		}
		h.Vault, h.Sqlite = v, v
	case ArmSqliteFile:
		dir, err := os.MkdirTemp("", "verif-store-")
		if err != nil {
			return nil, err
		}
		h.Dir, h.ownDir = dir, true
		v, err := sqlite.New(ctx, dir, reg)
		if err != nil {
			os.RemoveAll(dir)
			return nil, err
		}
		h.Vault, h.Sqlite = v, v
	case ArmCosmosFake:
		h.Vault = cosmosdb.NewVerifFakeVault(reg)
	default:
		return nil, fmt.Errorf("unknown arm %q", arm)
	}
	return h, nil
}

// OpenFileWith opens a fresh file-backed sqlite vault in a temporary directory of its own with the given options.
func OpenFileWith(reg *registry.Register, opts ...sqlite.Option) (*Handle, error) {
	dir, err := os.MkdirTemp("", "verif-store-")
	if err != nil {
		return nil, err
	}
	v, err := sqlite.New(context.Background(), dir, reg, opts...)
	if err != nil {
		os.RemoveAll(dir)
		return nil, err
	}
	return &Handle{Arm: ArmSqliteFile, Vault: v, Sqlite: v, Dir: dir, ownDir: true, reg: reg, opts: opts}, nil
}

// OpenDir opens a file-backed sqlite vault on an existing directory (which the caller owns).
func OpenDir(dir string, reg *registry.Register, opts ...sqlite.Option) (*Handle, error) {
	v, err := sqlite.New(context.Background(), dir, reg, opts...)
	if err != nil {
		return nil, err
	}
	return &Handle{Arm: ArmSqliteFile, Vault: v, Sqlite: v, Dir: dir, reg: reg, opts: opts}, nil
}

// Reopen closes the vault and opens a new one on the same directory (file-backed arm only).
func (h *Handle) Reopen() error {
	if h.Arm != ArmSqliteFile {
		return fmt.Errorf("reopen is only possible on the file-backed arm")
	}
	_ = h.Vault.Close(context.Background())
	v, err := sqlite.New(context.Background(), h.Dir, h.reg, h.opts...)
	if err != nil {
		return err
	}
	h.Vault, h.Sqlite = v, v
	return nil
}

// Close closes the vault and removes the temporary directory of the file-backed arm. A vault whose connection is still
// held by a leaked goroutine must be abandoned instead (Abandon).
func (h *Handle) Close() {
	if h.Vault != nil {
		_ = h.Vault.Close(context.Background())
	}
	if h.ownDir && h.Dir != "" {
		os.RemoveAll(h.Dir)
	}
}

// Abandon gives the vault up without closing it (closing a pool whose connection is in use blocks); only the temporary
// directory is removed.
func (h *Handle) Abandon() {
	if h.ownDir && h.Dir != "" {
		os.RemoveAll(h.Dir)
	}
}

// ---------------------------------------------------------------------------------------------------------------------
// Schema-agnostic row accounting for the sqlite arms.
//
// No statement names a table or a column. The tables are therefore discovered (sqlite_master), and the column that ties a
// row to a plan is discovered per table (pragma_table_info): "plan_id" where it exists, else "id" (the table of the plans
// themselves), else the table is not plan-scoped and only takes part in totals. Counts are always used RELATIVE to another
// measurement of the same vault (before/after an operation, or the baseline of the freshly opened empty vault), never
// against a model of "one row per object", so that extra tables, extra rows of the schema itself and other row layouts do
// not matter.

// Rows is a measurement of the user tables of a sqlite vault.
type Rows struct {
	Total   int
	ByTable map[string]int
}

// Equal reports whether two measurements agree table by table.
func (r Rows) Equal(o Rows) bool {
	if r.Total != o.Total || len(r.ByTable) != len(o.ByTable) {
		return false
	}
	for t, n := range r.ByTable {
		if m, ok := o.ByTable[t]; !ok || m != n {
			return false
		}
	}
	return true
}

func (r Rows) String() string {
	names := make([]string, 0, len(r.ByTable))
	for t := range r.ByTable {
		names = append(names, t)
	}
	sort.Strings(names)
	var sb strings.Builder
	fmt.Fprintf(&sb, "%d rows {", r.Total)
	for i, t := range names {
		if i > 0 {
			sb.WriteString(" ")
		}
		fmt.Fprintf(&sb, "%s:%d", t, r.ByTable[t])
	}
	sb.WriteString("}")
	return sb.String()
}

func quoteIdent(s string) string { return `"` + strings.ReplaceAll(s, `"`, `""`) + `"` }

func queryStrings(conn *zsqlite.Conn, q string, args ...any) ([]string, error) {
	var out []string
	err := sqlitex.ExecuteTransient(conn, q, &sqlitex.ExecOptions{
		Args: args,
		ResultFunc: func(stmt *zsqlite.Stmt) error {
			out = append(out, stmt.ColumnText(0))
			return nil
		},
	})
	return out, err
}

func countQuery(conn *zsqlite.Conn, q string, args ...any) (int, error) {
	n := -1
	err := sqlitex.ExecuteTransient(conn, q, &sqlitex.ExecOptions{
		Args: args,
		ResultFunc: func(stmt *zsqlite.Stmt) error {
			n = stmt.ColumnInt(0)
			return nil
		},
	})
	if err != nil {
		return 0, err
	}
	if n < 0 {
		return 0, fmt.Errorf("count query returned no row")
	}
	return n, nil
}

// SqliteRows measures the user tables of a sqlite vault through Vault.Pool(). With planID == uuid.Nil every row of every
// user table is counted. Otherwise only the rows that belong to that plan are counted: in every table that has a
// "plan_id" column the rows whose plan_id is the id, in a table without "plan_id" but with an "id" column the rows whose id
// is the id; tables with neither column do not take part. The id is matched in its canonical text form, in upper case,
// without dashes and as the 16 raw bytes, so the encoding of ids in the rows does not matter.
func SqliteRows(v *sqlite.Vault, planID uuid.UUID) (Rows, error) {
	r := Rows{ByTable: map[string]int{}}
	if v == nil {
		return r, fmt.Errorf("row counting needs a sqlite vault")
	}
	pool := v.Pool()
	conn, err := pool.Take(context.Background())
	if err != nil {
		return r, err
	}
	defer pool.Put(conn)
	tables, err := queryStrings(conn, "SELECT name FROM sqlite_master WHERE type = 'table' AND name NOT LIKE 'sqlite_%' ORDER BY name")
	if err != nil {
		return r, fmt.Errorf("listing tables: %w", err)
	}
	if len(tables) == 0 {
		return r, fmt.Errorf("the store has no tables")
	}
	for _, t := range tables {
		var n int
		if planID == uuid.Nil {
			n, err = countQuery(conn, "SELECT COUNT(*) FROM "+quoteIdent(t))
		} else {
			cols, cerr := queryStrings(conn, "SELECT name FROM pragma_table_info(?)", t)
			if cerr != nil {
				return r, fmt.Errorf("columns of %s: %w", t, cerr)
			}
			col := ""
			for _, c := range cols {
				if strings.EqualFold(c, "plan_id") {
					col = c
				}
			}
			if col == "" {
				for _, c := range cols {
					if strings.EqualFold(c, "id") {
						col = c
					}
				}
			}
			if col == "" {
				continue // not a plan-scoped table
			}
			text := planID.String()
			n, err = countQuery(conn, "SELECT COUNT(*) FROM "+quoteIdent(t)+" WHERE "+quoteIdent(col)+" IN (?, ?, ?, ?)",
				text, strings.ToUpper(text), strings.ReplaceAll(text, "-", ""), planID[:])
		}
		if err != nil {
			return r, fmt.Errorf("counting %s: %w", t, err)
		}
		r.ByTable[t] = n
		r.Total += n
	}
	return r, nil
}

// Rows measures the vault's tables (see SqliteRows); planID == uuid.Nil counts everything.
func (h *Handle) Rows(planID uuid.UUID) (Rows, error) {
	if h.Sqlite == nil {
		return Rows{}, fmt.Errorf("row counting needs a sqlite arm")
	}
	return SqliteRows(h.Sqlite, planID)
}

// RowHook installs, on the single connection of a sqlite vault (pool size 1), an application-defined SQL function and one
// TEMP trigger AFTER INSERT and one AFTER DELETE per user table (tables discovered from sqlite_master, nothing about the
// schema is assumed), so that fn is called synchronously, on the goroutine that executes the statement, after every row
// the vault inserts ("i") or deletes ("d"). TEMP triggers live in the connection, not in the database file, and are not
// counted by SqliteRows. An error returned by fn makes the statement that wrote the row fail (a storage fault at an exact
// row). Used by C14's cancel mode to end a context, or to fail the store, at an exact row of a Create or Delete.
func RowHook(v *sqlite.Vault, fn func(op string) error) error {
	if v == nil {
		return fmt.Errorf("row hook needs a sqlite vault")
	}
	pool := v.Pool()
	conn, err := pool.Take(context.Background())
	if err != nil {
		return err
	}
	defer pool.Put(conn)
	err = conn.CreateFunction("verif_row_hook", &zsqlite.FunctionImpl{
		NArgs:         1,
		AllowIndirect: true,
		Scalar: func(ctx zsqlite.Context, args []zsqlite.Value) (zsqlite.Value, error) {
			if err := fn(args[0].Text()); err != nil {
				return zsqlite.Value{}, err // the statement that wrote the row fails with this error
			}
			return zsqlite.IntegerValue(0), nil
		},
	})
	if err != nil {
		return fmt.Errorf("creating the hook function: %w", err)
	}
	tables, err := queryStrings(conn, "SELECT name FROM sqlite_master WHERE type = 'table' AND name NOT LIKE 'sqlite_%' ORDER BY name")
	if err != nil {
		return fmt.Errorf("listing tables: %w", err)
	}
	for i, t := range tables {
		for _, ev := range []struct{ name, op string }{{"INSERT", "i"}, {"DELETE", "d"}} {
			q := fmt.Sprintf("CREATE TEMP TRIGGER verif_hook_%s_%d AFTER %s ON main.%s BEGIN SELECT verif_row_hook('%s'); END;",
				strings.ToLower(ev.name), i, ev.name, quoteIdent(t), ev.op)
			if err := sqlitex.ExecuteTransient(conn, q, nil); err != nil {
				return fmt.Errorf("creating a trigger on %s: %w", t, err)
			}
		}
	}
	return nil
}
