// Package vprop is the shared core of every property check: it drives a
// generator + oracle pair with rapid, counts what was generated, keeps samples,
// writes the replay file of the (shrunk) failing case, consults the committed
// known-findings file, and replays saved cases without rapid.
package vprop

import (
	"bufio"
	"encoding/binary"
	"encoding/json"
	"fmt"
	"hash/fnv"
	"os"
	"path/filepath"
	"sort"
	"strconv"
	"strings"
	"sync"
	"testing"
	"time"

	"pgregory.net/rapid"
)

// Violation is one broken clause of a property.
type Violation struct {
	// Rule is the stable signature of the clause + structural class, e.g. "C04/quiescent:plugin-open-at-wait-return".
	Rule string
	// Msg is the human readable explanation with the concrete values.
	Msg string
}

// Result is what an oracle reports for one executed case.
type Result struct {
	Violations []Violation
	// NonTrivial is true when the case is non-trivial by the rule stated for the property.
	NonTrivial bool
	// Labels are classification labels counted in the evidence histogram.
	Labels []string
	// Sample, when non-nil, replaces the case itself as the evidence sample (a compact rendering).
	Sample any
	// HashExtra is appended to the canonical encoding of the case before hashing (e.g. crash point).
	HashExtra string
	// Skip marks a case that could not be judged (counted under "inconclusive_case").
	Skip bool
}

func (r *Result) Fail(rule, format string, a ...any) {
	r.Violations = append(r.Violations, Violation{Rule: rule, Msg: fmt.Sprintf(format, a...)})
}

func (r *Result) Label(l string) { r.Labels = append(r.Labels, l) }

// ---------------------------------------------------------------------------------------------------------------------
// stats

type collector struct {
	mu          sync.Mutex
	evaluations int64
	nontrivial  int64
	hashes      map[uint64]struct{}
	labels      map[string]int64
	samples     []any
	knownHits   map[string]int64
	extra       map[string]int64
}

var col = &collector{hashes: map[uint64]struct{}{}, labels: map[string]int64{}, knownHits: map[string]int64{}, extra: map[string]int64{}}

const maxSamples = 4

// Count adds to a free-form integer counter that is summed across shards (e.g. crash points).
func Count(name string, n int64) {
	col.mu.Lock()
	col.extra[name] += n
	col.mu.Unlock()
}

func record(hash uint64, res *Result, sample any) {
	col.mu.Lock()
	defer col.mu.Unlock()
	col.evaluations++
	for _, l := range res.Labels {
		col.labels[l]++
	}
	if res.Skip {
		col.labels["inconclusive_case"]++
		return
	}
	if res.NonTrivial {
		col.nontrivial++
		if _, ok := col.hashes[hash]; !ok {
			col.hashes[hash] = struct{}{}
			if len(col.samples) < maxSamples {
				col.samples = append(col.samples, sample)
			}
		}
	}
}

type statsFile struct {
	Evaluations int64            `json:"evaluations"`
	NonTrivial  int64            `json:"nontrivial"`
	Distinct    int64            `json:"distinct_nontrivial_shard"`
	Labels      map[string]int64 `json:"labels"`
	KnownHits   map[string]int64 `json:"known_hits"`
	Extra       map[string]int64 `json:"extra"`
	Samples     []any            `json:"samples"`
}

// Flush writes the shard's statistics to $VERIF_STATS_OUT (JSON) and the hash set to $VERIF_STATS_OUT.hashes (binary,
// little endian uint64). Called from TestMain.
func Flush() {
	if os.Getenv("VERIF_SURVEY") != "" {
		col.mu.Lock()
		for k, v := range col.labels {
			if strings.HasPrefix(k, "SURVEY:") {
				fmt.Fprintf(os.Stderr, "SURVEY count %6d %s\n", v, k)
			}
		}
		fmt.Fprintf(os.Stderr, "SURVEY evaluations %d extra %v\n", col.evaluations, col.extra)
		col.mu.Unlock()
	}
	out := os.Getenv("VERIF_STATS_OUT")
	if out == "" {
		return
	}
	col.mu.Lock()
	defer col.mu.Unlock()
	sf := statsFile{
		Evaluations: col.evaluations, NonTrivial: col.nontrivial, Distinct: int64(len(col.hashes)),
		Labels: col.labels, KnownHits: col.knownHits, Extra: col.extra, Samples: col.samples,
	}
	b, err := json.Marshal(sf)
	if err != nil {
		// samples may contain something unencodable; drop them rather than lose the counters
		sf.Samples = []any{fmt.Sprintf("unencodable samples: %v", err)}
		b, _ = json.Marshal(sf)
	}
	_ = os.WriteFile(out, b, 0o644)
	f, err := os.Create(out + ".hashes")
	if err != nil {
		return
	}
	w := bufio.NewWriter(f)
	keys := make([]uint64, 0, len(col.hashes))
	for h := range col.hashes {
		keys = append(keys, h)
	}
	sort.Slice(keys, func(i, j int) bool { return keys[i] < keys[j] })
	var buf [8]byte
	for _, h := range keys {
		binary.LittleEndian.PutUint64(buf[:], h)
		w.Write(buf[:])
	}
	w.Flush()
	f.Close()
}

// ---------------------------------------------------------------------------------------------------------------------
// known findings

type known struct {
	sig  string
	text string
}

var (
	knownOnce sync.Once
	knownList map[string][]known // property -> entries
)

func loadKnown() {
	knownList = map[string][]known{}
	path := os.Getenv("VERIF_KNOWN")
	if path == "" {
		return
	}
	b, err := os.ReadFile(path)
	if err != nil {
		return
	}
	for _, line := range strings.Split(string(b), "\n") {
		line = strings.TrimSpace(line)
		if !strings.HasPrefix(line, "known:") {
			continue
		}
		rest := strings.TrimSpace(strings.TrimPrefix(line, "known:"))
		var prop, sig string
		fields := strings.Fields(rest)
		n := 0
		for _, f := range fields {
			if strings.HasPrefix(f, "property=") {
				prop = strings.TrimPrefix(f, "property=")
				n++
			} else if strings.HasPrefix(f, "sig=") {
				sig = strings.TrimPrefix(f, "sig=")
				n++
			} else {
				break
			}
		}
		if prop == "" || sig == "" {
			continue
		}
		knownList[prop] = append(knownList[prop], known{sig: sig, text: strings.Join(fields[n:], " ")})
	}
}

// IsKnown reports whether the violation signature is listed as a known finding for the property.
func IsKnown(prop, rule string) bool {
	knownOnce.Do(loadKnown)
	for _, k := range knownList[prop] {
		if k.sig == rule {
			return true
		}
	}
	return false
}

// ---------------------------------------------------------------------------------------------------------------------
// running

// Spec describes one property check.
type Spec[T any] struct {
	// ID is the property id, e.g. "C19".
	ID string
	// Gen draws a case. Every random choice must come from t.
	Gen func(t *rapid.T) T
	// Check executes the case against the real code and judges it.
	Check func(c T) Result
	// Journal makes the runner write the case to $VERIF_JOURNAL before executing it (for checks whose
	// execution can kill the process).
	Journal bool
	// ReplayRepeat is how many times a replayed case is executed (schedule dependent properties).
	ReplayRepeat int
}

type replayFile struct {
	Property string          `json:"property"`
	Rule     string          `json:"rule"`
	Message  string          `json:"message"`
	Case     json.RawMessage `json:"case"`
}

// HashOf is the FNV-64a hash of the canonical JSON encoding of v plus extra.
func HashOf(v any, extra string) uint64 {
	b, _ := json.Marshal(v)
	h := fnv.New64a()
	h.Write(b)
	h.Write([]byte(extra))
	return h.Sum64()
}

func envInt(name string, def int) int {
	if s := os.Getenv(name); s != "" {
		if n, err := strconv.Atoi(s); err == nil {
			return n
		}
	}
	return def
}

func replayPath(id string) string {
	dir := os.Getenv("VERIF_REPLAY_OUT_DIR")
	if dir == "" {
		dir = os.TempDir()
	}
	shard := os.Getenv("VERIF_SHARD")
	if shard == "" {
		shard = "0"
	}
	return filepath.Join(dir, fmt.Sprintf("%s-%s.json", id, shard))
}

func writeReplay(id string, v Violation, c any) string {
	return writeReplayTo(replayPath(id), id, v, c)
}

func writeReplayTo(p string, id string, v Violation, c any) string {
	b, err := json.Marshal(c)
	if err != nil {
		b = []byte(fmt.Sprintf("%q", fmt.Sprintf("unencodable case: %v", err)))
	}
	rf := replayFile{Property: id, Rule: v.Rule, Message: v.Msg, Case: b}
	out, _ := json.MarshalIndent(rf, "", " ")
	_ = os.MkdirAll(filepath.Dir(p), 0o755)
	_ = os.WriteFile(p, out, 0o644)
	return p
}

// filterKnown drops violations listed as known findings, counting them.
func filterKnown(id string, vs []Violation) []Violation {
	var out []Violation
	for _, v := range vs {
		if IsKnown(id, v.Rule) {
			col.mu.Lock()
			col.knownHits[v.Rule]++
			col.mu.Unlock()
			continue
		}
		out = append(out, v)
	}
	return out
}

// Run executes the spec: replay mode (VERIF_REPLAY / VERIF_REPLAY_DIR) or generated search with rapid.
func Run[T any](t *testing.T, s Spec[T]) {
	if p := os.Getenv("VERIF_REPLAY"); p != "" {
		replayOne(t, s, p, true)
		return
	}
	if d := os.Getenv("VERIF_REPLAY_DIR"); d != "" {
		files, _ := filepath.Glob(filepath.Join(d, "*.json"))
		sort.Strings(files)
		for _, f := range files {
			replayOne(t, s, f, false)
		}
		Count("regressions_replayed", int64(len(files)))
		return
	}
	journal := os.Getenv("VERIF_JOURNAL")
	rapid.Check(t, func(rt *rapid.T) {
		c := s.Gen(rt)
		if s.Journal && journal != "" {
			if b, err := json.Marshal(c); err == nil {
				_ = os.WriteFile(journal, b, 0o644)
			}
		}
		res := s.Check(c)
		var sample any = c
		if res.Sample != nil {
			sample = res.Sample
		}
		record(HashOf(c, res.HashExtra), &res, sample)
		vs := filterKnown(s.ID, res.Violations)
		if len(vs) > 0 && os.Getenv("VERIF_SURVEY") != "" {
			// triage aid (never used by registered commands): count violations by rule and keep going
			col.mu.Lock()
			col.labels["SURVEY:"+vs[0].Rule]++
			if col.labels["SURVEY:"+vs[0].Rule] == 1 {
				msg := vs[0].Msg
				if len(msg) > 1500 {
					msg = msg[:1500]
				}
				fmt.Fprintf(os.Stderr, "SURVEY first %s :: %s\n", vs[0].Rule, msg)
				writeReplayTo(filepath.Join(os.TempDir(), "survey-"+strings.ReplaceAll(vs[0].Rule, "/", "_")+".json"), s.ID, vs[0], c)
			}
			col.mu.Unlock()
			return
		}
		if len(vs) > 0 {
			p := writeReplay(s.ID, vs[0], c)
			rt.Fatalf("VERIF-FAIL property=%s rule=%s replay=%s :: %s", s.ID, vs[0].Rule, p, vs[0].Msg)
		}
	})
}

// Fuzz is the byte-driven arm of a spec (thorough tier): the same generator and oracle, driven by go's native
// coverage-guided mutator through rapid.MakeFuzz. A failing execution writes a replay file in the usual format
// (<ID>-fuzz.json) before failing, so the saved case — not the fuzzer's byte string — is the reproducible unit.
func Fuzz[T any](f *testing.F, s Spec[T]) {
	// rapid consumes 8 input bytes per drawn word and skips an execution whose input runs out, so the seed corpus has
	// to be long: eight fixed 4 KiB byte strings (a constant xorshift sequence; this is corpus data, not a source of
	// randomness of the check — every choice of a case is still a rapid draw from the fuzzer's input).
	for seed := uint64(1); seed <= 8; seed++ {
		x := seed * 0x9E3779B97F4A7C15
		b := make([]byte, 4096)
		for i := range b {
			x ^= x << 13
			x ^= x >> 7
			x ^= x << 17
			b[i] = byte(x >> 32)
		}
		f.Add(b)
	}
	f.Fuzz(rapid.MakeFuzz(func(rt *rapid.T) {
		c := s.Gen(rt)
		res := s.Check(c)
		for _, v := range res.Violations {
			if IsKnown(s.ID, v.Rule) {
				continue
			}
			dir := os.Getenv("VERIF_REPLAY_OUT_DIR")
			if dir == "" {
				dir = os.TempDir()
			}
			p := writeReplayTo(filepath.Join(dir, s.ID+"-fuzz.json"), s.ID, v, c)
			rt.Fatalf("VERIF-FAIL property=%s rule=%s replay=%s :: %s", s.ID, v.Rule, p, v.Msg)
		}
	}))
}

// ObservedAfter returns a channel that is closed once d of time has been OBSERVED by a goroutine of this process that
// sleeps one millisecond at a time, and a function that abandons the wait. Stall windows ("nothing happened although the
// harness waited") are measured this way rather than with a wall-clock timer: a freeze of the whole process, or a
// machine too loaded to schedule it, stretches the wait instead of ending it, so slowness cannot look like a stall.
func ObservedAfter(d time.Duration) (<-chan struct{}, func()) {
	ch := make(chan struct{})
	stop := make(chan struct{})
	go func() {
		for ticks := 0; time.Duration(ticks)*time.Millisecond < d; ticks++ {
			select {
			case <-stop:
				return
			default:
			}
			time.Sleep(time.Millisecond)
		}
		close(ch)
	}()
	var once sync.Once
	return ch, func() { once.Do(func() { close(stop) }) }
}

func replayOne[T any](t *testing.T, s Spec[T], path string, strictDecode bool) {
	b, err := os.ReadFile(path)
	if err != nil {
		t.Fatalf("VERIF-REPLAY-ERROR cannot read %s: %v", path, err)
	}
	var rf replayFile
	var c T
	if err := json.Unmarshal(b, &rf); err == nil && len(rf.Case) > 0 {
		if err := json.Unmarshal(rf.Case, &c); err != nil {
			t.Fatalf("VERIF-REPLAY-ERROR cannot decode case in %s: %v", path, err)
		}
	} else if err := json.Unmarshal(b, &c); err != nil { // a bare case (journal file)
		t.Fatalf("VERIF-REPLAY-ERROR cannot decode %s: %v", path, err)
	}
	n := s.ReplayRepeat
	if n < 1 {
		n = 1
	}
	n = envInt("VERIF_REPLAY_REPEAT", n)
	for i := 0; i < n; i++ {
		res := s.Check(c)
		vs := filterKnown(s.ID, res.Violations)
		if len(vs) > 0 {
			p := writeReplay(s.ID, vs[0], c)
			t.Errorf("VERIF-FAIL property=%s rule=%s replay=%s source=%s :: %s", s.ID, vs[0].Rule, p, path, vs[0].Msg)
			return
		}
	}
}

// Main is the TestMain body shared by the props package.
func Main(m *testing.M) {
	code := m.Run()
	Flush()
	os.Exit(code)
}
