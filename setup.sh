#!/bin/sh
# setup_cmd: offline. Generates the harness go.mod/go.sum from /repo and warms the build cache by
# compiling the harness test binary once.
set -e
cd "$(dirname "$0")"
python3 - <<'PY'
import importlib.machinery, importlib.util, os, sys
loader = importlib.machinery.SourceFileLoader("vcheck", os.path.join(os.getcwd(), "check"))
spec = importlib.util.spec_from_loader("vcheck", loader)
m = importlib.util.module_from_spec(spec); loader.exec_module(m)
os.makedirs("work", exist_ok=True)
ok, secs = m.build("props", os.path.join(os.getcwd(), "work", "setup", "props.test"))
try: import shutil; shutil.rmtree(os.path.join("work", "setup"), ignore_errors=True)
except OSError: pass
print("setup: harness build %s in %.1fs" % ("ok" if ok else "FAILED", secs))
sys.exit(0 if ok else 1)
PY
