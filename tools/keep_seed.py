#!/usr/bin/env python3
"""keep_seed.py <name> <property> <caught|missed|caught-after-strengthening> "<which check / rule or why missed>"
Copies a verified seeded change from /tmp/seed-out/<name> into /verif/seeded/<name>/ and records what was run."""
import json, os, shutil, sys
name, prop, verdict, note = sys.argv[1:5]
src = "/tmp/seed-out/" + name
dst = "/verif/seeded/" + name
os.makedirs(dst, exist_ok=True)
for f in ("patch.diff", "demo_test.go"):
    shutil.copy(os.path.join(src, f), os.path.join(dst, f))
meta = json.load(open(os.path.join(src, "meta.json")))
ver = json.load(open(os.path.join(src, "verify.json")))
out = {
    "property": prop,
    "title": meta.get("title"),
    "what_changed": meta.get("what_changed"),
    "why_it_breaks_the_property": meta.get("why_it_breaks_the_property"),
    "needs_to_manifest": meta.get("needs_to_manifest"),
    "demo_dir": meta.get("demo_dir"), "demo_cmd": meta.get("demo_cmd"),
    "written_by": "independent sub-agent that saw only the property text and its own scratch worktree (nothing from /verif)",
    "confirmed_by_main": {
        "how": "tools/verify_seed.sh in a scratch worktree of /repo at " + ver["base_commit"] + ": demo on base, apply patch, build, demo with change, whole suite with change",
        "demo_exit_on_base": ver["demo_exit_on_base"], "demo_exit_with_change": ver["demo_exit_with_change"],
        "suite_exit_with_change": ver["suite_exit_with_change"],
    },
    "checks_run": "VERIF_REPO=<scratch worktree with the patch applied> ./check %s quick (equivalent to applying the patch to /repo; /repo itself is left alone because background runs read it)" % prop,
    "verdict": verdict,
    "note": note,
}
json.dump(out, open(os.path.join(dst, "meta.json"), "w"), indent=1)
print("kept", name, verdict)
