#!/bin/bash
# process_seed.sh <seed-name> <check-id> [more check ids...] : verify_seed.sh, then run the quick check(s) against the
# scratch worktree holding the change; prints one line per step. The worktree /tmp/vs-<name> is removed at the end.
name=$1; shift
/verif/tools/verify_seed.sh $name || exit 2
for id in "$@"; do
  out=$(cd /verif && VERIF_REPO=/tmp/vs-$name ./check $id quick 2>&1 | grep -a -E "VERIF-FAIL|^OK|INCONCL|^VIOLATION" | cut -c1-260 | head -1)
  echo "### $name vs $id: $out"
done
git -C /repo worktree remove --force /tmp/vs-$name
