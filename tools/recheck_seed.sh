#!/bin/bash
# recheck_seed.sh <seed-name> <check-id> : applies /verif/seeded/<seed>/patch.diff (or a mutants/*.patch given as a path)
# to a scratch worktree of /repo HEAD, runs ./check <id> quick against it and prints the first verdict line.
# Exit 0 = the check reported a violation (the seed is caught), 1 = not caught, 2 = patch does not apply.
seed="$1"; id="$2"
patch="/verif/seeded/$seed/patch.diff"; [ -f "$seed" ] && patch="$(readlink -f "$seed")" && seed="$(basename "$seed" .patch)"
wt="/tmp/rs-$seed-$$"
git -C /repo worktree add -q --detach "$wt" HEAD || exit 2
if ! git -C "$wt" apply "$patch" 2>/dev/null; then echo "### $seed vs $id: PATCH DOES NOT APPLY"; git -C /repo worktree remove --force "$wt"; exit 2; fi
out=$(cd /verif && VERIF_REPO="$wt" ./check "$id" quick 2>&1 | grep -a -E "VERIF-FAIL|^OK|INCONCL|^VIOLATION" | cut -c1-200 | head -1)
git -C /repo worktree remove --force "$wt"
echo "### $seed vs $id: $out"
case "$out" in *VERIF-FAIL*|VIOLATION*) exit 0;; *) exit 1;; esac
