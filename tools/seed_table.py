#!/usr/bin/env python3
"""Prints the markdown table of /verif/seeded/*/meta.json for DESIGN.md §9."""
import glob, json, os
rows = []
for f in sorted(glob.glob('/verif/seeded/*/meta.json')):
    m = json.load(open(f))
    name = os.path.basename(os.path.dirname(f))
    what = (m.get('title') or m.get('what_changed') or '').replace('|', '/').replace('\n', ' ')
    if len(what) > 150:
        what = what[:147] + '...'
    rows.append("| %s | %s | %s | %s | %s |" % (name, m['property'], what, m['verdict'], m['note'].replace('|', '/')))
print("| seed | property | change | verdict | check / rule |")
print("|---|---|---|---|---|")
print("\n".join(rows))
