#!/usr/bin/env python3
"""sweep_seeds.py [-j N] [name ...]
Re-runs every kept seeded change (/verif/seeded/<name>/patch.diff) against the quick check that is recorded as catching
it (the first "Cnn quick" named in its note, else the check of its own property), each in a scratch worktree of /repo
HEAD (tools/recheck_seed.sh), and writes /verif/seeded/SWEEP.json + prints a table. A patch that no longer applies to
HEAD (a later fix: commit touched the same lines) is reported as such: it was confirmed on the base commit recorded in
its meta.json."""
import glob, json, os, re, subprocess, sys
from concurrent.futures import ThreadPoolExecutor

args = sys.argv[1:]
jobs = 3
if args[:1] == ["-j"]:
    jobs = int(args[1]); args = args[2:]
names = args or sorted(os.path.basename(os.path.dirname(f)) for f in glob.glob("/verif/seeded/*/meta.json"))

def check_of(meta):
    if meta.get("caught_by"):
        return meta["caught_by"]
    m = re.search(r"\b(C\d\d) quick", meta.get("note", ""))
    return m.group(1) if m else meta["property"]

def one(name):
    meta = json.load(open("/verif/seeded/%s/meta.json" % name))
    if meta["verdict"].startswith("equivalent"):
        return name, meta["property"], "skipped", "recorded as equivalent under the reading in force"
    chk = check_of(meta)
    if meta["verdict"] == "missed":
        return name, chk, "skipped", "recorded as missed (see note)"
    target = name
    if meta.get("ported_patch"):
        target = "/verif/" + meta["ported_patch"].split()[0]
    p = subprocess.run(["/verif/tools/recheck_seed.sh", target, chk], capture_output=True, text=True)
    line = (p.stdout.strip().splitlines() or [""])[-1]
    if p.returncode == 0:
        m = re.search(r"rule=(\S+)", line)
        return name, chk, "caught", m.group(1) if m else line[-80:]
    if p.returncode == 2 or "build of the harness" in line:
        return name, chk, "patch-does-not-apply-to-HEAD", ""
    return name, chk, "NOT CAUGHT", line[-120:]

with ThreadPoolExecutor(jobs) as ex:
    rows = list(ex.map(one, names))
head = subprocess.check_output(["git", "-C", "/repo", "rev-parse", "--short", "HEAD"], text=True).strip()
out = {"repo_head": head, "results": [dict(seed=n, check=c, result=r, detail=d) for n, c, r, d in rows]}
if not args:
    json.dump(out, open("/verif/seeded/SWEEP.json", "w"), indent=1)
for n, c, r, d in rows:
    print("%-10s %-4s %-30s %s" % (n, c, r, d))
print("caught %d, not caught %d, not applicable to HEAD %d, skipped %d" % (
    sum(r == "caught" for _, _, r, _ in rows), sum(r == "NOT CAUGHT" for _, _, r, _ in rows),
    sum(r.startswith("patch") for _, _, r, _ in rows), sum(r == "skipped" for _, _, r, _ in rows)))
