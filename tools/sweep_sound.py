#!/usr/bin/env python3
"""sweep_sound.py [-j N]
Re-runs the statement-preserving changes of the two soundness audits (mutants/S-*.patch, mutants/SP-*.patch) against the
quick checks the audits ran them against (the "checks run" column of the audit tables), each in a scratch worktree of
/repo HEAD. Every run must be silent: a reported violation is a false alarm of the harness. Writes
/verif/mutants/SWEEP-soundness.json and prints a table. Patches that no longer apply to HEAD are listed as such."""
import json, os, re, subprocess, sys
from concurrent.futures import ThreadPoolExecutor

jobs = 3
if sys.argv[1:2] == ["-j"]:
    jobs = int(sys.argv[2])

pairs = []
def table(path, prefix):
    for line in open(path):
        if not line.startswith("|"):
            continue
        cols = [c.strip() for c in line.strip().strip("|").split("|")]
        if len(cols) < 4:
            continue
        m = re.search(r"`([a-z0-9-]+)`", cols[1])
        if not m:
            continue
        name = prefix + m.group(1)
        if not os.path.exists("/verif/mutants/%s.patch" % name):
            continue
        for chk in sorted(set(re.findall(r"C\d\d", cols[3]))):
            pairs.append((name, chk))
table("/verif/mutants/AUDIT-soundness.md", "S-")
table("/verif/mutants/AUDIT-soundness-pure.md", "SP-")
# changes that are NOT statement-preserving by the audits' own verdict (borderline probes) are left out
skip = {"S-builder-plan-wraps-error"}
pairs = [(n, c) for n, c in pairs if n not in skip]

def one(pc):
    name, chk = pc
    p = subprocess.run(["/verif/tools/recheck_seed.sh", "/verif/mutants/%s.patch" % name, chk], capture_output=True, text=True)
    line = (p.stdout.strip().splitlines() or [""])[-1]
    if p.returncode == 2:
        return name, chk, "patch-does-not-apply-to-HEAD", ""
    if p.returncode == 0:
        return name, chk, "FALSE ALARM", line[-160:]
    if "INCONCL" in line:
        return name, chk, "inconclusive", line[-160:]
    return name, chk, "silent", ""

with ThreadPoolExecutor(jobs) as ex:
    rows = list(ex.map(one, pairs))
head = subprocess.check_output(["git", "-C", "/repo", "rev-parse", "--short", "HEAD"], text=True).strip()
json.dump({"repo_head": head, "results": [dict(change=n, check=c, result=r, detail=d) for n, c, r, d in rows]},
          open("/verif/mutants/SWEEP-soundness.json", "w"), indent=1)
for n, c, r, d in rows:
    if r != "silent":
        print("%-45s %-4s %-30s %s" % (n, c, r, d))
print("runs %d: silent %d, false alarms %d, inconclusive %d, not applicable to HEAD %d" % (
    len(rows), sum(r == "silent" for *_, r, _ in rows), sum(r == "FALSE ALARM" for *_, r, _ in rows),
    sum(r == "inconclusive" for *_, r, _ in rows), sum(r.startswith("patch") for *_, r, _ in rows)))
