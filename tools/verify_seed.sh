#!/bin/bash
# verify_seed.sh <seed-dir-name> [--no-suite]   e.g. C05 or C05-b
# Confirms a seeded change in a scratch worktree of /repo HEAD: demo passes without the change, fails with it, the
# repository's whole suite passes with it. Writes /tmp/seed-out/<name>/verify.json
name=$1; src=/tmp/seed-out/$name; wt=/tmp/vs-$name
[ -f $src/patch.diff ] || { echo "no patch for $name"; exit 2; }
git -C /repo worktree remove --force $wt 2>/dev/null; git -C /repo worktree add -q --detach $wt HEAD || exit 2
demo_dir=$(python3 -c "import json;print(json.load(open('$src/meta.json'))['demo_dir'])")
demo_cmd=$(python3 -c "import json;print(json.load(open('$src/meta.json'))['demo_cmd'])")
cd $wt
mkdir -p $demo_dir; cp $src/demo_test.go $demo_dir/zz_seed_demo_test.go
run_demo() { ( cd $wt && eval "$demo_cmd" ) > $src/demo.$1.log 2>&1; echo $?; }
base=$(run_demo base)
git apply $src/patch.diff || { echo "patch does not apply"; exit 2; }
GOPROXY=off go build ./... > $src/build.log 2>&1 || { echo "build fails"; exit 2; }
with=$(run_demo with)
suite=skipped
if [ "$2" != "--no-suite" ]; then
  rm $demo_dir/zz_seed_demo_test.go
  GOPROXY=off go test -vet=off -count=1 -timeout 20m ./... > $src/suite.verify.log 2>&1; suite=$?
  cp $src/demo_test.go $demo_dir/zz_seed_demo_test.go
fi
python3 - <<PY
import json
json.dump({"demo_exit_on_base": $base, "demo_exit_with_change": $with, "suite_exit_with_change": "$suite", "base_commit": "$(git -C /repo rev-parse --short HEAD)"}, open("$src/verify.json","w"))
print("$name: demo base=$base with=$with suite=$suite")
PY
